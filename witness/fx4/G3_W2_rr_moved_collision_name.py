"""Observation B: the identifier a relocated directory gets in /RR_MOVED when
its own name is taken there must still be legal for the interchange level.

Usage: W2_rr_moved_collision_name.py <path-to-checkout>
"""
import io
import sys

sys.path.insert(0, sys.argv[1])

import pycdlib
from pycdlib.pycdlibexception import PyCdlibInvalidInput

DCHARS = set(b'ABCDEFGHIJKLMNOPQRSTUVWXYZ0123456789_')


def build(level, name, count):
    iso = pycdlib.PyCdlib()
    iso.new(rock_ridge='1.09', interchange_level=level)
    for top in range(count):
        path = ''
        for depth in range(7):
            dirname = '%s%d' % (chr(ord('D') + top), depth)
            path += '/' + dirname
            iso.add_directory(path, rr_name=dirname.lower())
        iso.add_directory(path + '/' + name, rr_name='deep')
        iso.add_fp(io.BytesIO(b'file %d' % (top)), 6, path + '/' + name + '/F.;1', rr_name='f')
    return iso


def check(level, name, count, maxlen, problems):
    try:
        iso = build(level, name, count)
    except PyCdlibInvalidInput as e:
        problems.append('level %d, %d directories called %s: refused (%s)' % (level, count, name, e))
        return
    out = io.BytesIO()
    iso.write_fp(out)
    iso.close()

    chk = pycdlib.PyCdlib()
    chk.open_fp(out)
    names = [c.file_identifier() for c in chk.list_children(iso_path='/RR_MOVED')
             if not c.is_dot() and not c.is_dotdot()]
    if len(names) != count or len(set(names)) != count:
        problems.append('level %d: /RR_MOVED holds %r, expected %d distinct names' % (level, names, count))
    for n in names:
        if len(n) > maxlen or not set(n) <= DCHARS:
            problems.append('level %d: /RR_MOVED holds %r (%d characters, limit is %d)' % (level, n, len(n), maxlen))
    # Every relocated directory is still reached through its original path.
    for top in range(count):
        path = '/' + '/'.join('%s%d' % (chr(ord('D') + top), depth) for depth in range(7)) + '/' + name + '/F.;1'
        buf = io.BytesIO()
        chk.get_file_from_iso_fp(buf, iso_path=path)
        if buf.getvalue() != b'file %d' % (top):
            problems.append('level %d: %s reads %r' % (level, path, buf.getvalue()))
    chk.close()


def main():
    problems = []
    check(1, 'ABCDEFGH', 2, 8, problems)
    check(1, 'ABCDEFGH', 4, 8, problems)
    check(1, 'ABCDEF', 3, 8, problems)
    check(1, 'ABC', 3, 8, problems)
    check(3, 'ABCDEFGH', 3, 207, problems)

    # A short name keeps getting the plain three digit suffix.
    iso = build(3, 'ABCDEFGH', 2)
    names = sorted(c.file_identifier() for c in iso.list_children(iso_path='/RR_MOVED')
                   if not c.is_dot() and not c.is_dotdot())
    if names != [b'ABCDEFGH', b'ABCDEFGH000']:
        problems.append('level 3: expected ABCDEFGH and ABCDEFGH000 in /RR_MOVED, got %r' % (names))
    iso.close()

    if problems:
        for p in problems:
            print(p)
        return 1
    print('OK')
    return 0


if __name__ == '__main__':
    sys.exit(main())
