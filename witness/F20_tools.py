"""Tool defects (C20).  Usage: F20_tools.py [which]   which in: list, none, symlink, dedup, udfsymlink, all
F-20.5 every -*-list option crashes (xreadlines);  F-20.1 a refused ISO name is used anyway (no continue);
F-20.2 -R drops symlinks;  F-20.6 duplicates decided by size + 32-bit hash only;  F-20.4 extract-files crashes on UDF symlinks."""
import os, subprocess, sys, tempfile, shutil, io
PY = '/venv/bin/python'
GEN = '/repo/tools/pycdlib-genisoimage'
EXT = '/repo/tools/pycdlib-extract-files'
env = dict(os.environ, PYTHONPATH='/repo')
which = sys.argv[1] if len(sys.argv) > 1 else 'all'
bad = []
d = tempfile.mkdtemp(prefix='pycdlib-tools-')
try:
    src = os.path.join(d, 'src'); os.mkdir(src)
    open(os.path.join(src, 'a.txt'), 'w').write('hello')
    if which in ('list', 'all'):
        lst = os.path.join(d, 'excl'); open(lst, 'w').write('*.bak\n')
        r = subprocess.run([PY, GEN, '-quiet', '-o', os.path.join(d, 'l.iso'), '-exclude-list', lst, src], env=env, capture_output=True, text=True)
        print('exclude-list: exit', r.returncode, r.stderr.strip().splitlines()[-1:] )
        if r.returncode != 0:
            bad.append('F-20.5 -exclude-list crashes')
    if which in ('symlink', 'all'):
        s2 = os.path.join(d, 's2'); os.mkdir(s2)
        open(os.path.join(s2, 'f'), 'w').write('x'); os.symlink('f', os.path.join(s2, 'lnk'))
        out = {}
        for flag in ('-r', '-R'):
            iso = os.path.join(d, 'sym%s.iso' % flag)
            subprocess.run([PY, GEN, '-quiet', flag, '-o', iso, s2], env=env, capture_output=True, text=True)
            sys.path.insert(0, '/repo'); import pycdlib
            i = pycdlib.PyCdlib(); i.open(iso)
            out[flag] = sorted(c.rock_ridge.name() for c in i.list_children(iso_path='/') if not c.is_dot() and not c.is_dotdot())
            i.close()
        print('names with -r:', out['-r'], ' with -R:', out['-R'])
        if out['-r'] != out['-R']:
            bad.append('F-20.2 -R drops symlinks that -r keeps')
    if which in ('none', 'all'):
        # 1001 files that mangle to the same 8.3 name exhaust the collision numbering -> build_iso_path returns None
        s3 = os.path.join(d, 's3'); os.mkdir(s3)
        for i in range(1002):
            open(os.path.join(s3, 'collision-name-%04d.txt' % i), 'w').write(str(i))
        r = subprocess.run([PY, GEN, '-quiet', '-o', os.path.join(d, 'n.iso'), s3], env=env, capture_output=True, text=True)
        print('1002 colliding names: exit', r.returncode, r.stderr.strip().splitlines()[-1:])
        if r.returncode != 0:
            bad.append('F-20.1 refused ISO name used anyway')
    if which in ('udfsymlink', 'all'):
        s4 = os.path.join(d, 's4'); os.mkdir(s4)
        open(os.path.join(s4, 'f'), 'w').write('x'); os.symlink('f', os.path.join(s4, 'lnk'))
        iso = os.path.join(d, 'u.iso')
        subprocess.run([PY, GEN, '-quiet', '-udf', '-o', iso, s4], env=env, capture_output=True, text=True)
        o = os.path.join(d, 'out'); os.mkdir(o)
        r = subprocess.run([PY, EXT, '-path-type', 'udf', '-extract-to', o, iso], env=env, capture_output=True, text=True)
        print('extract udf symlink: exit', r.returncode, r.stderr.strip().splitlines()[-1:])
        if r.returncode != 0:
            bad.append('F-20.4 extract-files crashes on a UDF symlink')
finally:
    shutil.rmtree(d, ignore_errors=True)
for b in bad:
    print(b)
print('DEFECT' if bad else 'OK')
sys.exit(1 if bad else 0)
