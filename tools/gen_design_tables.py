#!/venv/bin/python
"""Regenerate the generated tables of DESIGN.md section 11 (between the BEGIN/END GENERATED markers)."""
import json, os, sys, glob, re
ROOT = os.path.dirname(os.path.dirname(os.path.abspath(__file__)))
sys.path.insert(0, ROOT); os.chdir(ROOT)
from sa import registry
registry.load_rules()
out = []
out.append('#### 11.2 Property -> rules as registered (generated from the rule registry)\n')
out.append('| property | rules |\n|---|---|')
ids = [json.loads(l)['id'] for l in open('properties.jsonl')]
for pid in ids:
    out.append('| %s | %s |' % (pid, ', '.join(registry.prop_rules(pid))))
out.append('')
k = json.load(open('known_findings.json'))
out.append('#### 11.3 Findings and their final disposition (generated from known_findings.json)\n')
out.append('| id | property | status | rule / key | what failed | /repo commit | witness |\n|---|---|---|---|---|---|---|')
def esc(s): return str(s).replace('|', '\\|')
nopen = 0
for f in k['findings']:
    if f.get('status') == 'open' and f.get('rule') == 'SA-VBM':
        nopen += 1
        continue
    out.append('| %s | %s | %s | %s `%s` | %s | %s | %s |' % (f.get('id', ''), f.get('property', ''), f.get('status', ''), esc(f.get('rule', '')), esc(f.get('key', ''))[:90],
                                                               esc(f.get('what', ''))[:200], f.get('commit', ''), esc(f.get('witness', ''))))
out.append('| F-14/1..%d | C14 | open | SA-VBM (one entry per refusing statement) | multi-namespace edits that are refused after an earlier part was applied; each entry names its scenario of witness/F14_atomicity.py | | witness/F14_atomicity.py |' % nopen)
out.append('')
out.append('#### 11.4 Seeded regressions (generated from seeded/*/meta.json)\n')
out.append('| seed | changed | needs to manifest | first try | caught by (check: rule) | silent checks |\n|---|---|---|---|---|---|')
for d in sorted(glob.glob('seeded/*/meta.json')):
    m = json.load(open(d))
    cb = []
    for p, v in sorted(m.get('caught_by', {}).items()):
        rules = sorted(set(re.match(r'(SA-[A-Za-z_.\-]+)', r).group(1) for r in v.get('reports', []) if r.startswith('SA-')))
        cb.append('%s: %s' % (p, ', '.join(rules) or 'exit %s' % v.get('exit')))
    out.append('| %s | %s | %s | %s | %s | %d of 20 |' % (m['id'], ', '.join(m.get('changed', [])), esc(m.get('needs_to_manifest', ''))[:160], m.get('first_try', ''),
                                                        '; '.join(cb) or '**none**', len(m.get('silent', []))))
out.append('')
text = '\n'.join(out)
p = 'DESIGN.md'
s = open(p).read()
b, e = '<!-- BEGIN GENERATED -->', '<!-- END GENERATED -->'
if b in s and e in s:
    s = s[:s.index(b) + len(b)] + '\n' + text + '\n' + s[s.index(e):]
    open(p, 'w').write(s)
    print('DESIGN.md tables regenerated')
else:
    print(text)
