"""SA-SNAPSHOT.facade: a facade keeps no copy of image state (C18).

The facades hold a reference to the PyCdlib object and derive names (`iso_path_to_rr_name`, the manglers)
from its *current* interchange level.  The same PyCdlib object can be closed and re-created or re-opened
at another level while a facade is alive; a facade attribute that holds a value copied out of the PyCdlib
object - a field that PyCdlib writes after its own __init__, or the result of one of its methods - is a
snapshot that no one refreshes, and every name derived from it is legal for the old image, not the current
one.  Rule: in every class of pycdlib/facade.py, the only thing stored in `self.<slot>` that comes from the
PyCdlib object is the object itself.
"""
import ast

from ..registry import rule, props
from ..report import Ob
from ..model import norm, AnalysisError, type_classes
from .. import effects
from .. import expand as ex

PY = 'pycdlib.PyCdlib'


@rule('SA-SNAPSHOT.facade')
@props('C18')
def snapshot_facade(ctx):
    obs = []
    py = ctx.cls(PY)
    classes = [c for c in ctx.m.classes.values() if c.qual.startswith('facade.')]
    if len(classes) < 4:
        raise AnalysisError('anchor-vanished: facade classes (%d)' % len(classes))
    nstores = 0
    for ci in sorted(classes, key=lambda c: c.qual):
        for fi in ci.methods.values():
            for w in effects.direct_writes(ctx, fi):
                if w.kind not in ('assign', 'aug') or w.value is None or not isinstance(w.node, ast.Attribute) or norm(w.recv) != 'self':
                    continue
                nstores += 1
                val = ex.expand(ctx, fi, w.value, w.stmt)
                bad = []
                for n in ast.walk(val):
                    if not isinstance(n, ast.Attribute):
                        continue
                    if PY not in type_classes(ctx.t.expr_type(n.value, fi)):
                        continue
                    if n.attr in py.methods:
                        bad.append('the result of PyCdlib.%s()' % n.attr)
                        continue
                    late = [w2 for w2 in effects.writers_of(ctx, PY, n.attr) if w2.fi.name != '__init__']
                    if late:
                        bad.append('PyCdlib.%s (rewritten by %s)' % (n.attr, ', '.join(sorted(set(w2.fi.name for w2 in late))[:4])))
                key = '%s|self.%s' % (fi.qual, w.attr)
                obs.append(Ob('SA-SNAPSHOT.facade', key, not bad, ctx.loc(fi, w.node),
                              '' if not bad else '%s stores %s in the facade: the copy is never refreshed, so after the PyCdlib object is closed and '
                              're-created or re-opened (another interchange level, another image) every name the facade derives from it is computed '
                              'for the old image' % (fi.qual, '; '.join(bad))))
    if nstores < 4:
        raise AnalysisError('anchor-vanished: facade attribute stores (%d)' % nstores)
    return obs
