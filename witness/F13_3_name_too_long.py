"""F-13.3: names that cannot fit the one-byte length fields are accepted at edit time and make
write fail later with struct.error."""
import io, sys
sys.path.insert(0, '/repo')
import pycdlib
bad = []
for kind in ('iso-level3', 'iso-level4', 'udf'):
    iso = pycdlib.PyCdlib()
    if kind == 'udf':
        iso.new(udf='2.60')
    else:
        iso.new(interchange_level=3 if kind == 'iso-level3' else 4)
    try:
        if kind == 'udf':
            iso.add_fp(io.BytesIO(b'x'), 1, '/A.;1', udf_path='/' + 'u' * 300)
        else:
            iso.add_fp(io.BytesIO(b'x'), 1, '/' + 'A' * 300 + '.;1')
        accepted = True
    except pycdlib.pycdlibexception.PyCdlibInvalidInput:
        accepted = False
    werr = None
    if accepted:
        try:
            iso.write_fp(io.BytesIO())
        except Exception as e:   # noqa
            werr = type(e).__name__
    print(kind, 'accepted' if accepted else 'refused', 'write:', werr or 'ok')
    if accepted and werr:
        bad.append(kind)
print('DEFECT' if bad else 'OK')
sys.exit(1 if bad else 0)
