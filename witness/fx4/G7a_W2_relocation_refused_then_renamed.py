"""A relocation that is refused because the user has an entry called RR_MOVED must leave the way
out open: set_relocated_name() and a second attempt.

On the defective tree the refused add_directory() (a) leaves the Rock Ridge link count of the root
one too high and (b) has already fixed the name of the relocation directory, so that
set_relocated_name() is refused with "Changing the existing rr_moved name is not allowed".

Usage: W2_relocation_refused_then_renamed.py <path-to-checkout>"""
import io
import os
import sys
import tempfile
import time

sys.path.insert(0, sys.argv[1])
time.time = lambda: 1700000000.0     # fixed clock, the images are compared byte for byte
import pycdlib
from pycdlib.pycdlibexception import PyCdlibInvalidInput

DEEP = '/D0/D1/D2/D3/D4/D5/D6/D7'


def make():
    iso = pycdlib.PyCdlib()
    iso.new(rock_ridge='1.09')
    iso.add_directory('/RR_MOVED', rr_name='rr_moved')     # the user's own
    p = ''
    for i in range(7):
        p += '/D%d' % i
        iso.add_directory(p, rr_name='d%d' % i)
    return iso


def image(iso):
    out = io.BytesIO()
    iso.write_fp(out)
    return out.getvalue()


def main():
    problems = []
    ref = make()
    iso = make()
    try:
        iso.add_directory(DEEP, rr_name='d7')
        print('the relocation was accepted; nothing to check')
        return 0
    except PyCdlibInvalidInput:
        pass

    if image(iso) != image(ref):
        problems.append('the refused add_directory() changed the image that is written')

    for obj, label in ((ref, 'untouched object'), (iso, 'object after the refused call')):
        try:
            obj.set_relocated_name('XX_MOVED', 'xx_moved')
            obj.add_directory(DEEP, rr_name='d7')
        except Exception as e:     # noqa
            problems.append('%s: choosing another relocation name and retrying raised %s: %s' % (label, type(e).__name__, e))

    if not problems:
        if image(iso) != image(ref):
            problems.append('after the retry the two objects write different images')
        with tempfile.TemporaryDirectory() as tmp:
            path = os.path.join(tmp, 'out.iso')
            iso.write(path)
            back = pycdlib.PyCdlib()
            back.open(path)
            names = sorted(c.file_identifier() for c in back.list_children(iso_path='/') if not c.is_dot() and not c.is_dotdot())
            if names != [b'D0', b'RR_MOVED', b'XX_MOVED']:
                problems.append('root of the written image holds %r' % (names,))
            try:
                back.get_record(rr_path='/d0/d1/d2/d3/d4/d5/d6/d7')
            except Exception as e:     # noqa
                problems.append('relocated directory not found by its Rock Ridge path: %s' % (e,))
            back.close()
    ref.close()
    iso.close()

    if problems:
        print('\n'.join(problems))
        return 1
    print('OK')
    return 0


if __name__ == '__main__':
    sys.exit(main())
