"""
duplicate_pvd() on a UDF image adds one block to the volume size although the
extra PVD goes into the unused gap before sector 32 and nothing moves.  The
written image ends with an empty sector and the trailing UDF anchor sits one
sector before the end of the volume instead of in its last sector.
"""
import io
import struct
import sys

sys.dont_write_bytecode = True
sys.path.insert(0, sys.argv[1])
import pycdlib  # noqa: E402  pylint: disable=wrong-import-position


def check(img, what, expected_sectors, problems):
    declared, = struct.unpack_from('<L', img, 16 * 2048 + 80)
    if len(img) != declared * 2048:
        problems.append('%s: PVD declares %d sectors, image has %.2f' % (what, declared, len(img) / 2048.0))
    if expected_sectors is not None and declared != expected_sectors:
        problems.append('%s: volume has %d sectors, expected %d' % (what, declared, expected_sectors))
    last = img[(declared - 1) * 2048:declared * 2048]
    if not any(bytearray(last)):
        problems.append('%s: the last sector (%d) of the volume is empty' % (what, declared - 1))
    elif struct.unpack_from('<H', last, 0)[0] != 2:
        problems.append('%s: the last sector (%d) of the volume is not a UDF anchor' % (what, declared - 1))
    # Both PVDs must be there and agree on the size.
    for num in (16, 17):
        sec = img[num * 2048:(num + 1) * 2048]
        if sec[0:6] != b'\x01CD001':
            problems.append('%s: sector %d is not a PVD' % (what, num))
        elif struct.unpack_from('<L', sec, 80)[0] != declared:
            problems.append('%s: PVD at sector %d declares a different size' % (what, num))


def main():
    problems = []
    iso = pycdlib.PyCdlib()
    iso.new(udf='2.60')
    iso.add_fp(io.BytesIO(b'x'), 1, '/FOO.;1', udf_path='/foo')
    out = io.BytesIO()
    iso.write_fp(out)
    before = len(out.getvalue()) // 2048

    iso.duplicate_pvd()
    out = io.BytesIO()
    iso.write_fp(out)
    iso.close()
    img = out.getvalue()
    check(img, 'after duplicate_pvd', before, problems)

    # The result must open again and stay consistent across a further edit.
    try:
        iso = pycdlib.PyCdlib()
        iso.open_fp(io.BytesIO(img))
        iso.add_directory('/DIR1', udf_path='/dir1')
        out = io.BytesIO()
        iso.write_fp(out)
        iso.close()
        check(out.getvalue(), 'reopened + add_directory', None, problems)
    except Exception as exc:  # pylint: disable=broad-except
        problems.append('image with duplicate PVD cannot be processed: %s: %s' % (type(exc).__name__, exc))

    if problems:
        for problem in problems:
            print(problem)
        return 1
    print('OK')
    return 0


if __name__ == '__main__':
    sys.exit(main())
