"""
Observation C: the Apple Partition Map written for add_isohybrid(mac=True) must
delimit the El Torito images: the two Apple_HFS entries have to start at the
block (2048 bytes, as block 0 says) of the EFI and of the Mac boot image and be
as long as they are, and the entry for the map itself has to cover the map.
This must also hold after a later edit that moves the images, and the image
must survive an open/write round trip.

usage: W3_apm_entries_unset.py <path-to-checkout>
"""
import io
import struct
import sys

sys.path.insert(0, sys.argv[1])
import pycdlib  # noqa: E402

BOOT = b'\x00' * 0x40 + b'\xfb\xc0\x78\x70' + b'\x00' * (2048 - 0x44)
APM_FMT = '>HHLLL32s32sLLL'


def apm_entries(img):
    (sig, blksize) = struct.unpack_from('>2sH', img, 0)
    entries = []
    for i in range(1, 4):
        (sig, resv, map_count, start, count, name, type_desc, data_start,
         data_count, status) = struct.unpack_from(APM_FMT, img, blksize * i)
        entries.append({'sig': sig, 'map_count': map_count, 'start': start,
                        'count': count, 'name': name.rstrip(b'\x00'),
                        'type': type_desc.rstrip(b'\x00'),
                        'data_start': data_start, 'data_count': data_count})
    return blksize, entries


def check_image(label, img, problems):
    (blksize, entries) = apm_entries(img)
    if img[0:2] != b'ER' or blksize != 2048:
        problems.append('%s: block 0 is not an Apple driver descriptor with 2048 byte blocks' % (label))
        return
    for (i, ent) in enumerate(entries):
        if ent['sig'] != 0x504d or ent['map_count'] != 3:
            problems.append('%s: APM entry %d: signature 0x%x, map count %d' % (label, i + 1, ent['sig'], ent['map_count']))
            return

    # Where the MBR says the images are (in 512 byte sectors).
    (efi_lba, efi_count) = struct.unpack_from('<LL', img, 446 + 16 + 8)
    (mac_lba, mac_count) = struct.unpack_from('<LL', img, 446 + 32 + 8)
    if 0 in (efi_lba, efi_count, mac_lba, mac_count):
        problems.append('%s: MBR EFI/Mac entries not set' % (label))
        return

    ent = entries[0]
    if ent['type'] != b'Apple_partition_map':
        problems.append('%s: APM entry 1 is of type %r' % (label, ent['type']))
    if ent['start'] != 1 or ent['count'] < 3 or ent['data_count'] != ent['count']:
        problems.append('%s: APM entry 1 (the map itself, blocks 1-3) is start %d, count %d, data count %d' % (label, ent['start'], ent['count'], ent['data_count']))

    for (i, what, lba, count) in ((1, 'EFI', efi_lba, efi_count), (2, 'Mac', mac_lba, mac_count)):
        ent = entries[i]
        if ent['type'] != b'Apple_HFS':
            problems.append('%s: APM entry %d is of type %r' % (label, i + 1, ent['type']))
        want_start = lba * 512 // blksize
        want_count = (count * 512 + blksize - 1) // blksize
        if ent['start'] != want_start or ent['count'] != want_count or ent['data_count'] != want_count or ent['data_start'] != 0:
            problems.append('%s: APM entry %d is start %d, count %d, data %d+%d; the %s image is at block %d, %d block(s)' % (label, i + 1, ent['start'], ent['count'], ent['data_start'], ent['data_count'], what, want_start, want_count))


def main():
    problems = []

    iso = pycdlib.PyCdlib()
    iso.new()
    iso.add_fp(io.BytesIO(BOOT), len(BOOT), '/BOOT.;1')
    efi = b'E' * 5000
    iso.add_fp(io.BytesIO(efi), len(efi), '/EFI.;1')
    mac = b'M' * 2048
    iso.add_fp(io.BytesIO(mac), len(mac), '/MAC.;1')
    iso.add_eltorito('/BOOT.;1', '/BOOT.CAT;1', boot_load_size=4)
    iso.add_eltorito('/EFI.;1', efi=True)
    iso.add_eltorito('/MAC.;1', efi=True)
    iso.add_isohybrid(mac=True, mbr_id=5)

    fp = io.BytesIO()
    iso.write_fp(fp)
    img = fp.getvalue()
    check_image('new image', img, problems)

    # An edit that moves the boot images.
    iso.add_directory('/ADIR')
    iso.add_fp(io.BytesIO(b'x' * 3000), 3000, '/AAA.;1')
    fp = io.BytesIO()
    iso.write_fp(fp)
    img2 = fp.getvalue()
    if struct.unpack_from('<L', img2, 446 + 16 + 8) == struct.unpack_from('<L', img, 446 + 16 + 8):
        problems.append('witness: the edit did not move the EFI image')
    check_image('after an edit', img2, problems)
    iso.close()

    # Round trip.
    iso = pycdlib.PyCdlib()
    iso.open_fp(io.BytesIO(img2))
    fp = io.BytesIO()
    iso.write_fp(fp)
    if fp.getvalue() != img2:
        problems.append('open/write round trip changes the image')
    iso.rm_file('/AAA.;1')
    fp = io.BytesIO()
    iso.write_fp(fp)
    check_image('opened, then edited', fp.getvalue(), problems)
    iso.close()

    if problems:
        print('\n'.join(problems))
        return 1
    print('OK')
    return 0


if __name__ == '__main__':
    sys.exit(main())
