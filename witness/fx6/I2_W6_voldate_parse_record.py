#!/usr/bin/env python
"""
Observation F: VolumeDescriptorDate.parse() followed by record() is not the
identity when the digits are not a date that time.strptime() accepts; the
field is rewritten as sixteen '0' and a NUL.

usage: W6_voldate_parse_record.py <path-to-checkout>
"""
import io
import sys

sys.path.insert(0, sys.argv[1])

import pycdlib
from pycdlib import dates, rockridge

problems = []

CASES = [
    (b'2023022912000000\x04', 'Feb 29 in a non-leap year'),
    (b'2023130112000000\x04', 'month 13'),
    (b'\x00' * 17, '17 NUL bytes'),
    (b'0' * 16 + b'\x04', 'all-zero date with a non-zero offset'),
    (b'2024022912000000\x04', 'a valid date (control)'),
    (b'0' * 16 + b'\x00', 'the unspecified date (control)'),
]

for field, what in CASES:
    d = dates.VolumeDescriptorDate()
    d.parse(field)
    if d.record() != field:
        problems.append('VolumeDescriptorDate %s: parse(%r).record() == %r' % (what, field, d.record()))

    tf = rockridge.RRTFRecord()
    rec = b'TF\x16\x01\x81' + field
    tf.parse(rec)
    if tf.record() != rec:
        problems.append('long-form TF %s: parse + record changed the field to %r' % (what, tf.record()[5:]))

# End to end: the creation date of a Primary Volume Descriptor.
iso = pycdlib.PyCdlib()
iso.new()
out = io.BytesIO()
iso.write_fp(out)
iso.close()
image = bytearray(out.getvalue())
off = 16 * 2048 + 813
image[off:off + 17] = CASES[0][0]
iso = pycdlib.PyCdlib()
iso.open_fp(io.BytesIO(bytes(image)))
out = io.BytesIO()
iso.write_fp(out)
iso.close()
after = out.getvalue()[off:off + 17]
if after != CASES[0][0]:
    problems.append('PVD creation date %r became %r after open + write' % (CASES[0][0], after))

if problems:
    print('\n'.join(problems))
    sys.exit(1)
print('OK')
