#!/venv/bin/python
"""Triage helper (NOT a registered check: it runs the library): every `fixed` finding's witness must pass
on the current /repo, every `open` finding's witness must still show the defect."""
import json, os, subprocess, sys
ROOT = os.path.dirname(os.path.dirname(os.path.abspath(__file__)))
k = json.load(open(os.path.join(ROOT, 'known_findings.json')))
seen = {}
bad = 0
for f in k['findings']:
    w = f.get('witness')
    if not w:
        continue
    key = (w, f['status'])
    if key in seen:
        continue
    parts = w.split()
    cmd = ['/venv/bin/python', os.path.join(ROOT, parts[0])] + (['/repo'] if not parts[1:] else parts[1:])
    if parts[0].endswith('F14_atomicity.py'):
        cmd = ['/venv/bin/python', os.path.join(ROOT, parts[0])] + parts[1:]
    for attempt in (1, 2):
        # a witness that compares two generations of an image can trip over a clock second that passes between them:
        # an unexpected result is tried once more
        r = subprocess.run(cmd, capture_output=True, text=True, timeout=900)
        last = (r.stdout.strip().splitlines() or [''])[-1]
        ok = (r.returncode == 0) if f['status'] == 'fixed' else (r.returncode != 0 or 'DEFECT' in r.stdout)
        if ok:
            break
    seen[key] = ok
    if not ok:
        bad += 1
    print('%-5s %-6s %-55s exit=%d %s' % ('ok' if ok else 'BAD', f['status'], w[:55], r.returncode, last[:70]))
print('%d witnesses, %d unexpected' % (len(seen), bad))
sys.exit(1 if bad else 0)
