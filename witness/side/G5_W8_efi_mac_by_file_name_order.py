"""
With two 0xef El Torito sections the first section of the boot catalog should
become the EFI partition and the second one the Mac partition (this is what
syslinux' isohybrid does).  pycdlib decides by the ISO9660 file name order of
the two images instead: /ZEFI.IMG;1 added first and /AMAC.IMG;1 added second
yields an EFI partition that delimits AMAC.IMG.
"""
import io
import struct
import sys

sys.path.insert(0, sys.argv[1])
import pycdlib  # noqa: E402

BOOT = b'\x00' * 0x40 + b'\xfb\xc0\x78\x70'


def main():
    iso = pycdlib.PyCdlib()
    iso.new()
    iso.add_fp(io.BytesIO(BOOT), len(BOOT), '/ISOLINUX.BIN;1')
    iso.add_eltorito('/ISOLINUX.BIN;1', boot_load_size=4)
    iso.add_fp(io.BytesIO(b'Z' * 3000), 3000, '/ZEFI.IMG;1')
    iso.add_eltorito('/ZEFI.IMG;1', efi=True)
    iso.add_fp(io.BytesIO(b'A' * 5000), 5000, '/AMAC.IMG;1')
    iso.add_eltorito('/AMAC.IMG;1', efi=True)
    iso.add_isohybrid(mac=True)
    out = io.BytesIO()
    iso.write_fp(out)
    iso.close()
    raw = out.getvalue()

    iso2 = pycdlib.PyCdlib()
    iso2.open_fp(io.BytesIO(raw))
    entries = [e for s in iso2.eltorito_boot_catalog.sections for e in s.section_entries]
    iso2.close()

    problems = []
    for num, entry, name in ((2, entries[0], 'EFI'), (3, entries[1], 'Mac')):
        start, length = struct.unpack_from('<LL', raw, 446 + 16 * (num - 1) + 8)
        if (start, length) != (entry.load_rba * 4, entry.sector_count):
            problems.append('MBR partition %d (%s) is start %d length %d; 0xef section %d of the boot catalog is start %d length %d'
                            % (num, name, start, length, num - 1, entry.load_rba * 4, entry.sector_count))
    if problems:
        print('\n'.join(problems))
        return 1
    print('OK')
    return 0


if __name__ == '__main__':
    sys.exit(main())
