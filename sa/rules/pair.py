"""SA-PAIR: parallel state must move together.

Each instance says: whenever event A happens in a function, event B happens in the same
function (for some instances: on every path, or in the same block).  Instances are filled
from the effect extraction over the whole program, so a new site of A anywhere is checked.
"""
import ast

from ..registry import rule, props
from ..report import Ob
from ..model import norm, type_classes, AnalysisError, stmt_head
from .. import effects
from .. import cfg as cfgmod

DR = 'dr.DirectoryRecord'
INO = 'inode.Inode'
UFE = 'udf.UDFFileEntry'
INS = ('insert', 'append', 'insort', 'insort_left', 'insort_right', 'extend')
DEL = ('setitem', 'pop', 'remove', 'clear', 'popleft')


def _is_del_write(w):
    if w.kind == 'del':
        return True
    if w.kind == 'mutate' and w.method in ('pop', 'remove', 'clear', 'popleft'):
        return True
    if w.kind == 'mutate' and w.method == 'setitem' and isinstance(w.stmt, ast.Delete):
        return True
    return False


def _is_ins_write(w):
    return w.kind == 'mutate' and w.method in INS


@rule('SA-PAIR.rr_children')
@props('C01', 'C02', 'C07', 'C13')
def rr_children(ctx):
    """insert/delete on DirectoryRecord.children  <->  same on rr_children"""
    obs = []
    n = 0
    for fi in ctx.m.pkg_functions():
        ws = effects.direct_writes(ctx, fi)
        ch = [w for w in ws if w.attr == 'children' and DR in w.classes and w.kind != 'assign']
        rr = [w for w in ws if w.attr == 'rr_children' and DR in w.classes and w.kind != 'assign']
        for w in ch:
            n += 1
            if _is_ins_write(w):
                ok = any(_is_ins_write(x) for x in rr)
                what = 'inserts into'
            elif _is_del_write(w):
                ok = any(_is_del_write(x) for x in rr)
                what = 'deletes from'
            else:
                ok = bool(rr)
                what = 'mutates'
            obs.append(Ob('SA-PAIR.rr_children', '%s|%s' % (fi.qual, norm(w.stmt)[:70]), ok, ctx.loc(fi, w.node),
                          '' if ok else '%s %s children but leaves the parallel Rock Ridge index rr_children alone: '
                          'the entry stays (or never becomes) reachable by rr_path' % (fi.qual, what)))
        for w in rr:
            if not ch:
                obs.append(Ob('SA-PAIR.rr_children', '%s|%s' % (fi.qual, norm(w.stmt)[:70]), False, ctx.loc(fi, w.node),
                              'rr_children changed without children'))
    if n < 2:
        raise AnalysisError('anchor-vanished: mutations of DirectoryRecord.children not found')
    return obs


def _must_follow(ctx, fi, anode, is_b):
    """every path from CFG node anode to the normal exit passes a node satisfying is_b"""
    g = ctx.cfg(fi)

    def transfer(n, st, lab):
        if n is not anode and is_b(n):
            return False
        return st
    # pending = True right after A
    IN = g.forward(True, transfer, lambda a, b: a or b, start=anode)
    return not IN[g.exit.id]


def _node_calls(n, name):
    for e in cfgmod.node_exprs(n):
        for sub in ast.walk(e):
            if isinstance(sub, ast.Call) and isinstance(sub.func, ast.Attribute) and sub.func.attr == name:
                return True
    return False


def _deferred_recompute(ctx, fi, an):
    """The returns reachable from CFG node `an` without a recomputation are all guarded by one parameter P of fi being
    true; every call chain that binds P to something other than False ends in a function that, after the call, reaches
    on every normal path a method of DirectoryRecord that recomputes from index 0.  None if so, else what is missing
    ('' when this is not the deferral shape at all)."""
    from .. import expand as ex
    g = ctx.cfg(fi)
    params = [p.lstrip('*') for p in fi.params]

    def transfer(n, st, lab):
        if n is not an and _node_calls(n, '_recalculate_extents_and_offsets'):
            return False
        return st
    IN = g.forward(True, transfer, lambda a, b: a or b, start=an)
    rets = [n for n in g.nodes if n.kind == 'stmt' and isinstance(n.stmt, ast.Return) and IN.get(n.id)]
    if not rets:
        return ''
    flag = None
    for r in rets:
        names = set()
        for test, pol, _at in ex.conditions(ctx, fi, r.stmt, True):
            for t, p in ex.conjuncts(test, pol):
                if p and isinstance(t, ast.Name) and t.id in params:
                    names.add(t.id)
        if not names:
            return ''
        flag = names if flag is None else (flag & names)
    if not flag:
        return ''
    P = sorted(flag)[0]
    # finishers: methods of the class that call the recomputation with start index 0 on every path
    finishers = set()
    for m in fi.cls.methods.values():
        if m is fi:
            continue
        mg = ctx.cfg(m)
        calls0 = [n for n in mg.nodes for e in cfgmod.node_exprs(n) for c in ast.walk(e)
                  if isinstance(c, ast.Call) and isinstance(c.func, ast.Attribute) and c.func.attr == '_recalculate_extents_and_offsets' and
                  c.args and isinstance(c.args[0], ast.Constant) and c.args[0].value == 0]
        if calls0 and _must_follow(ctx, m, mg.entry, lambda n: _node_calls(n, '_recalculate_extents_and_offsets')):
            finishers.add(m.name)
    if not finishers:
        return 'no method recomputes the whole directory (index 0) for the callers that set `%s`' % P
    seen = set()
    work = [(fi, P)]
    nsites = 0
    while work:
        f, p = work.pop()
        if (f.qual, p) in seen:
            continue
        seen.add((f.qual, p))
        fparams = [x.lstrip('*') for x in f.params]
        idx = fparams.index(p) - (1 if f.cls is not None and fparams and fparams[0] == 'self' else 0)
        for caller, c in ctx.callers().get(f.qual, []):
            a = c.node.args[idx] if 0 <= idx < len(c.node.args) else None
            for kw in c.node.keywords:
                if kw.arg == p:
                    a = kw.value
            if a is None or (isinstance(a, ast.Constant) and a.value is False):
                continue
            if isinstance(a, ast.Name) and a.id in [x.lstrip('*') for x in caller.params]:
                work.append((caller, a.id))
                continue
            nsites += 1
            cg = ctx.cfg(caller)
            sn = cg.node_of(ctx.enclosing_stmt(caller, c.node))
            if sn is None or not _must_follow(ctx, caller, sn, lambda n: any(_node_calls(n, fn) for fn in finishers)):
                return '%s asks for the recomputation to be left out (line %d) but does not reach %s() on every path afterwards' % (
                    caller.qual, c.node.lineno, '/'.join(sorted(finishers)))
    return None


@rule('SA-PAIR.offset_cache')
@props('C03', 'C02')
def offset_cache(ctx):
    """any mutation of children -> _recalculate_extents_and_offsets on every path to the return"""
    obs = []
    ctx.func(DR + '._recalculate_extents_and_offsets')
    for fi in ctx.m.pkg_functions():
        ws = [w for w in effects.direct_writes(ctx, fi) if w.attr == 'children' and DR in w.classes and w.kind != 'assign']
        if not ws:
            continue
        g = ctx.cfg(fi)
        for w in ws:
            an = g.node_of(w.stmt)
            ok = an is not None and _must_follow(ctx, fi, an, lambda n: _node_calls(n, '_recalculate_extents_and_offsets'))
            why = '' if ok else 'children changed but a path returns without recomputing extents_to_here/offset_to_here/index_in_parent: ' \
                'in-place modification and removal then address the wrong record'
            if not ok and an is not None:
                # deferred recomputation: the skipping returns are taken only on request of a parameter, and whoever
                # requests it calls a method that recomputes the whole directory afterwards
                missing = _deferred_recompute(ctx, fi, an)
                if missing is None:
                    ok, why = True, 'recomputation deferred on request of the caller, which recomputes the whole directory afterwards'
                elif missing:
                    why += ' (%s)' % missing
            obs.append(Ob('SA-PAIR.offset_cache', '%s|%s' % (fi.qual, norm(w.stmt)[:70]), ok, ctx.loc(fi, w.node), why))
    if not obs:
        raise AnalysisError('anchor-vanished: mutations of DirectoryRecord.children not found')
    # the recompute itself must assign all three cached fields for every child from index on
    fi = ctx.func(DR + '._recalculate_extents_and_offsets')
    written = set(w.attr for w in effects.direct_writes(ctx, fi) if DR in w.classes)
    for a in ('extents_to_here', 'offset_to_here', 'index_in_parent'):
        obs.append(Ob('SA-PAIR.offset_cache', '%s|assigns %s' % (fi.qual, a), a in written, ctx.loc(fi, fi.node),
                      '' if a in written else 'cache field %s is no longer recomputed' % a))
    return obs


def _tuple_first(call):
    """ino.linked_records.append((X, flag)) -> (receiver expr of linked_records, X)"""
    if call.args and isinstance(call.args[0], ast.Tuple) and call.args[0].elts:
        return call.func.value.value, call.args[0].elts[0]
    return None, None


def _paired_on_every_path(ctx, fi, node, partners):
    """the CFG node of one of `partners` dominates or post-dominates (normal exit) the node of `node`: whenever
    one of the two halves of the link executes, so does the other"""
    g = ctx.cfg(fi)
    a = g.node_of(ctx.enclosing_stmt(fi, node))
    if a is None:
        return False
    cache = ctx.__dict__.setdefault('_domcache', {})
    if fi.qual not in cache:
        cache[fi.qual] = (g.dominators(), g.dominators(post=True))
    dom, pdom = cache[fi.qual]
    for p in partners:
        b = g.node_of(ctx.enclosing_stmt(fi, p))
        if b is None:
            continue
        if b.id == a.id or b.id in dom.get(a.id, ()) or b.id in pdom.get(a.id, ()):
            return True
    return False


@rule('SA-PAIR.link_inode')
@props('C07', 'C02', 'C11')
def link_inode(ctx):
    """X.inode = ino / X.set_inode(ino)  <->  ino.linked_records.append((X, ...)) in the same function, and on the
    same paths: one half dominates or post-dominates the other (a half that sits in one branch only leaves the
    other paths with a one-directional link: the inode is then moved or released without that name)"""
    obs = []
    n = 0
    for fi in ctx.m.pkg_functions():
        ws = effects.direct_writes(ctx, fi)
        appends = []
        for w in ws:
            if w.attr == 'linked_records' and INO in w.classes and w.kind == 'mutate' and w.method == 'append':
                r, x = _tuple_first(w.node)
                if x is not None:
                    appends.append((norm(r), norm(x), w))
        sets = []
        for w in ws:
            if w.attr == 'inode' and w.kind == 'assign' and w.value is not None and not \
                    (isinstance(w.value, ast.Constant) and w.value.value is None) and \
                    (set(w.classes) & {DR, UFE, 'eltorito.EltoritoEntry'}) and fi.name not in ('set_inode',):
                sets.append((norm(w.value), norm(w.recv), w.node))
        for c in ctx.calls(fi):
            if c.name == 'set_inode' and c.node.args and isinstance(c.node.func, ast.Attribute):
                sets.append((norm(c.node.args[0]), norm(c.node.func.value), c.node))
        for ino_e, x_e, node in sets:
            n += 1
            partners = [a[2].node for a in appends if a[0] == ino_e and a[1] == x_e]
            ok = bool(partners)
            why = '' if ok else '%s points %s at inode %s but does not register it in %s.linked_records: ' \
                'the blob would be released (or moved) without this name' % (fi.qual, x_e, ino_e, ino_e)
            if ok and not _paired_on_every_path(ctx, fi, node, partners):
                ok = False
                why = '%s points %s at inode %s on every path, but registers it in %s.linked_records only on some (line %s): on the other paths the ' \
                    'inode does not know this name - it is moved without updating it, or released while it is still in use' % (
                        fi.qual, x_e, ino_e, ino_e, ', '.join(str(p.lineno) for p in partners))
            obs.append(Ob('SA-PAIR.link_inode', '%s|%s.inode = %s' % (fi.qual, x_e, ino_e), ok, ctx.loc(fi, node), why))
        for ino_e, x_e, w in appends:
            partners = [s[2] for s in sets if s[0] == ino_e and s[1] == x_e]
            ok = bool(partners)
            why = '' if ok else '%s registers %s with inode %s but never sets %s.inode' % (fi.qual, x_e, ino_e, x_e)
            if ok and not _paired_on_every_path(ctx, fi, w.node, partners):
                ok = False
                why = '%s registers %s with inode %s on every path but sets %s.inode only on some' % (fi.qual, x_e, ino_e, x_e)
            obs.append(Ob('SA-PAIR.link_inode', '%s|%s.linked_records += %s' % (fi.qual, ino_e, x_e), ok, ctx.loc(fi, w.node), why))
    if n < 5:
        raise AnalysisError('anchor-vanished: inode link sites not found (%d)' % n)
    return obs


def _emptiness_test(t):
    """the test decides on whether X.linked_records is empty - in either polarity (`if not X.linked_records:`
    release, or `if X.linked_records: continue` in front of the release), as truth value or through len()"""
    if isinstance(t, ast.Attribute):
        return t.attr == 'linked_records'
    if isinstance(t, ast.UnaryOp) and isinstance(t.op, ast.Not):
        return _emptiness_test(t.operand)
    if isinstance(t, ast.BoolOp):
        return any(_emptiness_test(v) for v in t.values)
    if isinstance(t, ast.Compare):
        for side in [t.left] + list(t.comparators):
            if isinstance(side, ast.Call) and isinstance(side.func, ast.Name) and side.func.id == 'len' and len(side.args) == 1 and \
                    _emptiness_test(side.args[0]):
                return True
            if isinstance(side, ast.Attribute) and side.attr == 'linked_records' and \
                    any(isinstance(o, (ast.List, ast.Tuple)) and not o.elts for o in [t.left] + list(t.comparators)):
                return True
    return False


@rule('SA-PAIR.unlink_release')
@props('C07', 'C04', 'C11', 'C02')
def unlink_release(ctx):
    """removal from Inode.linked_records -> emptiness test, del self.inodes[...] and a length delta"""
    obs = []
    n = 0
    for fi in ctx.m.pkg_functions():
        ws = effects.direct_writes(ctx, fi)
        rem = [w for w in ws if w.attr == 'linked_records' and INO in w.classes and
               (_is_del_write(w) or (w.kind == 'assign' and fi.name != '__init__'))]
        if not rem:
            continue
        inodes_del = [w for w in ws if w.attr == 'inodes' and _is_del_write(w)]
        if not inodes_del:
            # the release may live in a helper called from here (one level)
            for c in ctx.calls(fi):
                for cal in c.callees:
                    if any(w2.attr == 'inodes' and _is_del_write(w2) for w2 in effects.direct_writes(ctx, cal)):
                        inodes_del.append(c)
        has_empty_test = False
        for node in ctx.own_nodes(fi):
            if isinstance(node, (ast.If, ast.While, ast.IfExp)) and _emptiness_test(node.test):
                has_empty_test = True
        par = ctx.parents(fi)

        def in_rollback(node):
            # inside an exception handler that re-raises: the statement takes back a reference this call added
            # itself, so the count returns to what it was before the call and cannot newly reach zero
            cur = node
            while cur is not None and cur is not fi.node:
                cur = par.get(id(cur))
                if isinstance(cur, ast.ExceptHandler) and cur.body and isinstance(cur.body[-1], ast.Raise) and cur.body[-1].exc is None:
                    return True
            return False
        for w in rem:
            n += 1
            if in_rollback(w.stmt):
                obs.append(Ob('SA-PAIR.unlink_release', '%s|%s' % (fi.qual, norm(w.stmt)[:70]), True, ctx.loc(fi, w.node), 'roll-back inside a handler that re-raises'))
                continue
            ok = bool(inodes_del) and has_empty_test
            obs.append(Ob('SA-PAIR.unlink_release', '%s|%s' % (fi.qual, norm(w.stmt)[:70]), ok, ctx.loc(fi, w.node),
                          '' if ok else '%s removes references from an inode but never tests for the last reference and releases the inode '
                          '(del self.inodes[...]): the blob is orphaned, keeps its sectors, and later passes trip over it' % fi.qual))
    if n < 2:
        raise AnalysisError('anchor-vanished: removals from Inode.linked_records not found')
    return obs


def _dom_or_pdom(g, a, b, dom, pdom):
    """node b is on every entry->exit path through a"""
    return b.id in dom[a.id] or b.id in pdom[a.id]


@rule('SA-PAIR.removal_cache')
@props('C01', 'C02', 'C03', 'C06', 'C07', 'C09', 'C13')
def removal_cache(ctx):
    """removal primitives are accompanied, on every path, by cache_clear() of the lru_cache finders"""
    obs = []
    pc = ctx.cls('pycdlib.PyCdlib')
    cached = sorted(name for name, f in pc.methods.items() if any('lru_cache' in d for d in f.decorators))
    if len(cached) < 4:
        raise AnalysisError('anchor-vanished: lru_cache finders (%s)' % cached)
    want = {
        DR + '.remove_child': [c for c in cached if c in ('_find_iso_record', '_find_rr_record', '_find_joliet_record')],
        UFE + '.remove_file_ident_desc_by_name': [c for c in cached if c == '_find_udf_record'],
    }

    def clears(n):
        out = set()
        for e in cfgmod.node_exprs(n):
            for sub in ast.walk(e):
                if isinstance(sub, ast.Call) and isinstance(sub.func, ast.Attribute) and sub.func.attr == 'cache_clear' \
                        and isinstance(sub.func.value, ast.Attribute):
                    out.add(sub.func.value.attr)
        return out
    nsites = 0
    for callee, finders in want.items():
        ctx.func(callee)
        for caller, c in ctx.callers().get(callee, []):
            nsites += 1
            g = ctx.cfg(caller)
            dom = g.dominators()
            pdom = g.dominators(post=True)
            an = g.node_of(ctx.enclosing_stmt(caller, c.node))
            for fnd in finders:
                ok = False
                if an is not None:
                    for n in g.nodes:
                        if fnd in clears(n) and _dom_or_pdom(g, an, n, dom, pdom):
                            ok = True
                            break
                obs.append(Ob('SA-PAIR.removal_cache', '%s|%s|%s' % (caller.qual, callee.rsplit('.', 1)[1], fnd), ok, ctx.loc(caller, c.node),
                              '' if ok else '%s removes a directory entry without clearing the %s cache on every path: '
                              'a removed entry can still be returned by a cached path lookup' % (caller.qual, fnd)))
    if nsites < 2:
        raise AnalysisError('anchor-vanished: removal call sites')
    # _initialize clears every cache that exists
    init = pc.methods.get('_initialize')
    if init is None:
        raise AnalysisError('anchor-vanished pycdlib.PyCdlib._initialize')
    g = ctx.cfg(init)
    cl = set()
    for n in g.nodes:
        cl |= clears(n)
    for fnd in cached:
        ok = fnd in cl
        obs.append(Ob('SA-PAIR.removal_cache', 'pycdlib.PyCdlib._initialize|%s' % fnd, ok, ctx.loc(init, init.node),
                      '' if ok else 'close/re-open does not clear the %s cache: records of the previous image survive' % fnd))
    return obs


@rule('SA-PAIR.udf_link_count')
@props('C02', 'C04', 'C10')
def udf_link_count(ctx):
    """appending a UDFFileEntry to an inode's linked_records <-> ino.num_udf += 1; removal <-> -= 1"""
    obs = []
    n = 0
    for fi in ctx.m.pkg_functions():
        ws = effects.direct_writes(ctx, fi)
        incs = [w for w in ws if w.attr == 'num_udf' and w.kind == 'aug' and isinstance(w.stmt.op, ast.Add)]
        decs = [w for w in ws if w.attr == 'num_udf' and w.kind == 'aug' and isinstance(w.stmt.op, ast.Sub)]
        for w in ws:
            if w.attr != 'linked_records' or INO not in w.classes:
                continue
            if w.kind == 'mutate' and w.method == 'append':
                r, x = _tuple_first(w.node)
                if x is None:
                    continue
                xt = type_classes(ctx.t.expr_type(x, fi))
                if UFE not in xt:
                    continue
                n += 1
                from .. import expand as _ex
                same = [i for i in incs if norm(i.recv) == norm(r)]
                params = set(p.lstrip('*') for p in fi.params)

                def facts(st):
                    out = set()
                    for test, pol, at in _ex.conditions(ctx, fi, st, True):
                        for t, p in _ex.conjuncts(test, pol):
                            out.add((norm(t), p, id(t)))
                    return out

                def harmless(t):
                    # None tests / isinstance / tests over parameters only: namespace dispatch, not a per-link filter
                    if isinstance(t, ast.Compare) and len(t.ops) == 1 and isinstance(t.ops[0], (ast.Is, ast.IsNot)):
                        return True
                    if isinstance(t, ast.Call) and norm(t.func) == 'isinstance':
                        return True
                    return all(not isinstance(x, ast.Name) or x.id in params or x.id == 'self' for x in ast.walk(t))
                ok = False
                extra_txt = ''
                fa = set((a, b) for a, b, c in facts(w.stmt))
                for i in same:
                    extra = []
                    for test, pol, at in _ex.conditions(ctx, fi, i.stmt, True):
                        for t, p in _ex.conjuncts(test, pol):
                            if (norm(t), p) not in fa and not harmless(t):
                                extra.append(('' if p else 'not ') + norm(t))
                    if not extra:
                        ok = True
                    else:
                        extra_txt = ' and '.join(extra)
                why = ''
                if not ok:
                    why = ('%s links a UDF file entry to inode %s without counting it in num_udf' % (fi.qual, norm(r))) if not same else \
                        ('%s counts the link in num_udf only when `%s`, a condition the link itself does not depend on: one count per name is what '
                         '_rm_udf_link takes back' % (fi.qual, extra_txt))
                    why += ': the add/remove deltas for the file-entry sector are then off (after reopen a sector still in use is given back, or one is leaked)'
                obs.append(Ob('SA-PAIR.udf_link_count', '%s|%s' % (fi.qual, norm(w.stmt)[:70]), ok, ctx.loc(fi, w.node), why))
            elif _is_del_write(w):
                # removal in a function whose record type is a UDF file entry
                rt = type_classes(ctx.t.expr_type(w.recv.value if isinstance(w.recv, ast.Attribute) else w.recv, fi))
                if UFE in rt and DR not in rt:
                    n += 1
                    ok = bool(decs)
                    obs.append(Ob('SA-PAIR.udf_link_count', '%s|%s' % (fi.qual, norm(w.stmt)[:70]), ok, ctx.loc(fi, w.node),
                                  '' if ok else 'UDF link removed without num_udf -= 1'))
    if n < 3:
        raise AnalysisError('anchor-vanished: UDF link sites (%d)' % n)
    return obs


# ---------------------------------------------------------------------------
# Rock Ridge placement / accounting
# ---------------------------------------------------------------------------
def _blocks(fnode):
    """id(stmt) -> list of sibling statements (its block)"""
    out = {}

    def walk(body):
        for st in body:
            out[id(st)] = body
            for fld in ('body', 'orelse', 'finalbody'):
                sub = getattr(st, fld, None)
                if sub and not isinstance(st, (ast.FunctionDef, ast.ClassDef)):
                    walk(sub)
            if isinstance(st, ast.Try):
                for h in st.handlers:
                    walk(h.body)
    walk(fnode.body)
    return out


def _entries_target(t):
    """self.dr_entries.X / self.ce_entries.X -> ('dr'|'ce', X)"""
    if isinstance(t, ast.Attribute) and isinstance(t.value, ast.Attribute) and t.value.attr in ('dr_entries', 'ce_entries') \
            and isinstance(t.value.value, ast.Name) and t.value.value.id == 'self':
        return t.value.attr[:2], t.attr
    return None, None


def _ctor_class(ctx, fi, g, rd, node, name):
    """class names constructed by the definitions of `name` reaching node"""
    out = set()
    IN = rd[node.id]
    if IN is None:
        return out
    for nm, d in IN:
        if nm != name:
            continue
        st = g.nodes[d].ast
        if isinstance(st, ast.Assign) and isinstance(st.value, ast.Call):
            out.add(norm(st.value.func).split('.')[-1])
        else:
            out.add('?')
    return out


def _length_class(ctx, fi, g, rd, node, e):
    """class name C such that e is C.length(...) (directly or through the reaching defs of a name)"""
    if isinstance(e, ast.Call) and isinstance(e.func, ast.Attribute) and e.func.attr in ('length', 'header_length'):
        return {norm(e.func.value).split('.')[-1]}
    if isinstance(e, ast.Name):
        out = set()
        IN = rd[node.id]
        for nm, d in (IN or ()):
            if nm != e.id:
                continue
            st = g.nodes[d].ast
            if isinstance(st, ast.Assign):
                out |= _length_class(ctx, fi, g, rd, g.nodes[d], st.value)
            else:
                out.add('?')
        return out or {'?'}
    return {'?'}


@rule('SA-PAIR.rr_placement')
@props('C08')
def rr_placement(ctx):
    """store into dr_entries.<slot> <-> curr_dr_len += L ; into ce_entries.<slot> <-> ce_record.add_record(L);
    L is the length() of the class of the stored record."""
    obs = []
    ci = ctx.cls('rockridge.RockRidge')
    nsites = 0
    for name in ('_assign_entries', '_add_name', '_new_symlink', '_new_attributes'):
        fi = ci.methods.get(name)
        if fi is None:
            raise AnalysisError('anchor-vanished rockridge.RockRidge.%s' % name)
        g = ctx.cfg(fi)
        rd = cfgmod.reaching_defs(g, [p.lstrip('*') for p in fi.params])
        blocks = _blocks(fi.node)
        for st in ctx.own_nodes(fi):
            where = slot = val = None
            if isinstance(st, ast.Assign) and len(st.targets) == 1:
                where, slot = _entries_target(st.targets[0])
                val = st.value
            elif isinstance(st, ast.Expr) and isinstance(st.value, ast.Call) and isinstance(st.value.func, ast.Attribute) \
                    and st.value.func.attr == 'append' and st.value.args:
                where, slot = _entries_target(st.value.func.value)
                val = st.value.args[0]
            if where is None:
                continue
            if isinstance(val, ast.Constant) and val.value is None:
                continue
            nsites += 1
            sib = blocks.get(id(st), [])
            node = g.node_of(st)
            key = '%s|%s_entries.%s' % (fi.qual, where, slot)
            acct = None
            sib2 = list(sib)
            for s2 in sib:
                # the accounting may sit under a sibling `if self.dr_entries.ce_record is not None:`
                if isinstance(s2, ast.If) and 'ce_record is not None' in norm(s2.test) and not s2.orelse:
                    sib2.extend(s2.body)
            for s2 in sib2:
                if where == 'dr' and isinstance(s2, ast.AugAssign) and isinstance(s2.op, ast.Add) and \
                        isinstance(s2.target, ast.Name) and s2.target.id == 'curr_dr_len':
                    acct = (s2, s2.value)
                if where == 'ce' and isinstance(s2, ast.Expr) and isinstance(s2.value, ast.Call) and \
                        isinstance(s2.value.func, ast.Attribute) and s2.value.func.attr == 'add_record' and s2.value.args:
                    acct = (s2, s2.value.args[0])
            if acct is None:
                obs.append(Ob('SA-PAIR.rr_placement', key, False, ctx.loc(fi, st),
                              'record placed in the %s without %s in the same block: the %s no longer equals the bytes emitted'
                              % ('directory record' if where == 'dr' else 'continuation area',
                                 'curr_dr_len += <its length>' if where == 'dr' else 'ce_record.add_record(<its length>)',
                                 'record length' if where == 'dr' else 'continuation length')))
                continue
            # class agreement
            vcls = _ctor_class(ctx, fi, g, rd, node, val.id) if isinstance(val, ast.Name) else {'?'}
            lcls = _length_class(ctx, fi, g, rd, g.node_of(acct[0]), acct[1])
            ok = len(vcls) == 1 and vcls == lcls and '?' not in vcls
            obs.append(Ob('SA-PAIR.rr_placement', key, ok, ctx.loc(fi, st),
                          '' if ok else 'stored record is a %s but the length accounted is that of %s' % (sorted(vcls), sorted(lcls))))
    if nsites < 20:
        raise AnalysisError('anchor-vanished: only %d Rock Ridge placement sites' % nsites)
    return obs
