#!/usr/bin/env python
"""
Witness for observation B (reading through pycdlib): the udf_path of a file
larger than 4 GiB does not give the whole file.

A UDF File Entry is linked to ONE inode, but the data of a very large file is
held by several inodes (one for each ISO9660 directory record).  On the
unchanged tree the File Entry was linked to the inode of the last part, so
get_file_from_iso_fp(udf_path=...) and open_file_from_iso(udf_path=...) gave
the last 1073743872 bytes of a 5 GiB file; with the entry linked to the first
part (see W2_udf_big_file_extents.py) they give the first 4294965248 bytes.
Both are wrong; this witness stays red until a UDF File Entry can refer to all
the parts of its file (NOT repaired, see REPORT.md).

Usage: W2b_udf_big_file_read.py <path-to-checkout>
"""
import sys

sys.path.insert(0, sys.argv[1])

import pycdlib  # noqa: E402

GIB = 1 << 30
PART = 0xfffff800  # the most that pycdlib stores in one directory record
LENGTH = 5 * GIB
BLOCKSIZE = 1 << 24
MARKERS = {
    0: b'HEAD-OF-FILE',
    PART - 8: b'end-of-1start-of-2',
    LENGTH - 12: b'TAIL-OF-FILE',
}

_ZEROS = {}


def zeros(n):
    """A shared bytes object of n zero bytes (comparing it to itself is free)."""
    if n not in _ZEROS:
        if len(_ZEROS) > 8:
            _ZEROS.clear()
        _ZEROS[n] = bytes(n)
    return _ZEROS[n]


class Synth(object):
    """A read-only seekable file of zeros with a few marker strings in it."""
    mode = 'rb'

    def __init__(self, length, markers):
        self.length = length
        self.markers = markers
        self.pos = 0

    def seek(self, off, whence=0):
        if whence == 0:
            self.pos = off
        elif whence == 1:
            self.pos += off
        else:
            self.pos = self.length + off
        return self.pos

    def tell(self):
        return self.pos

    def read(self, n=-1):
        if n is None or n < 0:
            n = self.length - self.pos
        n = max(0, min(n, self.length - self.pos))
        start = self.pos
        self.pos += n
        hits = [(off, m) for off, m in self.markers.items()
                if off < start + n and off + len(m) > start]
        if not hits:
            return zeros(n)
        buf = bytearray(n)
        for off, m in hits:
            lo = max(off, start)
            hi = min(off + len(m), start + n)
            buf[lo - start:hi - start] = m[lo - off:hi - off]
        return bytes(buf)


class Sparse(object):
    """A read/write seekable file that stores only blocks that are not zero."""
    mode = 'r+b'
    BS = 2048

    def __init__(self):
        self.blocks = {}
        self.size = 0
        self.pos = 0

    def seek(self, off, whence=0):
        if whence == 0:
            self.pos = off
        elif whence == 1:
            self.pos += off
        else:
            self.pos = self.size + off
        return self.pos

    def tell(self):
        return self.pos

    def _put(self, b, off, piece):
        blk = bytearray(self.blocks.get(b, bytes(self.BS)))
        blk[off - b * self.BS:off - b * self.BS + len(piece)] = piece
        if any(blk):
            self.blocks[b] = bytes(blk)
        else:
            self.blocks.pop(b, None)

    def write(self, data):
        n = len(data)
        start = self.pos
        self.pos += n
        self.size = max(self.size, self.pos)
        if data == zeros(n):
            for b in [b for b in self.blocks
                      if start // self.BS <= b <= (start + n) // self.BS]:
                lo = max(start, b * self.BS)
                hi = min(start + n, (b + 1) * self.BS)
                if lo < hi:
                    self._put(b, lo, bytes(hi - lo))
            return n
        off = start
        while off < start + n:
            b = off // self.BS
            end = min(start + n, (b + 1) * self.BS)
            self._put(b, off, data[off - start:end - start])
            off = end
        return n

    def read(self, n=-1):
        if n is None or n < 0:
            n = self.size - self.pos
        n = max(0, min(n, self.size - self.pos))
        start = self.pos
        self.pos += n
        first = start // self.BS
        last = (start + n + self.BS - 1) // self.BS
        if last - first > len(self.blocks):
            hit = [b for b in self.blocks if first <= b < last]
        else:
            hit = [b for b in range(first, last) if b in self.blocks]
        if not hit:
            return zeros(n)
        buf = bytearray(n)
        for b in hit:
            lo = max(start, b * self.BS)
            hi = min(start + n, (b + 1) * self.BS)
            buf[lo - start:hi - start] = self.blocks[b][lo - b * self.BS:hi - b * self.BS]
        return bytes(buf)


def check(what, iso, problems):
    got = Sparse()
    iso.get_file_from_iso_fp(got, udf_path='/big', blocksize=BLOCKSIZE)
    if got.size != LENGTH:
        problems.append('%s: get_file_from_iso_fp(udf_path) gives %d bytes, expected %d' % (what, got.size, LENGTH))
    for off, m in sorted(MARKERS.items()):
        got.seek(off)
        data = got.read(len(m))
        if data != m:
            problems.append('%s: get_file_from_iso_fp(udf_path): offset %d holds %r, expected %r' % (what, off, data, m))
    with iso.open_file_from_iso(udf_path='/big') as fp:
        if fp.length() != LENGTH:
            problems.append('%s: open_file_from_iso(udf_path).length() is %d, expected %d' % (what, fp.length(), LENGTH))
        for off, m in sorted(MARKERS.items()):
            fp.seek(off)
            data = fp.read(len(m))
            if data != m:
                problems.append('%s: open_file_from_iso(udf_path): offset %d holds %r, expected %r' % (what, off, data, m))


def main():
    problems = []

    iso = pycdlib.PyCdlib()
    iso.new(interchange_level=3, udf='2.60')
    iso.add_fp(Synth(LENGTH, MARKERS), LENGTH, '/BIG.;1', udf_path='/big')
    check('new image', iso, problems)
    img = Sparse()
    iso.write_fp(img, blocksize=BLOCKSIZE)
    iso.close()

    iso2 = pycdlib.PyCdlib()
    iso2.open_fp(img)
    check('reopened image', iso2, problems)
    iso2.close()

    if problems:
        print('DEFECT: reading a 5 GiB file through its udf_path does not give the file')
        for p in problems:
            print('  ' + p)
        return 1
    print('OK')
    return 0


if __name__ == '__main__':
    sys.exit(main())
