"""F-16.1 readinto does not advance the logical offset; F-16.2 reads do not re-establish the
position on the shared image handle (a second reader moves it)."""
import io, sys
sys.path.insert(0, '/repo')
import pycdlib

iso = pycdlib.PyCdlib()
iso.new()
a = bytes(range(256)) * 16
b = b'B' * 4096
iso.add_fp(io.BytesIO(a), len(a), '/A.;1')
iso.add_fp(io.BytesIO(b), len(b), '/B.;1')
out = io.BytesIO()
iso.write_fp(out)
iso.close()
out.seek(0)
iso = pycdlib.PyCdlib()
iso.open_fp(out)
bad = []
# F-16.1
with iso.open_file_from_iso(iso_path='/A.;1') as f:
    buf = bytearray(100)
    n = f.readinto(buf)
    if f.tell() != n:
        bad.append('readinto: tell()=%d after reading %d bytes' % (f.tell(), n))
    rest = f.read()
    if bytes(buf[:n]) + rest != a:
        bad.append('readinto+read returned %d bytes, file has %d' % (n + len(rest), len(a)))
# F-16.2
with iso.open_file_from_iso(iso_path='/A.;1') as f:
    first = f.read(10)
    other = io.BytesIO()
    iso.get_file_from_iso_fp(other, iso_path='/B.;1')     # another reader on the same image
    second = f.read(10)
    if first + second != a[:20]:
        bad.append('interleaved extraction: got %r expected %r' % (second, a[10:20]))
iso.close()
for x in bad:
    print(x)
print('DEFECT' if bad else 'OK')
sys.exit(1 if bad else 0)
