"""
A hidden El Torito boot file (rm_hard_link) with a boot info table and a
boot_load_size smaller than the file is cut down on re-master: on open the
inode of the hidden file gets sector_count * 512 bytes instead of the length
recorded in the boot info table, the table is then not recognised (checksum
mismatch, so it goes stale after an edit) and the tail of the file is dropped.
"""
import io
import struct
import sys

sys.path.insert(0, sys.argv[1])
import pycdlib  # noqa: E402


def locate_boot_file(img):
    cat_extent, = struct.unpack_from('<L', img, 17 * 2048 + 71)
    rba, = struct.unpack_from('<L', img, cat_extent * 2048 + 32 + 8)
    return rba


def main():
    boot = bytes((i * 7 + i // 256) & 0xff for i in range(5120))

    iso = pycdlib.PyCdlib()
    iso.new()
    iso.add_fp(io.BytesIO(boot), len(boot), '/BOOT.;1')
    iso.add_eltorito('/BOOT.;1', '/BOOT.CAT;1', boot_load_size=4, boot_info_table=True)
    iso.rm_hard_link(iso_path='/BOOT.;1')
    out = io.BytesIO()
    iso.write_fp(out)
    iso.close()
    img1 = out.getvalue()

    problems = []
    rba1 = locate_boot_file(img1)
    stored1 = img1[rba1 * 2048:rba1 * 2048 + len(boot)]
    if stored1[:8] != boot[:8] or stored1[64:] != boot[64:]:
        problems.append('first write: boot file not stored completely')
    if struct.unpack_from('<LLL', stored1, 8) != (16, rba1, len(boot)):
        problems.append('first write: unexpected boot info table')

    iso2 = pycdlib.PyCdlib()
    iso2.open_fp(io.BytesIO(img1))
    iso2.add_directory('/DIR1')     # an edit that moves the boot file
    out2 = io.BytesIO()
    iso2.write_fp(out2)
    iso2.close()
    img2 = out2.getvalue()

    rba2 = locate_boot_file(img2)
    stored2 = img2[rba2 * 2048:rba2 * 2048 + len(boot)]
    if rba2 == rba1:
        problems.append('the edit did not move the boot file; witness needs adjusting')
    if stored2[64:] != boot[64:]:
        same = 64
        while same < len(stored2) and stored2[same] == boot[same]:
            same += 1
        problems.append('after open/edit/write only the first %d of %d bytes of the hidden boot file survive'
                        % (same, len(boot)))
    table = struct.unpack_from('<LLL', stored2, 8)
    if table != (16, rba2, len(boot)):
        problems.append('after open/edit/write the boot info table says (pvd, file, length) = %r, expected %r'
                        % (table, (16, rba2, len(boot))))

    if problems:
        for p in problems:
            print(p)
        return 1
    print('OK')
    return 0


if __name__ == '__main__':
    sys.exit(main())
