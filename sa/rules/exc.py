"""SA-EXC: exception discipline of open() (C15).

SA-EXC.explicit   every explicit `raise` in a function reachable from PyCdlib._open_fp constructs one
                  of the documented classes (PyCdlibInvalidISO, PyCdlibInvalidInput,
                  PyCdlibInternalError); no `assert`; bare re-raise only inside a handler.
SA-EXC.implicit   inventory of implicit exception sources reachable from _open_fp, by kind:
                    struct.error        struct.unpack / unpack_from on image data
                    IndexError          subscript with a non-constant (or constant but unguarded) index on bytes/list
                    KeyError            dict[...] keyed by a parsed value
                    ValueError          .decode(), int(<bytes/str>), uuid.UUID(bytes=...)
                    ZeroDivisionError   // or % by a non-constant value
                  Obligation: every public entry point that calls _open_fp does so inside a `try` whose
                  handler lists every kind present in the inventory and raises a documented class.
                  One obligation per (kind, function) plus one per entry point and kind.
"""
import ast

from ..registry import rule, props
from ..report import Ob
from ..model import norm, AnalysisError, type_classes, strip_opt
from ..engine import raises_class

ROOT = 'pycdlib.PyCdlib._open_fp'
DOCUMENTED = ('PyCdlibInvalidISO', 'PyCdlibInvalidInput', 'PyCdlibInternalError')
PLATFORM_SHIM = 'utils.Win32RawDevice'
# ValueError covers UnicodeDecodeError
KIND_CLASS = {'struct.error': ('struct.error', 'error'), 'IndexError': ('IndexError', 'LookupError'), 'KeyError': ('KeyError', 'LookupError'),
              'ValueError': ('ValueError',), 'ZeroDivisionError': ('ZeroDivisionError', 'ArithmeticError')}


def _reach(ctx):
    root = ctx.func(ROOT)
    return ctx.reachable_from([root])


@rule('SA-EXC.explicit')
@props('C15')
def explicit(ctx):
    R = _reach(ctx)
    obs = []
    n = 0
    for q in sorted(R):
        fi = ctx.m.functions[q]
        if fi.module == 'pycdlibexception':
            continue
        par = ctx.parents(fi)
        bad = []
        cnt = 0
        for node in ctx.own_nodes(fi):
            if isinstance(node, ast.Raise):
                cnt += 1
                if node.exc is None:
                    cur = node
                    inh = False
                    while cur is not None:
                        cur = par.get(id(cur))
                        if isinstance(cur, ast.ExceptHandler):
                            inh = True
                            break
                    if not inh:
                        bad.append((node, 'bare raise outside a handler'))
                    continue
                cls = raises_class(node)
                if cls not in DOCUMENTED:
                    # re-raise of a caught object: `raise e`
                    if isinstance(node.exc, ast.Name):
                        cur = node
                        ok = False
                        while cur is not None:
                            cur = par.get(id(cur))
                            if isinstance(cur, ast.ExceptHandler) and cur.name == node.exc.id:
                                ok = True
                                break
                        if ok:
                            continue
                    bad.append((node, 'raises %s, which is not one of the documented exception classes' % cls))
            elif isinstance(node, ast.Assert):
                bad.append((node, 'assert on the open() path: AssertionError is not a documented exception'))
        n += cnt
        if q.startswith(PLATFORM_SHIM):
            key = '%s|platform shim' % q
            obs.append(Ob('SA-EXC.explicit', key, not bad, ctx.loc(fi, fi.node),
                          '; '.join('%s (line %d)' % (w, nd.lineno) for nd, w in bad)))
            continue
        if cnt or bad:
            obs.append(Ob('SA-EXC.explicit', q, not bad, ctx.loc(fi, bad[0][0] if bad else fi.node),
                          '; '.join('%s (line %d)' % (w, nd.lineno) for nd, w in bad) if bad else '%d raises, all documented' % cnt))
    if n < 200:
        raise AnalysisError('anchor-vanished: only %d raise statements reachable from open' % n)
    return obs


def implicit_sources(ctx, fi):
    """[(kind, node, text)] of implicit exception sources in fi that are not inside a try converting them"""
    out = []
    par = ctx.parents(fi)

    def covered(node, kind):
        cur = node
        while cur is not None:
            p = par.get(id(cur))
            if isinstance(p, ast.Try) and any(cur is s for s in p.body):
                for h in p.handlers:
                    names = set()
                    if h.type is None:
                        names = {'*'}
                    else:
                        ts = h.type.elts if isinstance(h.type, ast.Tuple) else [h.type]
                        for t in ts:
                            names.add(norm(t))
                            names.add(norm(t).split('.')[-1])
                    if '*' in names or 'Exception' in names or set(KIND_CLASS[kind]) & names or \
                            (kind == 'ValueError' and 'UnicodeDecodeError' in names):
                        return True
            cur = p
        return False

    for node in ctx.own_nodes(fi):
        kind = None
        if isinstance(node, ast.Call):
            fn = norm(node.func)
            if fn in ('struct.unpack', 'struct.unpack_from'):
                kind = 'struct.error'
            elif isinstance(node.func, ast.Attribute) and node.func.attr == 'decode':
                kind = 'ValueError'
            elif fn == 'int' and node.args and not isinstance(node.args[0], ast.Constant):
                t = ctx.t.expr_type(node.args[0], fi)
                if t in (('prim', 'bytes'), ('prim', 'str'), ('any',)):
                    kind = 'ValueError'
            elif fn == 'uuid.UUID':
                kind = 'ValueError'
        elif isinstance(node, ast.Subscript) and isinstance(node.ctx, ast.Load) and not isinstance(node.slice, ast.Slice):
            bt = strip_opt(ctx.t.expr_type(node.value, fi))
            if bt and bt[0] == 'dict':
                kind = 'KeyError'
            elif bt and (bt[0] in ('list', 'deque') or bt == ('prim', 'bytes')):
                kind = 'IndexError'
            elif bt and bt[0] == 'tuple':
                kind = None
        elif isinstance(node, ast.BinOp) and isinstance(node.op, (ast.FloorDiv, ast.Mod, ast.Div)):
            lt = ctx.t.expr_type(node.left, fi)
            if lt in (('prim', 'str'), ('prim', 'bytes')):
                kind = None
            elif not isinstance(node.right, ast.Constant):
                try:
                    from .. import lenalg
                    v = lenalg.folder(ctx, fi)(node.right)
                    kind = None if (isinstance(v, int) and v != 0) else 'ZeroDivisionError'
                except Exception:
                    kind = 'ZeroDivisionError'
        if kind and not covered(node, kind):
            out.append((kind, node, norm(node)[:60]))
    return out


@rule('SA-EXC.implicit')
@props('C15')
def implicit(ctx):
    R = _reach(ctx)
    obs = []
    inv = {}
    for q in sorted(R):
        fi = ctx.m.functions[q]
        if q.startswith(PLATFORM_SHIM):
            continue
        for kind, node, txt in implicit_sources(ctx, fi):
            inv.setdefault(kind, {}).setdefault(q, []).append((node, txt))
    kinds = sorted(inv)
    if sum(len(v) for v in inv.values()) < 30:
        raise AnalysisError('anchor-vanished: implicit exception inventory too small')
    # entry points: public methods of PyCdlib that call _open_fp
    entries = []
    for caller, c in ctx.callers().get(ROOT, []):
        entries.append((caller, c))
    if not entries:
        raise AnalysisError('anchor-vanished: no caller of _open_fp')
    handled_by_all = None
    for caller, c in entries:
        par = ctx.parents(caller)
        cur = c.node
        hk = set()
        while cur is not None:
            p = par.get(id(cur))
            if isinstance(p, ast.Try) and any(cur is s for s in p.body):
                for h in p.handlers:
                    if h.type is None:
                        continue
                    ts = h.type.elts if isinstance(h.type, ast.Tuple) else [h.type]
                    names = set()
                    for t in ts:
                        names.add(norm(t))
                    # the handler must raise a documented class
                    conv = any(isinstance(s, ast.Raise) and raises_class(s) in DOCUMENTED for s in ast.walk(h))
                    if not conv:
                        continue
                    for kind, cls in KIND_CLASS.items():
                        if set(cls) & set(n.split('.')[-1] if n != 'struct.error' else n for n in names) or \
                                (kind == 'struct.error' and 'struct.error' in names):
                            hk.add(kind)
            cur = p
        for kind in kinds:
            ok = kind in hk
            obs.append(Ob('SA-EXC.implicit', '%s|converts %s' % (caller.qual, kind), ok, ctx.loc(caller, c.node),
                          '' if ok else '%s calls _open_fp without converting %s into a documented exception; %d sources of it are reachable '
                          '(e.g. %s)' % (caller.qual, kind, sum(len(v) for v in inv[kind].values()),
                                         '; '.join('%s: %s' % (q.split('.')[-1], inv[kind][q][0][1]) for q in list(inv[kind])[:3]))))
        handled_by_all = hk if handled_by_all is None else (handled_by_all & hk)
    # inventory obligations: each (kind, function) is discharged by the boundary handlers
    for kind in kinds:
        for q, sites in sorted(inv[kind].items()):
            ok = kind in (handled_by_all or set())
            fi = ctx.m.functions[q]
            obs.append(Ob('SA-EXC.implicit', '%s|%s' % (q, kind), ok, ctx.loc(fi, sites[0][0]),
                          ('%d sites, converted at the API boundary' % len(sites)) if ok else
                          '%d sites of %s (e.g. %s) with no converting handler between them and the caller of open()' % (len(sites), kind, sites[0][1])))
    return obs
