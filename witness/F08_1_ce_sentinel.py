"""F-08.1: the continuation-block allocator signals "no room" with -1, its caller tests `is not None`:
with more than one sector of continuation data a second block is never created."""
import io, sys
sys.path.insert(0, '/repo')
import pycdlib

iso = pycdlib.PyCdlib()
iso.new(rock_ridge='1.09')
for i in range(20):
    name = ('n%02d' % i) + 'x' * 240
    iso.add_fp(io.BytesIO(b'a'), 1, '/F%02d.;1' % i, rr_name=name)
out = io.BytesIO()
try:
    iso.write_fp(out)
except Exception as e:
    print('write failed:', type(e).__name__, e)
    print('DEFECT')
    sys.exit(1)
iso.close()
iso2 = pycdlib.PyCdlib()
out.seek(0)
iso2.open_fp(out)
names = sorted(c.rock_ridge.name().decode() for c in iso2.list_children(iso_path='/') if not c.is_dot() and not c.is_dotdot())
ok = len(names) == 20 and all(len(n) == 243 for n in names)
print('reopened, %d names, lengths ok=%s' % (len(names), ok))
print('OK' if ok else 'DEFECT')
sys.exit(0 if ok else 1)
