#!/usr/bin/env python
"""
Observation A: joliet_path='/' and udf_path='/' name no entry (the last
component is empty), yet add_fp()/add_directory()/add_symlink()/add_hard_link()
accept them and record an empty Joliet identifier / an empty UDF File
Identifier.  The ISO9660 side refuses '/'; Joliet and UDF must do the same with
PyCdlibInvalidInput at the time of the edit.

usage: W1_empty_joliet_udf_name.py <path-to-checkout>
"""
import io
import sys

sys.path.insert(0, sys.argv[1])

import pycdlib
from pycdlib import pycdlibexception

problems = []


def fresh():
    iso = pycdlib.PyCdlib()
    iso.new(joliet=3, udf='2.60', rock_ridge='1.09')
    iso.add_fp(io.BytesIO(b'x'), 1, '/B.;1', rr_name='b', joliet_path='/b', udf_path='/b')
    return iso


def joliet_names(iso):
    return [c.file_identifier() for c in iso.list_children(joliet_path='/')]


def udf_names(iso):
    return [c.file_identifier() for c in iso.list_children(udf_path='/') if c is not None]


def expect_refused(what, fn):
    iso = fresh()
    jbefore = joliet_names(iso)
    ubefore = udf_names(iso)
    ibefore = [c.file_identifier() for c in iso.list_children(iso_path='/')]
    try:
        fn(iso)
    except pycdlibexception.PyCdlibInvalidInput:
        pass
    except Exception as e:  # pylint: disable=broad-except
        problems.append('%s: raised %s(%s) instead of PyCdlibInvalidInput' % (what, type(e).__name__, e))
    else:
        problems.append('%s: accepted; Joliet root now %r, UDF root now %r' % (what, joliet_names(iso), udf_names(iso)))
        iso.close()
        return
    # A refused edit must not have changed anything.
    if joliet_names(iso) != jbefore or udf_names(iso) != ubefore or [c.file_identifier() for c in iso.list_children(iso_path='/')] != ibefore:
        problems.append('%s: refused, but the image was changed' % (what))
    iso.close()


for path in ('/', '//', '/.', '/b/..'):
    expect_refused('add_fp(joliet_path=%r)' % (path),
                   lambda iso, p=path: iso.add_fp(io.BytesIO(b'x'), 1, '/A.;1', rr_name='a', joliet_path=p, udf_path='/a'))
    expect_refused('add_fp(udf_path=%r)' % (path),
                   lambda iso, p=path: iso.add_fp(io.BytesIO(b'x'), 1, '/A.;1', rr_name='a', joliet_path='/a', udf_path=p))
expect_refused("add_fp(udf_path='/') alone",
               lambda iso: iso.add_fp(io.BytesIO(b'x'), 1, udf_path='/'))
expect_refused("add_symlink(joliet_path='/')",
               lambda iso: iso.add_symlink('/S.;1', rr_symlink_name='s', rr_path='b', joliet_path='/'))
expect_refused("add_symlink(udf_symlink_path='/')",
               lambda iso: iso.add_symlink(udf_symlink_path='/', udf_target='b'))
expect_refused("add_hard_link(joliet_new_path='/')",
               lambda iso: iso.add_hard_link(iso_old_path='/B.;1', joliet_new_path='/'))
expect_refused("add_hard_link(udf_new_path='/')",
               lambda iso: iso.add_hard_link(iso_old_path='/B.;1', udf_new_path='/'))
# A directory named '' must be refused because the name is empty.
expect_refused("add_directory(joliet_path='/')",
               lambda iso: iso.add_directory('/D', rr_name='d', joliet_path='/', udf_path='/d'))
expect_refused("add_directory(udf_path='/')",
               lambda iso: iso.add_directory('/D', rr_name='d', joliet_path='/d', udf_path='/'))

# Sanity: ordinary names still work and are written.
iso = fresh()
iso.add_fp(io.BytesIO(b'y'), 1, '/A.;1', rr_name='a', joliet_path='/a', udf_path='/a')
iso.add_directory('/D', rr_name='d', joliet_path='/d', udf_path='/d')
out = io.BytesIO()
iso.write_fp(out)
iso.close()
iso = pycdlib.PyCdlib()
iso.open_fp(out)
if b'' in joliet_names(iso) or b'' in udf_names(iso):
    problems.append('written image holds an empty name')
if 'a'.encode('utf-16_be') not in joliet_names(iso) or b'a' not in udf_names(iso):
    problems.append('ordinary names were lost: %r %r' % (joliet_names(iso), udf_names(iso)))
iso.close()

if problems:
    print('\n'.join(problems))
    sys.exit(1)
print('OK')
