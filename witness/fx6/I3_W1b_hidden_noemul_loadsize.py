"""
Witness A, second half: a hidden (unlinked) no-emulation boot file without a
boot info table whose load size is smaller than the file, after open() +
write().  (Not repaired: nothing on such an image records the length of the
file; see REPORT.txt.)

Usage: python W1b_hidden_noemul_loadsize.py <path-to-checkout>
"""
import io
import struct
import sys

sys.path.insert(0, sys.argv[1])

import pycdlib


def main():
    data = bytes((i * 7 + 3) % 251 for i in range(10000))
    iso = pycdlib.PyCdlib()
    iso.new()
    iso.add_fp(io.BytesIO(data), len(data), '/BOOT.IMG;1')
    iso.add_eltorito('/BOOT.IMG;1', boot_load_size=4)
    iso.rm_hard_link(iso_path='/BOOT.IMG;1')
    first = io.BytesIO()
    iso.write_fp(first)
    iso.close()

    iso = pycdlib.PyCdlib()
    iso.open_fp(io.BytesIO(first.getvalue()))
    iso.add_directory('/DIR1')
    out = io.BytesIO()
    iso.write_fp(out)
    iso.close()
    img = out.getvalue()

    cat = struct.unpack_from('<L', img, 17 * 2048 + 0x47)[0]
    rba = struct.unpack_from('<L', img, cat * 2048 + 32 + 8)[0]
    got = img[rba * 2048:rba * 2048 + len(data)]
    if got != data:
        same = 0
        while same < len(got) and got[same] == data[same]:
            same += 1
        print('hidden noemul boot file with load size 4: only the first %d of %d bytes are at the load address after open+write' % (same, len(data)))
        return 1
    print('OK')
    return 0


if __name__ == '__main__':
    sys.exit(main())
