"""C16: stream discipline of PyCdlibIO and of the whole-file copy helpers.

SA-SEEK.position   every read on the (shared, borrowed) file handle is preceded on every
                   path, inside its own method, by a seek to `_startpos + _offset`, with no
                   intervening change of `_offset` or other use of the handle.
SA-SEEK.bound      the size passed to every such read is `_length - _offset` or a `min` with it.
SA-PAIR.stream     after every read, every path to the normal exit adds the amount consumed
                   (the size asked for, or the length of what was returned) to `_offset`.
SA-SEEK.seekmethod in `seek`, every explicit reposition of the handle is to `_startpos + new offset`,
                   the new offset being the value then stored in `_offset`.
SA-SEEK.opendata   InodeOpenData.__enter__ positions the handle on every path before returning it,
                   at `orig_extent_loc * logical_block_size` or `fp_offset`, and returns the inode's length.
SA-SEEK.copy       the copy helpers never ask for more than what is left, and what is left
                   decreases by what was consumed.
"""
import ast

from ..registry import rule, props
from ..report import Ob
from ..model import norm, AnalysisError
from ..linexpr import lin, Lin
from .. import cfg as cfgmod

IO_CLASS = 'pycdlibio.PyCdlibIO'
FP, OFF, LEN, START = '_fp', '_offset', '_length', '_startpos'


def _is_self_call(call, attr, meth):
    f = call.func
    return isinstance(f, ast.Attribute) and f.attr == meth and isinstance(f.value, ast.Attribute) \
        and f.value.attr == attr and isinstance(f.value.value, ast.Name) and f.value.value.id == 'self'


def _calls_in(n):
    for e in cfgmod.node_exprs(n):
        for sub in ast.walk(e):
            if isinstance(sub, ast.Call):
                yield sub


def _writes_self_attr(n, attr):
    if n.kind != 'stmt':
        return None
    st = n.ast
    tgts = []
    if isinstance(st, ast.Assign):
        tgts = st.targets
    elif isinstance(st, (ast.AugAssign, ast.AnnAssign)):
        tgts = [st.target]
    for t in tgts:
        for sub in ast.walk(t):
            if isinstance(sub, ast.Attribute) and sub.attr == attr and isinstance(sub.value, ast.Name) and sub.value.id == 'self':
                return st
    return None


def _self(attr):
    return 'self.' + attr


def _io_methods(ctx):
    ci = ctx.cls(IO_CLASS)
    for a in (FP, OFF, LEN, START):
        if ci.slots is None or a not in ci.slots:
            raise AnalysisError('anchor-vanished slot %s.%s' % (IO_CLASS, a))
    return ci, [m for m in ci.methods.values()]


def _remaining():
    return Lin({_self(LEN): 1, _self(OFF): -1})


def _pos():
    return Lin({_self(START): 1, _self(OFF): 1})


@rule('SA-SEEK.position')
@props('C16')
def position(ctx):
    ci, methods = _io_methods(ctx)
    obs = []
    nreads = 0
    for fi in methods:
        g = ctx.cfg(fi)

        def transfer(n, st, lab):
            cur = st
            for c in _calls_in(n):
                if _is_self_call(c, FP, 'seek') and c.args and lin(c.args[0]) == _pos() and \
                        (len(c.args) == 1 or norm(c.args[1]) in ('0', 'os.SEEK_SET', 'io.SEEK_SET')):
                    cur = True
                elif _is_self_call(c, FP, 'seek') or _is_self_call(c, FP, 'read') or _is_self_call(c, FP, 'readinto'):
                    cur = False
                elif any(isinstance(a, ast.Attribute) and a.attr == FP for a in c.args):
                    cur = False
                elif isinstance(c.func, ast.Attribute) and isinstance(c.func.value, ast.Name) and \
                        c.func.value.id == 'self' and c.func.attr in ci.methods:
                    cur = False   # another method of the stream may move the handle
            if _writes_self_attr(n, OFF) is not None or _writes_self_attr(n, START) is not None:
                cur = False
            return cur

        # IN state before executing n; the read itself must see True *before* it runs,
        # so evaluate seek and read in the same node in source order.
        IN = g.forward(False, transfer, lambda a, b: a and b)
        for n in g.nodes:
            for c in _calls_in(n):
                if _is_self_call(c, FP, 'read') or _is_self_call(c, FP, 'readinto'):
                    nreads += 1
                    st = IN[n.id]
                    # a seek earlier in the same statement does not count (never happens in this code)
                    key = '%s|%s' % (fi.qual, norm(c))
                    ok = bool(st)
                    obs.append(Ob('SA-SEEK.position', key, ok, ctx.loc(fi, c),
                                  '' if ok else 'read on the shared handle self.%s is not preceded on every path by self.%s.seek(self.%s + self.%s): '
                                  'another reader of the same image may have moved the position' % (FP, FP, START, OFF)))
    if nreads == 0:
        raise AnalysisError('anchor-vanished: no read on self.%s in %s' % (FP, IO_CLASS))
    return obs


def _bounded(ctx, fi, g, rd, node, expr, depth=0):
    """expr (evaluated at node) is provably <= self._length - self._offset."""
    if depth > 6:
        return False
    if lin(expr) == _remaining():
        return True
    if isinstance(expr, ast.Call) and isinstance(expr.func, ast.Name) and expr.func.id == 'min':
        return any(_bounded(ctx, fi, g, rd, node, a, depth + 1) for a in expr.args)
    if isinstance(expr, ast.Name):
        IN = rd[node.id]
        if IN is None:
            return True
        defs = [g.nodes[d] for (nm, d) in IN if nm == expr.id]
        if not defs:
            return False
        for d in defs:
            if d.kind == 'stmt' and isinstance(d.ast, ast.Assign) and len(d.ast.targets) == 1 \
                    and isinstance(d.ast.targets[0], ast.Name):
                if not _bounded(ctx, fi, g, rd, d, d.ast.value, depth + 1):
                    return False
            else:
                return False
        return True
    return False


@rule('SA-SEEK.bound')
@props('C16')
def bound(ctx):
    ci, methods = _io_methods(ctx)
    obs = []
    for fi in methods:
        g = ctx.cfg(fi)
        rd = cfgmod.reaching_defs(g, [p.lstrip('*') for p in fi.params])
        for n in g.nodes:
            for c in _calls_in(n):
                if _is_self_call(c, FP, 'read'):
                    key = '%s|%s' % (fi.qual, norm(c))
                    if not c.args:
                        obs.append(Ob('SA-SEEK.bound', key, False, ctx.loc(fi, c), 'unbounded read() on the image handle'))
                        continue
                    ok = _bounded(ctx, fi, g, rd, n, c.args[0])
                    obs.append(Ob('SA-SEEK.bound', key, ok, ctx.loc(fi, c),
                                  '' if ok else 'size %s is not provably min(..., self.%s - self.%s): the read may run past the end of the file'
                                  % (norm(c.args[0]), LEN, OFF)))
    return obs


@rule('SA-PAIR.stream')
@props('C16')
def stream_pair(ctx):
    ci, methods = _io_methods(ctx)
    obs = []
    for fi in methods:
        g = ctx.cfg(fi)
        sdefs = ctx.single_defs(fi)
        rd = cfgmod.reaching_defs(g, [p.lstrip('*') for p in fi.params])
        reads = []
        for n in g.nodes:
            for c in _calls_in(n):
                if _is_self_call(c, FP, 'read'):
                    reads.append((n, c))
        for rn, c in reads:
            size = c.args[0] if c.args else None
            resvar = None
            if rn.kind == 'stmt' and isinstance(rn.ast, ast.Assign) and len(rn.ast.targets) == 1 and \
                    isinstance(rn.ast.targets[0], ast.Name) and rn.ast.value is c:
                resvar = rn.ast.targets[0].id

            def is_len_of_result(e):
                return isinstance(e, ast.Call) and isinstance(e.func, ast.Name) and e.func.id == 'len' and \
                    len(e.args) == 1 and isinstance(e.args[0], ast.Name) and e.args[0].id == resvar

            def amount_ok(e, at):
                if size is not None and lin(e) == lin(size):
                    return True
                if resvar is not None:
                    if is_len_of_result(e):
                        return True
                    if isinstance(e, ast.Name):
                        # every definition of the name reaching the update is len(<result>)
                        defs = [g.nodes[d] for (nm, d) in (rd[at.id] or ()) if nm == e.id]
                        if defs and all(d.kind == 'stmt' and isinstance(d.ast, ast.Assign) and is_len_of_result(d.ast.value)
                                        for d in defs):
                            return True
                return False

            def transfer(n, st, lab):
                if n is rn:
                    return True
                w = _writes_self_attr(n, OFF)
                if w is not None and st:
                    if isinstance(w, ast.AugAssign) and isinstance(w.op, ast.Add) and amount_ok(w.value, n):
                        return False
                    if isinstance(w, ast.Assign):
                        # self._offset = self._offset + amount
                        d = lin(w.value) - Lin({_self(OFF): 1})
                        if size is not None and d == lin(size):
                            return False
                return st

            IN = g.forward(False, transfer, lambda a, b: a or b)
            pend = IN[g.exit.id]
            key = '%s|%s' % (fi.qual, norm(c))
            ok = not pend
            obs.append(Ob('SA-PAIR.stream', key, ok, ctx.loc(fi, c),
                          '' if ok else 'a path from this read to the return does not add the bytes consumed to self.%s: '
                          'the logical position lags behind the handle and the next read returns bytes beyond the file' % OFF))
    return obs


@rule('SA-SEEK.seekmethod')
@props('C16')
def seekmethod(ctx):
    ci, methods = _io_methods(ctx)
    fi = ci.methods.get('seek')
    if fi is None:
        raise AnalysisError('anchor-vanished %s.seek' % IO_CLASS)
    obs = []
    g = ctx.cfg(fi)
    # (a) every branch of seek that returns normally assigns _offset
    # (b) each fp.seek(T, 0): the next _offset write W on every path satisfies T == _startpos + new_offset
    writes = [n for n in g.nodes if _writes_self_attr(n, OFF) is not None]
    for n in g.nodes:
        for c in _calls_in(n):
            if not _is_self_call(c, FP, 'seek'):
                continue
            key = '%s|%s' % (fi.qual, norm(c))
            if not c.args:
                obs.append(Ob('SA-SEEK.seekmethod', key, False, ctx.loc(fi, c), 'seek without target'))
                continue
            target = lin(c.args[0]) - Lin({_self(START): 1})
            # first offset writes reachable from n without passing another offset write
            seen = set()
            stack = [n]
            firsts = []
            reaches_exit = False
            while stack:
                x = stack.pop()
                for m, lab in x.succ:
                    if m.id in seen:
                        continue
                    seen.add(m.id)
                    if m is g.exit:
                        reaches_exit = True
                        continue
                    if _writes_self_attr(m, OFF) is not None:
                        firsts.append(m)
                        continue
                    stack.append(m)
            ok = bool(firsts) and not reaches_exit
            why = ''
            if not ok:
                why = 'handle repositioned but self.%s is not updated on every path afterwards' % OFF
            for w in firsts:
                st = _writes_self_attr(w, OFF)
                if isinstance(st, ast.Assign):
                    newoff = lin(st.value)
                elif isinstance(st, ast.AugAssign) and isinstance(st.op, ast.Add):
                    newoff = Lin({_self(OFF): 1}) + lin(st.value)
                elif isinstance(st, ast.AugAssign) and isinstance(st.op, ast.Sub):
                    newoff = Lin({_self(OFF): 1}) - lin(st.value)
                else:
                    newoff = None
                if newoff != target:
                    ok = False
                    why = 'handle moved to self.%s + (%r) but self.%s becomes %r' % (START, target, OFF, newoff)
            obs.append(Ob('SA-SEEK.seekmethod', key, ok, ctx.loc(fi, c), why))
    # every normal return of seek is preceded by an _offset write unless it raised
    def transfer(n, st, lab):
        if _writes_self_attr(n, OFF) is not None:
            return True
        return st
    IN = g.forward(False, transfer, lambda a, b: a and b)
    ok = bool(IN[g.exit.id])
    obs.append(Ob('SA-SEEK.seekmethod', '%s|all-paths-set-offset' % fi.qual, ok, ctx.loc(fi, fi.node),
                  '' if ok else 'a path through seek() returns without storing the new position in self.%s' % OFF))
    # tell() returns _offset
    tell = ci.methods.get('tell')
    if tell is not None:
        rets = [n for n in ctx.own_nodes(tell) if isinstance(n, ast.Return)]
        ok = bool(rets) and all(r.value is not None and norm(r.value) == _self(OFF) for r in rets)
        obs.append(Ob('SA-SEEK.seekmethod', '%s|returns-offset' % tell.qual, ok, ctx.loc(tell, tell.node),
                      '' if ok else 'tell() does not return self.%s' % OFF))
    # __enter__ initialises _offset = 0 and _startpos = _fp.tell()
    ent = ci.methods.get('__enter__')
    if ent is None:
        raise AnalysisError('anchor-vanished %s.__enter__' % IO_CLASS)
    init = {}
    for n in ctx.own_nodes(ent):
        if isinstance(n, ast.Assign):
            for t in n.targets:
                if isinstance(t, ast.Attribute) and isinstance(t.value, ast.Name) and t.value.id == 'self':
                    init[t.attr] = norm(n.value)
    ok = init.get(OFF) == '0' and init.get(START) == 'self.%s.tell()' % FP
    obs.append(Ob('SA-SEEK.seekmethod', '%s|initial-position' % ent.qual, ok, ctx.loc(ent, ent.node),
                  '' if ok else 'on entry self.%s must be 0 and self.%s the position of the handle (got %s)' % (OFF, START, init)))
    return obs


@rule('SA-SEEK.opendata')
@props('C16')
def opendata(ctx):
    ci = ctx.cls('inode.InodeOpenData')
    fi = ci.methods.get('__enter__')
    if fi is None:
        raise AnalysisError('anchor-vanished inode.InodeOpenData.__enter__')
    g = ctx.cfg(fi)
    obs = []
    allowed = {
        repr(lin(ast.parse('self.ino.orig_extent_loc * self.logical_block_size', mode='eval').body)),
        repr(lin(ast.parse('self.ino.fp_offset', mode='eval').body)),
    }

    def is_seek(c):
        f = c.func
        return isinstance(f, ast.Attribute) and f.attr == 'seek' and norm(f.value) == 'self.data_fp'

    def transfer(n, st, lab):
        for c in _calls_in(n):
            if is_seek(c):
                return True
        if _writes_self_attr(n, 'data_fp') is not None:
            return False
        return st
    IN = g.forward(False, transfer, lambda a, b: a and b)
    ok = bool(IN[g.exit.id])
    obs.append(Ob('SA-SEEK.opendata', '%s|seek-before-return' % fi.qual, ok, ctx.loc(fi, fi.node),
                  '' if ok else 'a path returns the data handle without positioning it at the start of the file data'))
    nseek = 0
    for n in g.nodes:
        for c in _calls_in(n):
            if is_seek(c):
                nseek += 1
                tgt = repr(lin(c.args[0])) if c.args else '?'
                ok = tgt in allowed and (len(c.args) == 1 or norm(c.args[1]) in ('0', 'os.SEEK_SET'))
                obs.append(Ob('SA-SEEK.opendata', '%s|%s' % (fi.qual, norm(c)), ok, ctx.loc(fi, c),
                              '' if ok else 'seek target %s is neither orig_extent_loc * logical_block_size nor fp_offset' % tgt))
    # which target under which condition
    for n in g.nodes:
        if n.kind == 'test' and 'original_data_location' in norm(n.ast):
            t = norm(n.ast)
            tb = [m for m, lab in n.succ if lab == 'T']
            fb = [m for m, lab in n.succ if lab == 'F']
            def seek_tgt(ms):
                for m in ms:
                    for c in _calls_in(m):
                        if is_seek(c) and c.args:
                            return repr(lin(c.args[0]))
                return None
            want_iso = repr(lin(ast.parse('self.ino.orig_extent_loc * self.logical_block_size', mode='eval').body))
            want_ext = repr(lin(ast.parse('self.ino.fp_offset', mode='eval').body))
            positive = ('==' in t and 'DATA_ON_ORIGINAL_ISO' in t) or ('!=' in t and 'DATA_IN_EXTERNAL_FP' in t)
            negative = ('!=' in t and 'DATA_ON_ORIGINAL_ISO' in t) or ('==' in t and 'DATA_IN_EXTERNAL_FP' in t)
            if positive or negative:
                a, b = seek_tgt(tb), seek_tgt(fb)
                if negative:
                    a, b = b, a
                ok = a == want_iso and b == want_ext
                obs.append(Ob('SA-SEEK.opendata', '%s|branch-targets' % fi.qual, ok, ctx.loc(fi, n.ast),
                              '' if ok else 'data on the original image must be sought at orig_extent_loc * block size, external data at fp_offset (got %s / %s)' % (a, b)))
    # returns (data_fp, ino.data_length)
    for n in ctx.own_nodes(fi):
        if isinstance(n, ast.Return):
            ok = n.value is not None and norm(n.value).replace('(', '').replace(')', '') == 'self.data_fp, self.ino.data_length'
            obs.append(Ob('SA-SEEK.opendata', '%s|returns' % fi.qual, ok, ctx.loc(fi, n),
                          '' if ok else 'must hand out (handle, length of the inode data), got %s' % (norm(n.value) if n.value else None)))
    if nseek == 0:
        obs.append(Ob('SA-SEEK.opendata', '%s|no-seek' % fi.qual, False, ctx.loc(fi, fi.node), 'no seek at all'))
    return obs


@rule('SA-SEEK.copy')
@props('C16')
def copy_helpers(ctx):
    """utils.copy_data_yield / copy_data: read size = min(blocksize, left); left starts at
    data_length and decreases by what was consumed; loop guarded by left > 0."""
    obs = []
    for q in ('utils.copy_data_yield', 'utils.copy_data'):
        fi = ctx.m.functions.get(q)
        if fi is None:
            raise AnalysisError('anchor-vanished %s' % q)
        reads = []
        for n in ctx.own_nodes(fi):
            if isinstance(n, ast.Call) and isinstance(n.func, ast.Attribute) and n.func.attr == 'read' and \
                    isinstance(n.func.value, ast.Name) and n.func.value.id == 'infp':
                reads.append(n)
        lenparam = fi.params[0]
        g = ctx.cfg(fi)
        rd = cfgmod.reaching_defs(g, fi.params)
        for c in reads:
            node = g.node_of(ctx.enclosing_stmt(fi, c))
            key = '%s|%s' % (q, norm(c))
            ok, why = _copy_read_ok(ctx, fi, g, rd, node, c, lenparam)
            obs.append(Ob('SA-SEEK.copy', key, ok, ctx.loc(fi, c), why))
        if not reads:
            # copy_data may delegate to copy_data_yield or sendfile: require that it passes its
            # length parameter on unchanged
            deleg = [c for c in ctx.calls(fi) if c.callees and c.callees[0].qual == 'utils.copy_data_yield']
            ok = bool(deleg) and all(d.node.args and norm(d.node.args[0]) == lenparam for d in deleg)
            obs.append(Ob('SA-SEEK.copy', '%s|delegates-length' % q, ok, ctx.loc(fi, fi.node),
                          '' if ok else 'copy helper neither reads with a bounded size nor delegates its length unchanged'))
    return obs


def _copy_read_ok(ctx, fi, g, rd, node, c, lenparam):
    if not c.args:
        return False, 'unbounded read'
    size = c.args[0]
    # size must be min(..., left) where left's defs are the length parameter or `left -= consumed`
    def bounded(expr, at, depth=0):
        if depth > 5:
            return None
        if isinstance(expr, ast.Call) and isinstance(expr.func, ast.Name) and expr.func.id == 'min':
            for a in expr.args:
                r = bounded(a, at, depth + 1)
                if r:
                    return r
            return None
        if isinstance(expr, ast.Name):
            defs = [g.nodes[d] for (nm, d) in (rd[at.id] or ()) if nm == expr.id]
            if not defs:
                return None
            kinds = set()
            for d in defs:
                if d.kind == 'entry':
                    kinds.add('param' if expr.id == lenparam else 'otherparam')
                elif d.kind == 'stmt' and isinstance(d.ast, ast.Assign) and norm(d.ast.value) == lenparam:
                    kinds.add('param')
                elif d.kind == 'stmt' and isinstance(d.ast, ast.AugAssign) and isinstance(d.ast.op, ast.Sub):
                    kinds.add('dec')
                elif d.kind == 'stmt' and isinstance(d.ast, ast.Assign) and len(d.ast.targets) == 1 and isinstance(d.ast.targets[0], ast.Name):
                    r = bounded(d.ast.value, d, depth + 1)
                    if not r:
                        return None
                    kinds.add('via')
                else:
                    return None
            if 'otherparam' in kinds:
                return None
            return expr.id if kinds else None
        return None
    left = bounded(size, node)
    if not left:
        return False, 'read size %s is not min(..., remaining length)' % norm(size)
    return True, ''
