"""
add_fp()/add_directory() with an ISO9660 path and a Joliet path add the
ISO9660 entry first and only then look at the Joliet path.  When the Joliet
name is refused (longer than 64 characters, parent missing) the ISO9660 entry
stays behind without the space accounting and the object can no longer be
listed or written ("Assigned an extent beyond the ISO").
"""
import io
import sys

sys.path.insert(0, sys.argv[1])

import pycdlib  # noqa: E402 pylint: disable=wrong-import-position


def check(label, refused_call, iso_name, problems):
    iso = pycdlib.PyCdlib()
    iso.new(joliet=3)
    try:
        refused_call(iso)
        problems.append('%s: the call was not refused' % (label,))
        return
    except pycdlib.pycdlibexception.PyCdlibInvalidInput:
        pass

    try:
        names = [c.file_identifier() for c in iso.list_children(iso_path='/')]
        if iso_name in names:
            problems.append('%s: the refused call left %r in the ISO9660 root' % (label, iso_name))
    except Exception as exc:  # pylint: disable=broad-except
        problems.append('%s: list_children after the refusal: %s: %s' % (label, type(exc).__name__, exc))

    out = io.BytesIO()
    try:
        iso.write_fp(out)
    except Exception as exc:  # pylint: disable=broad-except
        problems.append('%s: write_fp after the refusal: %s: %s' % (label, type(exc).__name__, exc))
        return
    iso.close()

    chk = pycdlib.PyCdlib()
    chk.open_fp(out)
    if chk.pvd.space_size * 2048 != len(out.getvalue()):
        problems.append('%s: volume space size %d blocks, image has %d bytes' % (label, chk.pvd.space_size, len(out.getvalue())))
    chk.close()


def main():
    problems = []
    long_name = '/' + 'a' * 65
    check('add_fp, Joliet name of 65 characters',
          lambda iso: iso.add_fp(io.BytesIO(b'a'), 1, '/A.;1', joliet_path=long_name),
          b'A.;1', problems)
    check('add_fp, Joliet parent missing',
          lambda iso: iso.add_fp(io.BytesIO(b'a'), 1, '/A.;1', joliet_path='/nodir/a'),
          b'A.;1', problems)
    check('add_directory, Joliet name of 65 characters',
          lambda iso: iso.add_directory('/D', joliet_path=long_name),
          b'D', problems)

    if problems:
        for problem in problems:
            print(problem)
        return 1
    print('OK')
    return 0


if __name__ == '__main__':
    sys.exit(main())
