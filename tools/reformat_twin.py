#!/venv/bin/python
"""Robustness experiment: analyse the tree with every source file replaced by ast.unparse(ast.parse(src))
(all formatting, comments, blank lines and line numbers change; type comments survive) and compare the
set of non-discharged obligation keys with the unchanged tree.  Any difference is a position/text
dependence of a rule."""
import ast, os, sys, json
ROOT = os.path.dirname(os.path.dirname(os.path.abspath(__file__)))
sys.path.insert(0, ROOT); os.chdir(ROOT)
from sa.engine import Ctx
from sa import registry
from sa.model import REPO
registry.load_rules()


def keys(ctx):
    out = {}
    errs = []
    for rid, fn in sorted(registry.RULES.items()):
        try:
            for ob in fn(ctx):
                out[(ob.rule, ob.key)] = (ob.ok, ob.advisory)
        except Exception as e:
            errs.append('%s: %s: %s' % (rid, type(e).__name__, e))
    return out, errs


base = Ctx()
overlay = {}
for mi in base.m.modules.values():
    rel = os.path.relpath(mi.path, REPO) if os.path.isabs(mi.path) else mi.path
    src = open(os.path.join(REPO, rel), encoding='utf-8').read()
    tree = ast.parse(src, type_comments=True)
    new = ast.unparse(tree)
    if src.startswith('#!'):
        new = src.split('\n', 1)[0] + '\n' + new
    overlay[rel] = new + '\n'
b, be = keys(base)
t, te = keys(Ctx(overlay=overlay))
only_b = sorted(k for k in b if k not in t)
only_t = sorted(k for k in t if k not in b)
changed = sorted(k for k in b if k in t and b[k] != t[k])
print('obligations: base %d, reformatted %d' % (len(b), len(t)))
print('errors base:', be)
print('errors reformatted:', te)
print('keys only in base: %d' % len(only_b))
for k in only_b[:15]: print('   -', k)
print('keys only in reformatted: %d' % len(only_t))
for k in only_t[:15]: print('   +', k)
print('verdict changed: %d' % len(changed))
for k in changed[:15]: print('   !', k, b[k], '->', t[k])
sys.exit(1 if (te or only_b or only_t or changed) else 0)
