"""Obligations, known-findings matching, evidence files, exit codes."""
import json
import os
import time

VERIF = os.path.dirname(os.path.dirname(os.path.abspath(__file__)))


class Ob:
    """One proof obligation of a rule on one construct of the analysed tree."""
    __slots__ = ('rule', 'key', 'ok', 'loc', 'detail', 'status', 'why', 'advisory')

    def __init__(self, rule, key, ok, loc='', detail='', advisory=False):
        self.rule = rule
        self.key = key          # construct key: no line numbers
        self.ok = bool(ok)
        self.loc = loc          # file:line, for the reader only
        self.detail = detail
        self.status = 'discharged' if ok else 'violated'
        self.why = ''
        self.advisory = advisory

    def fullkey(self):
        return '%s|%s' % (self.rule, self.key)

    def as_dict(self):
        d = {'rule': self.rule, 'key': self.key, 'status': self.status, 'loc': self.loc}
        if self.detail:
            d['detail'] = self.detail
        if self.why:
            d['why'] = self.why
        return d


def load_json(rel, default):
    p = os.path.join(VERIF, rel)
    if not os.path.exists(p):
        return default
    with open(p) as f:
        return json.load(f)


class Tables:
    def __init__(self):
        self.known = load_json('known_findings.json', {'findings': []})['findings']
        self.reviewed = load_json('tables/reviewed.json', {'reviewed': []})['reviewed']
        self.floors = load_json('tables/floors.json', {})
        self._rev = {}
        for r in self.reviewed:
            self._rev[r['rule'] + '|' + r['key']] = r
        self._known = {}
        for k in self.known:
            if k.get('status', 'open') == 'open':
                self._known.setdefault(k['rule'] + '|' + k['key'], []).append(k)

    def classify(self, ob, prop):
        """Set ob.status for a violated obligation."""
        if ob.ok:
            return
        fk = ob.fullkey()
        if fk in self._rev:
            ob.status = 'reviewed'
            ob.why = self._rev[fk]['reason']
            return
        ks = self._known.get(fk)
        if ks:
            ob.status = 'known'
            ob.why = ks[0]['what']
            return
        if ob.advisory:
            ob.status = 'advisory'
            return
        ob.status = 'violated'


def finish(prop, tier, seed, obs, meta, t0, tables, selftest=None, analysis_errors=None):
    """Write evidence, print verdict lines, return exit code."""
    out_dir = os.path.join(VERIF, 'out', prop)
    ev_dir = os.path.join(VERIF, 'evidence')
    os.makedirs(ev_dir, exist_ok=True)
    for ob in obs:
        tables.classify(ob, prop)
    by_status = {}
    for ob in obs:
        by_status.setdefault(ob.status, []).append(ob)
    per_rule = {}
    for ob in obs:
        r = per_rule.setdefault(ob.rule, {'obligations': 0, 'discharged': 0, 'known': 0,
                                          'reviewed': 0, 'violated': 0, 'advisory': 0})
        r['obligations'] += 1
        r[ob.status] += 1
    # floors: a rule that matched fewer instances than confirmed by hand is an analysis error
    errors = list(analysis_errors or [])
    for rule, cnt in per_rule.items():
        fl = tables.floors.get(rule)
        if fl is not None and cnt['obligations'] < fl:
            errors.append('floor-missed %s: %d obligations < floor %d (anchor vanished?)'
                          % (rule, cnt['obligations'], fl))
    for rule in meta.get('rules', []):
        if rule not in per_rule and tables.floors.get(rule):
            errors.append('floor-missed %s: rule produced no obligations' % rule)

    violations = by_status.get('violated', [])
    exit_code = 0
    lines = []
    seen_known = set()
    for ob in by_status.get('known', []):
        if ob.fullkey() in seen_known:
            continue
        seen_known.add(ob.fullkey())
        lines.append('KNOWN-FINDING: property=%s %s [%s %s]' % (prop, ob.why, ob.rule, ob.key))
    if violations:
        os.makedirs(out_dir, exist_ok=True)
        for old in os.listdir(out_dir):
            if old.endswith('.json'):
                try:
                    os.remove(os.path.join(out_dir, old))
                except OSError:
                    pass
        for i, ob in enumerate(violations):
            path = os.path.join(out_dir, '%d.json' % i)
            with open(path, 'w') as f:
                json.dump({'property': prop, 'rule': ob.rule, 'key': ob.key, 'loc': ob.loc,
                           'detail': ob.detail}, f, indent=1)
            lines.append('VIOLATION property=%s replay=%s' % (prop, path))
            lines.append('  %s %s at %s: %s' % (ob.rule, ob.key, ob.loc, ob.detail))
        exit_code = 1
    if selftest is not None and selftest.get('failed'):
        for f in selftest['failed']:
            errors.append('SELFTEST-FAILED %s' % f)
    if errors:
        for e in errors:
            lines.append('ANALYSIS-ERROR %s' % e)
        if exit_code == 0:
            exit_code = 2

    samples = []
    # a readable sample of obligations: all non-discharged ones + some discharged per rule
    per_rule_samples = {}
    for ob in obs:
        if ob.status != 'discharged':
            samples.append(ob.as_dict())
        else:
            lst = per_rule_samples.setdefault(ob.rule, [])
            if len(lst) < 6:
                lst.append(ob.as_dict())
    for lst in per_rule_samples.values():
        samples.extend(lst)
    n_obl = len(obs)
    n_dis = len(by_status.get('discharged', []))
    cov = {
        'explanation': meta.get('explanation', ''),
        'obligations': n_obl,
        'discharged': n_dis,
        'known_findings': len(by_status.get('known', [])),
        'reviewed_exceptions': len(by_status.get('reviewed', [])),
        'advisory': len(by_status.get('advisory', [])),
        'violated': len(violations),
        'evaluations': max(n_obl, 1),
        'distinct_nontrivial': len(set(ob.fullkey() for ob in obs)),
        'rule': 'one obligation per (rule, construct) instance found in the current source; distinct = distinct construct keys',
        'per_rule': per_rule,
        'analysed': meta.get('analysed', {}),
        'samples': samples[:400],
        'checker_cmd': './check %s --tier %s' % (prop, tier),
        'trusted_base': ['python ast module', 'the frozen tables under /verif/tables (each entry a named construct with a reason)',
                         'the type comments in the analysed source (used to resolve calls)'],
        'exhaustive': False,
    }
    if selftest is not None:
        cov['selftest'] = selftest
    ev = {
        'property_id': prop,
        'tier': tier,
        'seed': seed,
        'level': 'other',
        'coverage': cov,
        'assumptions': meta.get('assumptions', []),
        'wall_s': round(time.time() - t0, 3),
        'violations': len(violations),
    }
    if errors:
        ev['analysis_errors'] = errors
    with open(os.path.join(ev_dir, '%s.json' % prop), 'w') as f:
        json.dump(ev, f, indent=1, sort_keys=True)
    summary = '%s tier=%s rules=%s obligations=%d discharged=%d known=%d reviewed=%d advisory=%d violated=%d wall=%.2fs' % (
        prop, tier, ','.join(sorted(per_rule)), n_obl, n_dis, len(by_status.get('known', [])),
        len(by_status.get('reviewed', [])), len(by_status.get('advisory', [])), len(violations), time.time() - t0)
    print(summary)
    for l in lines:
        print(l)
    return exit_code
