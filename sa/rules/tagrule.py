"""SA-TAG: UDF descriptor tag discipline (C05, C10).

Every ECMA-167 descriptor starts with a 16-byte tag: identifier, checksum, CRC over the descriptor body,
location.  The rule decides, for every class of udf.py that owns a `desc_tag`:
  ident   the identifier given to desc_tag.new() is the one the standard assigns to that descriptor
          (frozen table below, ECMA-167 3/7.2.1 and 4/7.2.1) and the one under which the parse dispatch
          hands a tag to that class's parse();
  record  record() returns desc_tag.record(B) + B for one and the same B: the CRC is taken over exactly
          the bytes that follow the tag;
  moves   a class that has set_extent_location writes desc_tag.tag_location there.
"""
import ast

from ..registry import rule, props
from ..report import Ob
from ..model import norm, type_classes, AnalysisError

STD = {
    'UDFPrimaryVolumeDescriptor': 1, 'UDFAnchorVolumeStructure': 2, 'UDFVolumeDescriptorPointer': 3,
    'UDFImplementationUseVolumeDescriptor': 4, 'UDFPartitionVolumeDescriptor': 5, 'UDFLogicalVolumeDescriptor': 6,
    'UDFUnallocatedSpaceDescriptor': 7, 'UDFTerminatingDescriptor': 8, 'UDFLogicalVolumeIntegrityDescriptor': 9,
    'UDFFileSetDescriptor': 256, 'UDFFileIdentifierDescriptor': 257, 'UDFAllocationExtentDescriptor': 258,
    'UDFIndirectEntry': 259, 'UDFTerminalEntry': 260, 'UDFFileEntry': 261, 'UDFExtendedAttributeHeaderDescriptor': 262,
    'UDFUnallocatedSpaceEntry': 263, 'UDFSpaceBitmapDescriptor': 264, 'UDFPartitionIntegrityEntry': 265,
    'UDFExtendedFileEntry': 266,
}


def _const(n):
    return n.value if isinstance(n, ast.Constant) and isinstance(n.value, int) else None


@rule('SA-TAG')
@props('C05', 'C10')
def tag(ctx):
    obs = []
    classes = [c for c in ctx.m.classes.values() if c.module == 'udf' and c.slots and 'desc_tag' in c.slots]
    if len(classes) < 15:
        raise AnalysisError('anchor-vanished: UDF descriptor classes with a tag (%d)' % len(classes))
    newid = {}
    for c in sorted(classes, key=lambda c: c.qual):
        # ident
        ids = []
        for name, fi in c.methods.items():
            for n in ctx.own_nodes(fi):
                if isinstance(n, ast.Call) and norm(n.func) == 'self.desc_tag.new' and n.args:
                    ids.append((fi, n, _const(n.args[0])))
        for fi, n, v in ids:
            want = STD.get(c.name)
            ok = want is not None and v == want
            newid[c.qual] = v
            obs.append(Ob('SA-TAG', '%s|ident' % c.qual, ok, ctx.loc(fi, n),
                          '' if ok else '%s.new() gives its descriptor tag the identifier %r; ECMA-167 assigns %r to this descriptor: an independent reader '
                          'does not recognise the descriptor' % (c.name, v, want)))
        # record shape
        rec = c.methods.get('record')
        if rec is not None:
            for n in ctx.own_nodes(rec):
                if isinstance(n, ast.Return) and n.value is not None:
                    v = n.value
                    ok = (isinstance(v, ast.BinOp) and isinstance(v.op, ast.Add) and isinstance(v.left, ast.Call)
                          and norm(v.left.func) == 'self.desc_tag.record' and len(v.left.args) == 1 and norm(v.left.args[0]) == norm(v.right))
                    obs.append(Ob('SA-TAG', '%s|record' % c.qual, ok, ctx.loc(rec, n),
                                  '' if ok else '%s.record() returns `%s`: the tag CRC/length must be computed over exactly the bytes emitted after the tag '
                                  '(desc_tag.record(B) + B with one B)' % (c.name, norm(v)[:100])))
        # moves
        for mname in ('set_extent_location',):
            fi = c.methods.get(mname)
            if fi is None:
                continue
            writes = any(isinstance(n, ast.Assign) and any(norm(t) == 'self.desc_tag.tag_location' for t in n.targets) for n in ctx.own_nodes(fi))
            if not ctx.callers().get(fi.qual):
                continue          # never moved by the library (descriptor kinds that are only parsed)
            obs.append(Ob('SA-TAG', '%s|moves' % c.qual, writes, ctx.loc(fi, fi.node),
                          '' if writes else '%s.%s does not update desc_tag.tag_location: the descriptor is mastered at its new extent with the old location in its tag'
                          % (c.name, mname)))
    # parse dispatch
    ndisp = 0
    for fi in ctx.m.pkg_functions():
        par = None
        for n in ctx.own_nodes(fi):
            if not (isinstance(n, ast.If) and isinstance(n.test, ast.Compare) and len(n.test.ops) == 1
                    and isinstance(n.test.left, ast.Attribute) and n.test.left.attr == 'tag_ident' and isinstance(n.test.left.value, ast.Name)):
                continue
            val = _const(n.test.comparators[0])
            if val is None:
                continue
            tagvar = n.test.left.value.id
            if isinstance(n.test.ops[0], ast.Eq):
                region = n.body
            elif isinstance(n.test.ops[0], ast.NotEq) and n.body and isinstance(n.body[-1], (ast.Raise, ast.Return)):
                if par is None:
                    par = ctx.parents(fi)
                p = par.get(id(n))
                region = []
                for fld in ('body', 'orelse', 'finalbody'):
                    blk = getattr(p, fld, None)
                    if isinstance(blk, list) and any(s is n for s in blk):
                        region = blk[[i for i, s in enumerate(blk) if s is n][0] + 1:]
            else:
                continue
            nodes = sorted((sub for st in region for sub in ast.walk(st) if hasattr(sub, 'lineno')), key=lambda x: (x.lineno, x.col_offset))
            rebound = [x.lineno for x in nodes if isinstance(x, ast.Assign) and any(isinstance(t, ast.Name) and t.id == tagvar for t in x.targets)]
            limit = min(rebound) if rebound else 10 ** 9
            for st in [0]:
                stop = True
                for sub in nodes:
                    if sub.lineno >= limit:
                        break
                    if isinstance(sub, ast.Call) and isinstance(sub.func, ast.Attribute) and sub.func.attr == 'parse' and \
                            any(isinstance(a, ast.Name) and a.id == tagvar for a in sub.args):
                        for cq in type_classes(ctx.t.expr_type(sub.func.value, fi)):
                            if cq in newid:
                                ndisp += 1
                                ok = newid[cq] == val
                                obs.append(Ob('SA-TAG', '%s|dispatch %s' % (fi.qual, cq.split('.')[-1]), ok, ctx.loc(fi, sub),
                                              '' if ok else 'a tag with identifier %d is handed to %s.parse, whose new() writes identifier %r: what the library writes '
                                              'is not what it accepts' % (val, cq.split('.')[-1], newid[cq])))
                if stop:
                    break
    if ndisp < 8:
        raise AnalysisError('anchor-vanished: tag dispatch sites (%d)' % ndisp)
    return obs
