"""SA-SYM.rebase: a field recorded relative to another recorded field is rebased by the reader (C05, C12).

`IsoHybrid.record` stores the size of the MBR partition as `(iso_size + padding) // 512 - self.part_offset`: the
partition starts `part_offset` sectors into the padded image and ends with it.  `IsoHybrid.parse` derives the number of
sectors per track - which the MBR does not store - from the size of the whole padded image, so it has to add the offset
back (`psize + self.part_offset`).  With a reader that divides the bare field, an image mastered with a non-zero
partition offset comes back with a smaller track, `_calc_cc` pads it to a different cylinder, and open-then-write no
longer reproduces the image.  Nothing is judged by spelling: the rule is instantiated from the writer.  For every
`struct.pack(<literal format>, ...)` in a class one of whose arguments is a local defined as `E - self.A`, and every
`struct.unpack*` in the same class with the same format, each arithmetic use of the local that receives that field must
sit in a sum that also contains `+ self.A`.  Uses in comparisons or as plain arguments are not arithmetic and not judged.
"""
import ast

from ..registry import rule, props
from ..report import Ob
from ..model import norm, fold, NotConst, AnalysisError
from ..linexpr import lin

ARITH = (ast.Add, ast.Sub, ast.Mult, ast.FloorDiv, ast.Div, ast.Mod, ast.LShift, ast.RShift)


def _fmt(ctx, fi, node):
    try:
        v = fold(node, ctx.m, ctx.m.modules[fi.module], fi.cls)
    except NotConst:
        return None
    return v if isinstance(v, str) else None


@rule('SA-SYM.rebase')
@props('C05', 'C12')
def rebase(ctx):
    obs = []
    by_cls = {}
    for fi in ctx.m.pkg_functions():
        if fi.cls:
            by_cls.setdefault((fi.module, getattr(fi.cls, 'name', str(fi.cls))), []).append(fi)
    inst = 0
    for (mod, cls), fis in sorted(by_cls.items()):
        facts = []      # (format, field index, 'self.A', writer fi, name)
        for fi in fis:
            own = list(ctx.own_nodes(fi))
            packs = [c for c in own if isinstance(c, ast.Call) and norm(c.func) == 'struct.pack' and c.args]
            if not packs:
                continue
            assigns = {}
            for a in own:
                if isinstance(a, ast.Assign) and len(a.targets) == 1 and isinstance(a.targets[0], ast.Name):
                    assigns.setdefault(a.targets[0].id, []).append(a)
                elif isinstance(a, (ast.AugAssign, ast.For)) and isinstance(getattr(a, 'target', None), ast.Name):
                    assigns.setdefault(a.target.id, []).append(None)
            for c in packs:
                fmt = _fmt(ctx, fi, c.args[0])
                if fmt is None:
                    continue
                for k, a in enumerate(c.args[1:]):
                    if not isinstance(a, ast.Name) or len(assigns.get(a.id, [])) != 1 or assigns[a.id][0] is None:
                        continue
                    le = lin(assigns[a.id][0].value)
                    for t, co in le.terms.items():
                        if co == -1 and t.startswith('self.') and t[5:].isidentifier():
                            facts.append((fmt, k, t, fi, a.id))
        for fmt, k, attr, wfi, wname in facts:
            for fi in fis:
                par = None
                for st in ctx.own_nodes(fi):
                    if not (isinstance(st, ast.Assign) and isinstance(st.value, ast.Call) and norm(st.value.func) in ('struct.unpack', 'struct.unpack_from') and
                            st.value.args and isinstance(st.targets[0], (ast.Tuple, ast.List))):
                        continue
                    if _fmt(ctx, fi, st.value.args[0]) != fmt or k >= len(st.targets[0].elts) or not isinstance(st.targets[0].elts[k], ast.Name):
                        continue
                    w = st.targets[0].elts[k].id
                    inst += 1
                    par = par or ctx.parents(fi)
                    for u in ctx.own_nodes(fi):
                        if not (isinstance(u, ast.Name) and u.id == w and isinstance(u.ctx, ast.Load)):
                            continue
                        p = par.get(id(u))
                        if not (isinstance(p, ast.BinOp) and isinstance(p.op, ARITH)):
                            continue
                        top = u
                        while isinstance(par.get(id(top)), ast.BinOp) and isinstance(par.get(id(top)).op, (ast.Add, ast.Sub)):
                            top = par.get(id(top))
                        le = lin(top)
                        ok = le.terms.get(w) == 1 and le.terms.get(attr) == 1
                        obs.append(Ob('SA-SYM.rebase', '%s|%s|%s' % (fi.qual, w, attr), ok, ctx.loc(fi, u),
                                      '' if ok else '%s records this field as `... - %s` (`%s`), so its value is relative to %s; here `%s` is used in arithmetic as `%s` without '
                                      '`+ %s`: what is derived from it is off by the offset, and an image mastered with a non-zero offset is not reproduced after open' %
                                      (wfi.qual, attr, wname, attr, w, norm(top), attr)))
    if inst == 0:
        raise AnalysisError('anchor-vanished: no field packed as `E - self.A` and unpacked with the same format (IsoHybrid partition size)')
    obs.append(Ob('SA-SYM.rebase', 'relative fields with a reader of the same format', True, '', '%d' % inst))
    return obs
