"""F-18.4: a name that is legal at interchange level 2/3 comes back altered from the mangler (extension of more than three
characters folded into the base name).  usage: <this> [checkout]"""
import sys
sys.path.insert(0, sys.argv[1] if len(sys.argv) > 1 else '/repo')
from pycdlib import utils
bad = []
for level in (2, 3):
    for name in ('INDEX.HTML', 'ARCHIVE.TAR_GZ', 'A.PROPERTIES', 'N.' + 'E' * 28):
        base, ext = utils.mangle_file_for_iso9660(name, level)
        got = base + '.' + ext
        if got != name + ';1':
            bad.append('level %d: %s -> %s' % (level, name, got))
print('OK' if not bad else 'DEFECT: ' + '; '.join(bad))
sys.exit(1 if bad else 0)
