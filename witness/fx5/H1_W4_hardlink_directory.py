#!/usr/bin/env python
# Witness D: add_hard_link() with a directory as the old path has to be
# refused (hard links are alternate names for file contents) and must leave
# the ISO as it was; it must not be accepted and break the next write.
#
# usage: W4_hardlink_directory.py <pycdlib checkout>
import io
import sys

sys.path.insert(0, sys.argv[1])
import pycdlib  # noqa: E402


def names(iso, **kwargs):
    return sorted(c.file_identifier() for c in iso.list_children(**kwargs))


def udf_names(iso, path):
    return sorted(c.file_identifier() for c in iso.list_children(udf_path=path) if c is not None)


def main():
    problems = []

    cases = (
        ('iso -> iso', dict(iso_old_path='/DIR1', iso_new_path='/LINK.;1')),
        ('iso -> joliet', dict(iso_old_path='/DIR1', joliet_new_path='/link')),
        ('joliet -> joliet', dict(joliet_old_path='/dir1', joliet_new_path='/link')),
        ('joliet -> iso', dict(joliet_old_path='/dir1', iso_new_path='/LINK.;1')),
        ('udf -> iso', dict(udf_old_path='/dir1', iso_new_path='/LINK.;1')),
        ('udf -> udf', dict(udf_old_path='/dir1', udf_new_path='/link')),
        ('iso -> udf', dict(iso_old_path='/DIR1', udf_new_path='/link')),
    )
    for what, kwargs in cases:
        iso = pycdlib.PyCdlib()
        iso.new(joliet=3, udf='2.60')
        iso.add_directory('/DIR1', joliet_path='/dir1', udf_path='/dir1')
        iso.add_fp(io.BytesIO(b'inner\n'), 6, '/DIR1/FILE.;1', joliet_path='/dir1/file', udf_path='/dir1/file')
        iso.add_fp(io.BytesIO(b'foo\n'), 4, '/FOO.;1', joliet_path='/foo', udf_path='/foo')
        before = io.BytesIO()
        iso.write_fp(before)
        listing = (names(iso, iso_path='/'), names(iso, joliet_path='/'), udf_names(iso, '/'))

        try:
            iso.add_hard_link(**kwargs)
            problems.append('%s: add_hard_link(%s) with a directory as the old path was accepted' % (what, ', '.join('%s=%r' % kv for kv in sorted(kwargs.items()))))
        except pycdlib.pycdlibexception.PyCdlibInvalidInput:
            pass
        except Exception as e:  # pylint: disable=broad-except
            problems.append('%s: add_hard_link raised %s: %s instead of PyCdlibInvalidInput' % (what, type(e).__name__, e))

        if (names(iso, iso_path='/'), names(iso, joliet_path='/'), udf_names(iso, '/')) != listing:
            problems.append('%s: the listing of the root directories changed' % (what))

        after = io.BytesIO()
        try:
            iso.write_fp(after)
        except Exception as e:  # pylint: disable=broad-except
            problems.append('%s: the next write failed with %s: %s' % (what, type(e).__name__, e))
        else:
            # The volume descriptors carry the time of writing; compare all
            # the rest by opening the result.
            if len(after.getvalue()) != len(before.getvalue()):
                problems.append('%s: the written ISO has %d bytes instead of %d' % (what, len(after.getvalue()), len(before.getvalue())))
            iso2 = pycdlib.PyCdlib()
            iso2.open_fp(io.BytesIO(after.getvalue()))
            out = io.BytesIO()
            iso2.get_file_from_iso_fp(out, iso_path='/DIR1/FILE.;1')
            if out.getvalue() != b'inner\n':
                problems.append('%s: /DIR1/FILE.;1 is damaged in the written ISO' % (what))
            iso2.close()
        iso.close()

    # Links between files keep working.
    iso = pycdlib.PyCdlib()
    iso.new(joliet=3)
    iso.add_fp(io.BytesIO(b'foo\n'), 4, '/FOO.;1')
    iso.add_hard_link(iso_old_path='/FOO.;1', joliet_new_path='/foo')
    iso.add_hard_link(joliet_old_path='/foo', iso_new_path='/BAR.;1')
    out = io.BytesIO()
    iso.get_file_from_iso_fp(out, iso_path='/BAR.;1')
    if out.getvalue() != b'foo\n':
        problems.append('file -> file link is broken')
    iso.write_fp(io.BytesIO())
    iso.close()

    if problems:
        for p in problems:
            print(p)
        return 1
    print('OK')
    return 0


if __name__ == '__main__':
    sys.exit(main())
