#!/usr/bin/env python
# Witness E: on an XA image the ISO9660 records carry an XA system use
# record, the Joliet records do not.  The Joliet placeholder that
# add_symlink(..., joliet_path=...) makes has to be like every other Joliet
# record.
#
# usage: W5_joliet_symlink_xa.py <pycdlib checkout>
import io
import struct
import sys

sys.path.insert(0, sys.argv[1])
import pycdlib  # noqa: E402

BS = 2048


def find_svd(image):
    ext = 16
    while True:
        vd = image[ext * BS:(ext + 1) * BS]
        if vd[0:1] == b'\xff':
            return None
        if vd[0:1] == b'\x02' and vd[88:91] in (b'%/@', b'%/C', b'%/E'):
            return ext
        ext += 1


def system_use_areas(image, vd_extent):
    # returns {identifier: system use bytes} for the root directory of the
    # volume descriptor at vd_extent
    vd = vd_extent * BS
    ext = struct.unpack_from('<L', image, vd + 156 + 2)[0]
    length = struct.unpack_from('<L', image, vd + 156 + 10)[0]
    off = ext * BS
    end = off + length
    out = {}
    while off < end:
        rlen = bytearray(image[off:off + 1])[0]
        if rlen == 0:
            off = (off // BS + 1) * BS
            continue
        len_fi = bytearray(image[off + 32:off + 33])[0]
        start = 33 + len_fi + (1 - len_fi % 2)
        out[image[off + 33:off + 33 + len_fi]] = image[off + start:off + rlen]
        off += rlen
    return out


def has_xa(su):
    return len(su) >= 14 and su[6:8] == b'XA'


def run(problems, what, rr, udf):
    iso = pycdlib.PyCdlib()
    iso.new(joliet=3, rock_ridge=rr, udf=udf, xa=True)
    if rr:
        iso.add_fp(io.BytesIO(b'foo\n'), 4, '/FOO.;1', rr_name='foo', joliet_path='/foo')
        iso.add_directory('/DIR1', rr_name='dir1', joliet_path='/dir1')
        iso.add_symlink('/SYM.;1', 'sym', 'foo', joliet_path='/sym')
    else:
        iso.add_fp(io.BytesIO(b'foo\n'), 4, '/FOO.;1', joliet_path='/foo', udf_path='/foo')
        iso.add_directory('/DIR1', joliet_path='/dir1', udf_path='/dir1')
        iso.add_symlink('/SYM.;1', udf_symlink_path='/sym', udf_target='foo', joliet_path='/sym')
    out = io.BytesIO()
    iso.write_fp(out)
    iso.close()
    image = out.getvalue()

    for gen in (1, 2):
        iso_su = system_use_areas(image, 16)
        for name in (b'FOO.;1', b'DIR1', b'SYM.;1'):
            if not has_xa(iso_su[name]):
                problems.append('%s, generation %d: ISO9660 record %r has no XA record (precondition)' % (what, gen, name))
        svd = find_svd(image)
        jol_su = system_use_areas(image, svd)
        for name in ('foo', 'dir1', 'sym'):
            su = jol_su[name.encode('utf-16_be')]
            if su != b'':
                problems.append('%s, generation %d: Joliet record /%s has a system use area of %d bytes%s' % (what, gen, name, len(su), ' holding an XA record' if has_xa(su) else ''))
        # and once more after open + write
        iso = pycdlib.PyCdlib()
        iso.open_fp(io.BytesIO(image))
        out = io.BytesIO()
        iso.write_fp(out)
        iso.close()
        image = out.getvalue()


def main():
    problems = []
    run(problems, 'Rock Ridge symlink', '1.09', None)
    run(problems, 'UDF symlink', '', '2.60')
    if problems:
        for p in problems:
            print(p)
        return 1
    print('OK')
    return 0


if __name__ == '__main__':
    sys.exit(main())
