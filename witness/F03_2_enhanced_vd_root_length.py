"""F-03.2: the ISO9660:1999 enhanced volume descriptor kept a root directory record of 2048 bytes after the
root directory had grown.  usage: F03_2_enhanced_vd_root_length.py [repo]"""
import sys, io, struct
sys.path.insert(0, sys.argv[1] if len(sys.argv)>1 else '/repo')
import pycdlib
bad = 0
for kw in ({'interchange_level':4}, {'joliet':3}, {}):
    iso=pycdlib.PyCdlib(); iso.new(**kw)
    for i in range(100):
        iso.add_fp(io.BytesIO(b'x'),1,'/R%05d.;1'%i, **({'joliet_path':'/r%05d'%i} if 'joliet' in kw else {}))
    buf=io.BytesIO(); iso.write_fp(buf); raw=buf.getvalue()
    s=16
    while True:
        t=raw[s*2048]
        if t==255: break
        if t in (1,2):
            off=s*2048+156
            ext,=struct.unpack_from('<L',raw,off+2); dl,=struct.unpack_from('<L',raw,off+10)
            # dot record of that dir
            dext,=struct.unpack_from('<L',raw,ext*2048+2); ddl,=struct.unpack_from('<L',raw,ext*2048+10)
            print(kw, 'VD type',t,'version',raw[s*2048+6],'root rec: extent',ext,'len',dl,'| its . record: extent',dext,'len',ddl, '' if (ext,dl)==(dext,ddl) else '  <-- MISMATCH')
            bad += (ext,dl)!=(dext,ddl)
        s+=1

if bad:
    print('FAIL'); sys.exit(1)
print('OK')
