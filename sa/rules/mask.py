"""SA-SYM.mask: a mask applied to an unpacked field can select bits of that field (C12, C05).

`ecyle |= (esect & 0xc0) << 2` rebuilds the ten-bit end cylinder of an MBR partition entry from the byte that carries its
two high bits.  Written without the parentheses - `esect & 0xc0 << 2` - the shift binds first, the mask becomes 0x300,
and a byte has no such bits: the expression is constant zero, the cylinder loses its high bits, and from 256 cylinders on
the geometry recovered from an opened hybrid image (and with it every re-mastered MBR and the padding) is wrong.  The
spelling is not what is judged (the two parenthesisations of `x & (1 << k)` mean the same); what is judged is the
value: for `X & M` with M a constant and X a name whose every definition is a field of `struct.unpack*` with a literal
format (or a literal), M must share at least one bit with the width of that field.
"""
import ast
import re

from ..registry import rule, props
from ..report import Ob
from ..model import norm, fold, NotConst
from .. import expand as ex

WIDTH = {'b': 1, 'B': 1, 'h': 2, 'H': 2, 'i': 4, 'I': 4, 'l': 4, 'L': 4, 'q': 8, 'Q': 8, 'c': 1, '?': 1}


def _field_widths(fmt):
    out = []
    for cnt, ch in re.findall(r'(\d*)([a-zA-Z?])', fmt.lstrip('<>=!@')):
        k = int(cnt) if cnt else 1
        if ch in ('s', 'p'):
            out.append(None)
        elif ch == 'x':
            continue
        else:
            out.extend([WIDTH.get(ch)] * k)
    return out


@rule('SA-SYM.mask')
@props('C12', 'C05')
def sym_mask(ctx):
    obs = []
    n = 0
    for fi in ctx.m.pkg_functions():
        mi = ctx.m.modules[fi.module]
        masks = [b for b in ctx.own_nodes(fi) if isinstance(b, ast.BinOp) and isinstance(b.op, ast.BitAnd)]
        if not masks:
            continue
        g, RD = ex._rd(ctx, fi)
        for b in masks:
            for x, m in ((b.left, b.right), (b.right, b.left)):
                if not isinstance(x, ast.Name):
                    continue
                try:
                    mv = fold(m, ctx.m, mi, fi.cls)
                except NotConst:
                    continue
                if not isinstance(mv, int) or isinstance(mv, bool):
                    continue
                st = ctx.enclosing_stmt(fi, b)
                node = g.node_of(st)
                defs = sorted(set(d for nm, d in ((RD.get(node.id) if node is not None else None) or ()) if nm == x.id))
                if not defs:
                    continue
                width = 0
                for d in defs:
                    ds = g.nodes[d].stmt
                    w = None
                    if g.nodes[d].kind == 'stmt' and isinstance(ds, ast.Assign):
                        if len(ds.targets) == 1 and isinstance(ds.targets[0], ast.Name) and isinstance(ds.value, ast.Constant) and isinstance(ds.value.value, int):
                            w = max(1, (ds.value.value.bit_length() + 7) // 8)
                        elif len(ds.targets) == 1 and isinstance(ds.targets[0], (ast.Tuple, ast.List)) and isinstance(ds.value, ast.Call) and \
                                norm(ds.value.func) in ('struct.unpack', 'struct.unpack_from') and ds.value.args:
                            try:
                                fmt = fold(ds.value.args[0], ctx.m, mi, fi.cls)
                            except NotConst:
                                fmt = None
                            if isinstance(fmt, str):
                                ws = _field_widths(fmt)
                                names = [norm(t) for t in ds.targets[0].elts]
                                if len(ws) == len(names) and x.id in names:
                                    w = ws[names.index(x.id)]
                    if w is None:
                        width = None
                        break
                    width = max(width, w)
                if not width:
                    continue
                n += 1
                ok = (mv & ((1 << (8 * width)) - 1)) != 0
                obs.append(Ob('SA-SYM.mask', '%s|%s' % (fi.qual, norm(b)), ok, ctx.loc(fi, b),
                              '' if ok else '`%s` is a %d-byte field and the mask evaluates to %#x: no bit of the field is selected, the expression is always 0 (in `a & b << c` the '
                              'shift binds before the mask); the bits that were to be extracted are lost' % (x.id, width, mv)))
    obs.append(Ob('SA-SYM.mask', 'masks applied to unpacked fields examined', True, '', '%d' % n))
    return obs
