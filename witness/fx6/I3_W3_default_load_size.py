"""
Witness C: pycdlib-genisoimage without -boot-load-size must let the library
work out the load size (the whole file for a no-emulation image; a floppy
image of one of the three legal sizes is accepted).

Usage: python W3_default_load_size.py <path-to-checkout>
"""
import os
import struct
import subprocess
import sys
import tempfile

sys.path.insert(0, sys.argv[1])

import pycdlib  # pylint: disable=unused-import


def run_tool(checkout, name, args, cwd):
    env = dict(os.environ)
    env['PYTHONPATH'] = checkout
    return subprocess.run([sys.executable, os.path.join(checkout, 'tools', name)] + args,
                          cwd=cwd, env=env, stdout=subprocess.PIPE,
                          stderr=subprocess.STDOUT, universal_newlines=True)


def initial_entry(path):
    with open(path, 'rb') as infp:
        img = infp.read()
    cat = struct.unpack_from('<L', img, 17 * 2048 + 0x47)[0]
    media, = struct.unpack_from('<B', img, cat * 2048 + 32 + 1)
    count, rba = struct.unpack_from('<HL', img, cat * 2048 + 32 + 6)
    return media, count, rba, img


def main():
    checkout = os.path.abspath(sys.argv[1])
    problems = []
    with tempfile.TemporaryDirectory() as tmp:
        src = os.path.join(tmp, 'src')
        os.mkdir(src)
        boot = bytes((i * 7 + 3) % 251 for i in range(5000))
        with open(os.path.join(src, 'boot'), 'wb') as outfp:
            outfp.write(boot)
        floppy = bytes((i * 5 + 1) % 251 for i in range(2048)) * 720
        with open(os.path.join(src, 'floppy.img'), 'wb') as outfp:
            outfp.write(floppy)

        # 1. no emulation, no load size: the whole file (3 blocks = 12 virtual
        #    sectors) is to be loaded.
        out = os.path.join(tmp, 'noemul.iso')
        res = run_tool(checkout, 'pycdlib-genisoimage',
                       ['-quiet', '-o', out, '-c', 'boot.cat', '-b', 'boot',
                        '-no-emul-boot', src], tmp)
        if res.returncode != 0:
            problems.append('-no-emul-boot without -boot-load-size failed: ' + res.stdout.strip().splitlines()[-1])
        else:
            media, count, rba, img = initial_entry(out)
            if media != 0:
                problems.append('-no-emul-boot: media type %d' % (media))
            if count != 12:
                problems.append('-no-emul-boot without -boot-load-size: sector count %d in the initial entry, expected 12 (the 5000 byte file)' % (count))
            if img[rba * 2048:rba * 2048 + len(boot)] != boot:
                problems.append('-no-emul-boot: initial entry does not point at the boot file')

        # 2. an explicit load size is still honoured
        out = os.path.join(tmp, 'noemul4.iso')
        res = run_tool(checkout, 'pycdlib-genisoimage',
                       ['-quiet', '-o', out, '-c', 'boot.cat', '-b', 'boot',
                        '-no-emul-boot', '-boot-load-size', '4', src], tmp)
        if res.returncode != 0:
            problems.append('-no-emul-boot -boot-load-size 4 failed: ' + res.stdout.strip().splitlines()[-1])
        else:
            media, count, rba, img = initial_entry(out)
            if count != 4:
                problems.append('-boot-load-size 4: sector count %d' % (count))

        # 3. default media type (floppy emulation) with a 1.44M image
        out = os.path.join(tmp, 'floppy.iso')
        res = run_tool(checkout, 'pycdlib-genisoimage',
                       ['-quiet', '-o', out, '-c', 'boot.cat', '-b', 'floppy.img',
                        src], tmp)
        if res.returncode != 0:
            problems.append('-b with a 1474560 byte floppy image (default media type) failed: ' + res.stdout.strip().splitlines()[-1])
        else:
            media, count, rba, img = initial_entry(out)
            if media != 2:
                problems.append('1.44M floppy image: media type %d, expected 2' % (media))
            if count != 1:
                problems.append('1.44M floppy image: sector count %d, expected 1' % (count))
            if img[rba * 2048:rba * 2048 + len(floppy)] != floppy:
                problems.append('floppy: initial entry does not point at the boot image')

    if problems:
        print('\n'.join(problems))
        return 1
    print('OK')
    return 0


if __name__ == '__main__':
    sys.exit(main())
