"""
duplicate_pvd() creates the copy with a path table extent count of 0 instead of
the count of the original PVD.  The next rm_directory() then fails with
"Extent number should never grow when removing PTR", and the next add_directory()
books 4 sectors of path table growth that never happens (image 4 sectors too big).
"""
import io
import struct
import sys

sys.path.insert(0, sys.argv[1])
import pycdlib  # noqa: E402


def written(iso):
    out = io.BytesIO()
    iso.write_fp(out)
    img = out.getvalue()
    declared, = struct.unpack_from('<L', img, 16 * 2048 + 80)
    return len(img) // 2048, declared


def main():
    problems = []

    # 1. removing a directory after duplicate_pvd()
    iso = pycdlib.PyCdlib()
    iso.new()
    iso.add_directory('/DIR1')
    iso.duplicate_pvd()
    try:
        iso.rm_directory('/DIR1')
    except Exception as e:  # pylint: disable=broad-except
        problems.append('rm_directory() after duplicate_pvd() raised %s: %s' % (type(e).__name__, e))
    iso.close()

    # 2. adding a directory after duplicate_pvd(): exactly one sector (the
    #    second PVD) more than the same image without the duplicate.
    sizes = {}
    for dup in (False, True):
        iso = pycdlib.PyCdlib()
        iso.new()
        if dup:
            iso.duplicate_pvd()
        iso.add_directory('/DIR1')
        sizes[dup] = written(iso)
        iso.close()
    if sizes[True][0] != sizes[True][1]:
        problems.append('image is %d sectors, PVD declares %d' % sizes[True])
    if sizes[True][0] != sizes[False][0] + 1:
        problems.append('new + duplicate_pvd + add_directory gives %d sectors, without duplicate_pvd %d: expected exactly 1 more'
                        % (sizes[True][0], sizes[False][0]))

    if problems:
        for p in problems:
            print(p)
        return 1
    print('OK')
    return 0


if __name__ == '__main__':
    sys.exit(main())
