"""
Observation E: the time to open an image must stay in proportion to its size.
A hybrid image whose backup GPT header announces N partition entries (N
well-formed 128-byte entries in front of the header) must be opened in time
linear in N; the unchanged tree copies the rest of the buffer for every entry,
so four times the entries take sixteen times (and more) as long.

usage: W5_gpt_entries_quadratic.py <path-to-checkout>
"""
import io
import struct
import sys
import time

sys.path.insert(0, sys.argv[1])
import pycdlib  # noqa: E402

BOOT = b'\x00' * 0x40 + b'\xfb\xc0\x78\x70' + b'\x00' * (2048 - 0x44)
BASIC = b'\xa2\xa0\xd0\xeb\xe5\xb9\x33\x44\x87\xc0\x68\xb6\xb7\x26\x99\xc7'


def base_image():
    iso = pycdlib.PyCdlib()
    iso.new()
    iso.add_fp(io.BytesIO(BOOT), len(BOOT), '/BOOT.;1')
    iso.add_fp(io.BytesIO(b'E' * 2048), 2048, '/EFI.;1')
    iso.add_eltorito('/BOOT.;1', '/BOOT.CAT;1', boot_load_size=4)
    iso.add_eltorito('/EFI.;1', efi=True)
    iso.add_isohybrid(efi=True)
    out = io.BytesIO()
    iso.write_fp(out)
    iso.close()
    return out.getvalue()


def crafted(img, num):
    (backup_lba,) = struct.unpack_from('<Q', img, 512 + 32)
    hdr = bytearray(img[backup_lba * 512:backup_lba * 512 + 512])
    new = bytearray(img)
    new += (BASIC + b'\x11' * 16 + b'\x00' * 96) * num
    hdr_off = len(new)
    struct.pack_into('<Q', hdr, 24, hdr_off // 512)  # current_lba
    struct.pack_into('<L', hdr, 80, num)  # num_parts
    new += hdr
    if len(new) % 2048:
        new += b'\x00' * (2048 - len(new) % 2048)
    struct.pack_into('<Q', new, 512 + 32, hdr_off // 512)  # primary: backup_lba
    return bytes(new)


def timed_open(data, num, problems):
    best = None
    for i_unused in range(2):
        iso = pycdlib.PyCdlib()
        start = time.time()
        try:
            iso.open_fp(io.BytesIO(data))
            if len(iso.isohybrid_mbr.secondary_gpt.parts) != num:
                problems.append('%d entries: %d backup partitions parsed' % (num, len(iso.isohybrid_mbr.secondary_gpt.parts)))
            iso.close()
        except pycdlib.pycdlibexception.PyCdlibException:
            pass
        except Exception as e:  # pylint: disable=broad-except
            problems.append('%d entries: open raises %s: %s' % (num, type(e).__name__, e))
        elapsed = time.time() - start
        if best is None or elapsed < best:
            best = elapsed
    return best


def main():
    problems = []
    img = base_image()
    small = 10000
    large = 40000
    t_small = timed_open(crafted(img, small), small, problems)
    data = crafted(img, large)
    t_large = timed_open(data, large, problems)
    # Linear would be a factor of 4; leave a lot of room for noise.
    if t_large > 8 * max(t_small, 0.05):
        problems.append('open of %d entries takes %.2f s, of %d entries (%.1f MB image) %.2f s: factor %.1f for 4 times the entries' % (small, t_small, large, len(data) / 1e6, t_large, t_large / max(t_small, 0.001)))

    if problems:
        print('\n'.join(problems))
        return 1
    print('OK')
    return 0


if __name__ == '__main__':
    sys.exit(main())
