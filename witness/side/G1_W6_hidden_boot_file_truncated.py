"""
A hidden El Torito boot file (rm_hard_link) without a boot info table is
truncated on re-master whenever the entry's sector count does not cover the
file: on open its inode is created with sector_count * 512 bytes, so with
boot_load_size=4 only 2048 bytes survive open + write, and a hidden floppy
emulation image (sector count 1) is cut to 512 bytes.
"""
import io
import struct
import sys

sys.path.insert(0, sys.argv[1])
import pycdlib  # noqa: E402


def remaster(boot, **kwargs):
    iso = pycdlib.PyCdlib()
    iso.new()
    iso.add_fp(io.BytesIO(boot), len(boot), '/BOOT.;1')
    iso.add_eltorito('/BOOT.;1', '/BOOT.CAT;1', **kwargs)
    iso.rm_hard_link(iso_path='/BOOT.;1')
    out = io.BytesIO()
    iso.write_fp(out)
    iso.close()
    img1 = out.getvalue()

    iso2 = pycdlib.PyCdlib()
    iso2.open_fp(io.BytesIO(img1))
    out2 = io.BytesIO()
    iso2.write_fp(out2)
    iso2.close()
    return img1, out2.getvalue()


def surviving(img, boot):
    cat_extent, = struct.unpack_from('<L', img, 17 * 2048 + 71)
    rba, = struct.unpack_from('<L', img, cat_extent * 2048 + 32 + 8)
    stored = img[rba * 2048:rba * 2048 + len(boot)]
    same = 0
    while same < len(stored) and stored[same] == boot[same]:
        same += 1
    return same


def main():
    problems = []

    boot = bytes((i * 7 + i // 256) & 0xff for i in range(10240))
    img1, img2 = remaster(boot, boot_load_size=4)
    if surviving(img1, boot) != len(boot):
        problems.append('noemul: first write does not hold the boot file')
    if surviving(img2, boot) != len(boot):
        problems.append('noemul, boot_load_size=4: after open + write only %d of %d bytes of the hidden boot file survive'
                        % (surviving(img2, boot), len(boot)))

    floppy = bytes((i * 13 + i // 2048) & 0xff for i in range(2880 * 512))
    img1, img2 = remaster(floppy, media_name='floppy')
    if surviving(img1, floppy) != len(floppy):
        problems.append('floppy: first write does not hold the boot image')
    if surviving(img2, floppy) != len(floppy):
        problems.append('1.44M floppy emulation: after open + write only %d of %d bytes of the hidden boot image survive'
                        % (surviving(img2, floppy), len(floppy)))

    if problems:
        for p in problems:
            print(p)
        return 1
    print('OK')
    return 0


if __name__ == '__main__':
    sys.exit(main())
