"""
Observation F: rm_isohybrid() on an image that is not a hybrid.  Measured
against failure atomicity (a call that raises changes nothing): whether the
call is refused or not, the image object has to be exactly as before, i.e. it
is written out as the same bytes as if the call had never been made, and later
edits (including add_isohybrid()) behave normally.

Whether the call raised is reported on stderr; it is not what is judged.

usage: W6_rm_isohybrid_not_hybrid.py <path-to-checkout>
"""
import io
import sys
import time

sys.path.insert(0, sys.argv[1])
time.time = lambda: 1700000000.0
import pycdlib  # noqa: E402

BOOT = b'\x00' * 0x40 + b'\xfb\xc0\x78\x70' + b'\x00' * (2048 - 0x44)


def make(eltorito):
    iso = pycdlib.PyCdlib()
    iso.new(interchange_level=3, joliet=3, rock_ridge='1.09')
    iso.add_fp(io.BytesIO(BOOT), len(BOOT), '/BOOT.;1', rr_name='boot', joliet_path='/boot')
    iso.add_directory('/DIR1', rr_name='dir1', joliet_path='/dir1')
    if eltorito:
        iso.add_eltorito('/BOOT.;1', '/BOOT.CAT;1', boot_load_size=4, rr_bootcatname='boot.cat', joliet_bootcatfile='/boot.cat')
    return iso


def out(iso):
    fp = io.BytesIO()
    iso.write_fp(fp)
    return fp.getvalue()


def main():
    problems = []
    for eltorito in (False, True):
        label = 'El Torito' if eltorito else 'plain'
        ref = out(make(eltorito))

        iso = make(eltorito)
        try:
            iso.rm_isohybrid()
            sys.stderr.write('%s image: rm_isohybrid() is not refused\n' % (label))
        except pycdlib.pycdlibexception.PyCdlibException as e:
            sys.stderr.write('%s image: rm_isohybrid() is refused: %s\n' % (label, e))
        except Exception as e:  # pylint: disable=broad-except
            problems.append('%s image: rm_isohybrid raises %s: %s' % (label, type(e).__name__, e))

        try:
            if out(iso) != ref:
                problems.append('%s image: the image written after rm_isohybrid() differs' % (label))
        except Exception as e:  # pylint: disable=broad-except
            problems.append('%s image: write after rm_isohybrid() raises %s: %s' % (label, type(e).__name__, e))

        if eltorito:
            # Later edits behave normally.
            other = make(eltorito)
            other.add_isohybrid(mbr_id=7)
            iso.add_isohybrid(mbr_id=7)
            hybrid = out(iso)
            if hybrid != out(other):
                problems.append('%s image: add_isohybrid() after rm_isohybrid() gives a different image' % (label))
            # ... and removing a hybridization that is there gives the plain image back.
            iso.rm_isohybrid()
            if out(iso) != ref:
                problems.append('%s image: add_isohybrid(), rm_isohybrid() does not give the original image back' % (label))
        iso.close()

    if problems:
        print('\n'.join(problems))
        return 1
    print('OK')
    return 0


if __name__ == '__main__':
    sys.exit(main())
