"""
rm_directory(joliet_path=...) does not check that the Joliet directory is
empty (the ISO9660 branch does).  A populated directory is unlinked while its
files stay linked to their inodes, and the next write fails with an
AttributeError (or the files silently vanish from the Joliet tree).
"""
import io
import sys

sys.path.insert(0, sys.argv[1])

import pycdlib  # noqa: E402 pylint: disable=wrong-import-position


def main():
    iso = pycdlib.PyCdlib()
    iso.new(joliet=3)
    iso.add_directory('/D', joliet_path='/d')
    iso.add_fp(io.BytesIO(b'f'), 1, '/D/F.;1', joliet_path='/d/f')
    iso.add_fp(io.BytesIO(b'g'), 1, joliet_path='/d/g')

    problems = []
    try:
        iso.rm_directory(joliet_path='/d')
        problems.append('rm_directory(joliet_path="/d") removed a directory that still holds /d/f and /d/g')
    except pycdlib.pycdlibexception.PyCdlibInvalidInput:
        pass

    out = io.BytesIO()
    try:
        iso.write_fp(out)
    except Exception as exc:  # pylint: disable=broad-except
        problems.append('write_fp afterwards failed: %s: %s' % (type(exc).__name__, exc))
    else:
        iso.close()
        chk = pycdlib.PyCdlib()
        chk.open_fp(out)
        for path, want in (('/d/f', b'f'), ('/d/g', b'g')):
            got = io.BytesIO()
            try:
                chk.get_file_from_iso_fp(got, joliet_path=path)
                if got.getvalue() != want:
                    problems.append('%s has contents %r after the refused removal' % (path, got.getvalue()))
            except Exception as exc:  # pylint: disable=broad-except
                problems.append('%s is gone from the written image: %s' % (path, exc))
        chk.close()

    # An empty Joliet directory must still be removable.
    iso2 = pycdlib.PyCdlib()
    iso2.new(joliet=3)
    iso2.add_directory('/E', joliet_path='/e')
    try:
        iso2.rm_directory(joliet_path='/e')
        iso2.write_fp(io.BytesIO())
    except Exception as exc:  # pylint: disable=broad-except
        problems.append('empty Joliet directory could not be removed: %s: %s' % (type(exc).__name__, exc))
    iso2.close()

    if problems:
        for problem in problems:
            print(problem)
        return 1
    print('OK')
    return 0


if __name__ == '__main__':
    sys.exit(main())
