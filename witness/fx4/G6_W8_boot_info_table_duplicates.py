#!/usr/bin/env python3
"""
Witness for observation G (notes item 7): -boot-info-table together with
-scan-for-duplicates.  Files with the same contents as the boot image must
read back unchanged; only the boot image itself is patched with the boot
info table.

  python W8_boot_info_table_duplicates.py <path-to-checkout>
"""
import os
import shutil
import subprocess
import sys
import tempfile

CHECKOUT = os.path.abspath(sys.argv[1])
sys.path.insert(0, CHECKOUT)

import pycdlib  # noqa: E402,F401  pylint: disable=wrong-import-position,unused-import


def tool(name, *args):
    """Run one of the tools of the checkout; returns (exit code, stdout, stderr)."""
    env = dict(os.environ)
    env['PYTHONPATH'] = CHECKOUT
    proc = subprocess.run([sys.executable, os.path.join(CHECKOUT, 'tools', name)] + list(args),
                          env=env, stdout=subprocess.PIPE, stderr=subprocess.PIPE,
                          universal_newlines=True, check=False)
    return proc.returncode, proc.stdout, proc.stderr


def last_line(text):
    lines = text.strip().splitlines()
    return lines[-1] if lines else ''


def make_tree(root, files):
    """files: relative path -> bytes (file), (target,) (symlink) or None (directory)."""
    os.makedirs(root)
    for rel, content in files.items():
        full = os.path.join(root, rel)
        if content is None:
            os.makedirs(full, exist_ok=True)
            continue
        os.makedirs(os.path.dirname(full), exist_ok=True)
        if isinstance(content, tuple):
            os.symlink(content[0], full)
        else:
            with open(full, 'wb') as outfp:
                outfp.write(content)


def tree(root):
    """relative path -> 'dir', ('link', target) or the file contents."""
    out = {}
    for dirpath, dirnames, filenames in os.walk(root):
        for name in dirnames + filenames:
            full = os.path.join(dirpath, name)
            rel = os.path.relpath(full, root)
            if os.path.islink(full):
                out[rel] = ('link', os.readlink(full))
            elif os.path.isdir(full):
                out[rel] = 'dir'
            else:
                with open(full, 'rb') as infp:
                    out[rel] = infp.read()
    return out


def diff_trees(want, got):
    problems = []
    for rel in sorted(set(want) - set(got)):
        problems.append('missing from the extracted tree: %s' % (rel))
    for rel in sorted(set(got) - set(want)):
        problems.append('not in the source tree: %s' % (rel))
    for rel in sorted(set(got) & set(want)):
        if got[rel] != want[rel]:
            problems.append('%s differs: source %r, extracted %r' % (rel, want[rel][:80], got[rel][:80]))
    return problems


def build(tmp, files, opts):
    """Build tmp/out.iso from a fresh tmp/src; returns (src, isoname, exit code, stderr)."""
    src = os.path.join(tmp, 'src')
    make_tree(src, files)
    isoname = os.path.join(tmp, 'out.iso')
    ret, _, err = tool('pycdlib-genisoimage', '-quiet', *(list(opts) + ['-o', isoname, src]))
    return src, isoname, ret, err


def extract(tmp, isoname, view):
    """Extract one view to a fresh directory; returns (dest, exit code, stderr)."""
    dest = os.path.join(tmp, 'dest_' + view)
    os.makedirs(dest)
    ret, _, err = tool('pycdlib-extract-files', '-path-type', view, '-extract-to', dest, isoname)
    return dest, ret, err


def run(check):
    tmp = tempfile.mkdtemp()
    try:
        problems = check(tmp)
    finally:
        shutil.rmtree(tmp, ignore_errors=True)
    if problems:
        for problem in problems:
            print(problem)
        return 1
    print('OK')
    return 0


def check(tmp):
    problems = []
    boot = bytes(bytearray(range(256))) * 8
    other = b'other\n' * 100
    files = {'boot.img': boot, 'a.bin': boot, 'z.bin': boot, 'sub/copy.bin': boot,
             'o1.txt': other, 'o2.txt': other}
    src, isoname, ret, err = build(tmp, files, ['-R', '-b', 'boot.img', '-c', 'boot.cat', '-no-emul-boot',
                                                '-boot-load-size', '4', '-boot-info-table',
                                                '-scan-for-duplicates'])
    if ret != 0:
        problems.append('pycdlib-genisoimage failed: %s' % (last_line(err)))
        return problems
    dest, ret, err = extract(tmp, isoname, 'rockridge')
    if ret != 0:
        problems.append('pycdlib-extract-files failed: %s' % (last_line(err)))
    got = tree(dest)
    for rel, content in sorted(files.items()):
        if rel == 'boot.img':
            # Bytes 8..63 hold the boot info table.
            if got.get(rel, b'')[:8] != content[:8] or got.get(rel, b'')[64:] != content[64:]:
                problems.append('boot.img differs outside of the boot info table')
            if got.get(rel, b'')[8:64] == content[8:64]:
                problems.append('boot.img was not patched with the boot info table')
        elif got.get(rel) != content:
            data = got.get(rel)
            if data is not None and data[:8] == content[:8] and data[64:] == content[64:]:
                problems.append('%s reads back with a boot info table patched in (bytes 8..63 differ from the source)' % (rel))
            else:
                problems.append('%s reads back differently' % (rel))

    # The other duplicates must still share their data.
    iso = pycdlib.PyCdlib()
    iso.open(isoname)
    if iso.get_record(rr_path='/o1.txt').extent_location() != iso.get_record(rr_path='/o2.txt').extent_location():
        problems.append('o1.txt and o2.txt were not linked by -scan-for-duplicates')
    iso.close()
    return problems


if __name__ == '__main__':
    sys.exit(run(check))
