"""
open_file_from_iso() only exposes the first extent of a file that is larger
than 0xfffff800 bytes (and therefore split over several directory records):
length() is 4294965248 for a 5 GiB file and the end of the file cannot be read.
get_file_from_iso_fp() follows the continuation records and is not affected.
"""
import os
import shutil
import sys
import tempfile

sys.path.insert(0, sys.argv[1])
import pycdlib  # noqa: E402

SIZE = 5 * 1024 * 1024 * 1024
FIRST = 0xfffff800


def main():
    problems = []
    tmpdir = tempfile.mkdtemp()
    try:
        # A sparse file: it takes (almost) no room on disk.
        path = os.path.join(tmpdir, 'big.bin')
        fd = os.open(path, os.O_CREAT | os.O_RDWR)
        os.ftruncate(fd, SIZE)
        os.pwrite(fd, b'HEAD', 0)
        os.pwrite(fd, b'0123456789', FIRST - 5)
        os.pwrite(fd, b'TAIL', SIZE - 4)
        os.close(fd)

        iso = pycdlib.PyCdlib()
        iso.new(interchange_level=3)
        iso.add_file(path, '/BIG.;1')
        with iso.open_file_from_iso(iso_path='/BIG.;1') as infp:
            if infp.length() != SIZE:
                problems.append('length() is %d instead of %d' % (infp.length(), SIZE))
            if infp.read(4) != b'HEAD':
                problems.append('start of the file is wrong')
            infp.seek(-4, 2)
            tail = infp.read()
            if tail != b'TAIL':
                problems.append('seek(-4, 2); read() returns %r instead of the last bytes %r' % (tail, b'TAIL'))
            infp.seek(FIRST - 5)
            middle = infp.read(10)
            if middle != b'0123456789':
                problems.append('read across the end of the first extent returns %r instead of %r' % (middle, b'0123456789'))
            buf = bytearray(10)
            infp.seek(FIRST - 5)
            got = infp.readinto(buf)
            if got != 10 or bytes(buf) != b'0123456789':
                problems.append('readinto across the end of the first extent returns %d, %r' % (got, bytes(buf)))
        iso.close()
    finally:
        shutil.rmtree(tmpdir)

    if problems:
        print('\n'.join(problems))
        return 1
    print('OK')
    return 0


if __name__ == '__main__':
    sys.exit(main())
