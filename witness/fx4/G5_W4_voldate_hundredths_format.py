"""
Witness for observation D: the hundredths-of-a-second digits that
VolumeDescriptorDate.new() records must be the two-digit, zero-padded,
right-aligned decimal form of the hundredths value the object holds.

Usage: W4_voldate_hundredths_format.py <path-to-checkout>
"""
import os
import sys
import time

sys.path.insert(0, sys.argv[1])

os.environ['TZ'] = 'UTC0'
time.tzset()

import pycdlib.dates  # noqa: E402  pylint: disable=wrong-import-position


def main():
    problems = []

    for tm in (1546914300.0, 1546914300.05, 1546914300.5, 1546914300.99,
               0.07, 951782400.25, 1e-9):
        date = pycdlib.dates.VolumeDescriptorDate()
        date.new(tm)
        rec = date.record()
        want = ('%02d' % (date.hundredthsofsecond)).encode('ascii')
        if len(rec) != 17 or rec[14:16] != want:
            problems.append('new(%r): hundredths %d recorded as %r in %r'
                            % (tm, date.hundredthsofsecond, rec[14:16], rec))
            continue
        again = pycdlib.dates.VolumeDescriptorDate()
        again.parse(rec)
        if again.hundredthsofsecond != date.hundredthsofsecond or again.record() != rec:
            problems.append('new(%r): %r parses back to hundredths %d'
                            % (tm, rec, again.hundredthsofsecond))
        # To the second, the record denotes the instant it was made from.
        if time.strftime('%Y%m%d%H%M%S', time.gmtime(int(tm))).encode('ascii') != rec[:14] or rec[16:] != b'\x00':
            problems.append('new(%r) recorded %r' % (tm, rec))

    if problems:
        print('hundredths of a second are recorded wrongly:')
        for problem in problems:
            print('  ' + problem)
        return 1

    print('OK')
    return 0


if __name__ == '__main__':
    sys.exit(main())
