"""Observation H: pycdlib-genisoimage has to cut Joliet names to 64 UTF-16
code units (what the library allows), not to 64 code points.

Usage: W8_joliet_path_nonbmp.py <path-to-checkout>
"""
import importlib.machinery
import importlib.util
import io
import os
import subprocess
import sys
import tempfile

sys.path.insert(0, sys.argv[1])

import pycdlib
from pycdlib.pycdlibexception import PyCdlibInvalidInput

FACE = u'\U0001F600'


def units(name):
    return len(name.encode('utf-16_be')) // 2


def main():
    problems = []
    tool = os.path.join(sys.argv[1], 'tools', 'pycdlib-genisoimage')

    # 1. The helper on its own.
    loader = importlib.machinery.SourceFileLoader('pycdlib_genisoimage_tool', tool)
    spec = importlib.util.spec_from_loader(loader.name, loader)
    mod = importlib.util.module_from_spec(spec)
    loader.exec_module(mod)

    for root, name in (('/', FACE * 40 + '.txt'),
                       ('/', 'a' + FACE * 40),
                       ('/' + FACE * 50, 'x' * 70),
                       ('/' + 'd' * 70 + '/' + 'e' + FACE * 33, FACE * 32 + 'tail')):
        path = mod.build_joliet_path(root, name)
        for comp in path.split('/'):
            if units(comp) > 64:
                problems.append('build_joliet_path(%r, %r): component of %d UTF-16 code units' % (root, name, units(comp)))
                break
        # The library must take the result.
        iso = pycdlib.PyCdlib()
        iso.new(joliet=3)
        try:
            sofar = ''
            for index, comp in enumerate(path.strip('/').split('/')[:-1]):
                sofar += '/' + comp
                iso.add_directory('/D%d' % (index) if index == 0 else '/D0/D%d' % (index), joliet_path=sofar)
            iso.add_fp(io.BytesIO(b'x'), 1, '/F.;1', joliet_path=path)
        except PyCdlibInvalidInput as e:
            problems.append('build_joliet_path(%r, %r) is refused by the library: %s' % (root, name, e))
        iso.close()
    # Names that fit are not touched, plain names are cut at 64 characters.
    if mod.build_joliet_path('/dir', 'name.txt') != '/dir/name.txt':
        problems.append('build_joliet_path(/dir, name.txt) gives %r' % (mod.build_joliet_path('/dir', 'name.txt')))
    if mod.build_joliet_path('/', 'n' * 80) != '/' + 'n' * 64:
        problems.append('a plain 80 character name is not cut to 64 characters')
    if mod.build_joliet_path('/', FACE * 32) != '/' + FACE * 32:
        problems.append('a name of exactly 64 UTF-16 code units is changed')

    # 2. The tool, end to end.
    with tempfile.TemporaryDirectory() as tmp:
        src = os.path.join(tmp, 'src')
        os.makedirs(os.path.join(src, 'dir' + FACE * 40))
        with open(os.path.join(src, FACE * 40 + '.txt'), 'wb') as fp:
            fp.write(b'top')
        with open(os.path.join(src, 'dir' + FACE * 40, 'in' + FACE * 40), 'wb') as fp:
            fp.write(b'inner')
        out = os.path.join(tmp, 'out.iso')
        env = dict(os.environ)
        env['PYTHONPATH'] = sys.argv[1]
        proc = subprocess.run([sys.executable, tool, '-quiet', '-J', '-o', out, src], env=env,
                              stdout=subprocess.PIPE, stderr=subprocess.STDOUT, check=False)
        if proc.returncode != 0:
            last = proc.stdout.decode('utf-8', 'replace').strip().splitlines()[-1:]
            problems.append('pycdlib-genisoimage -J on a tree with long non-BMP names failed: %s' % (' '.join(last)))
        else:
            iso = pycdlib.PyCdlib()
            iso.open(out)
            found = {}
            for root, dirs, files in iso.walk(joliet_path='/'):
                for name in dirs + files:
                    if units(name) > 64:
                        problems.append('Joliet name of %d UTF-16 code units in the image' % (units(name)))
                for name in files:
                    buf = io.BytesIO()
                    iso.get_file_from_iso_fp(buf, joliet_path=root.rstrip('/') + '/' + name)
                    found[buf.getvalue()] = name
            iso.close()
            if sorted(found) != [b'inner', b'top']:
                problems.append('the Joliet tree of the image holds the files %r' % (sorted(found)))
            elif found[b'top'] != FACE * 32 or found[b'inner'] != 'in' + FACE * 31:
                problems.append('unexpected Joliet names %r' % (found))

    if problems:
        for p in problems:
            print(p)
        return 1
    print('OK')
    return 0


if __name__ == '__main__':
    sys.exit(main())
