"""Rule registry and property -> rules map."""
import importlib
import pkgutil

RULES = {}      # rule id -> (function, doc)


def rule(rid):
    def deco(fn):
        RULES[rid] = fn
        fn.rule_id = rid
        return fn
    return deco


def load_rules():
    from . import rules
    for mod in pkgutil.iter_modules(rules.__path__):
        importlib.import_module('sa.rules.' + mod.name)
    return RULES


# property -> rule ids.  Kept in step with DESIGN.md section 10.
PROPS = {}


def prop_rules(prop):
    load_rules()
    out = []
    for rid, fn in sorted(RULES.items()):
        if prop in getattr(fn, 'props', ()):
            out.append(rid)
    return out


def props(*ps):
    def deco(fn):
        fn.props = tuple(ps)
        return fn
    return deco
