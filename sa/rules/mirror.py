"""SA-MIRROR.total: a value copied into every member of a collection is copied into every member (C01, C03).

Some fields exist once per child as a copy of a field of the parent: the `..` record of every subdirectory repeats the
length of the directory it points back to, so when a directory grows or shrinks by a sector the new length is written into
the `..` of each child directory.  Such a loop is recognised by its shape - `for c in <collection>: ... <something reached
from c>.f = self.f` - and has to range over the whole collection: not a slice, not a `range` that starts past 0, and with
no `break`/`return` in its body.  ("Only the entries from the insertion point on can have moved" is true of positions,
which is why the loop right above it starts at `index`; it is not true of a copy of the parent's length.)  Sibling loops
that mirror the same field (grow / shrink) must range over the same expression.
"""
import ast

from ..registry import rule, props
from ..report import Ob
from ..model import norm, AnalysisError


def _root(e):
    while isinstance(e, (ast.Attribute, ast.Subscript)):
        e = e.value
    return e.id if isinstance(e, ast.Name) else None


@rule('SA-MIRROR.total')
@props('C01', 'C03', 'C09')
def mirror_total(ctx):
    obs = []
    loops = []
    deviants = []
    for fi in ctx.m.pkg_functions():
        for loop in ctx.own_nodes(fi):
            if not (isinstance(loop, ast.For) and isinstance(loop.target, ast.Name)):
                continue
            v = loop.target.id
            mirrored = []
            for st in loop.body:
                for n in ast.walk(st):
                    if isinstance(n, ast.Assign) and len(n.targets) == 1 and isinstance(n.targets[0], ast.Attribute) and \
                            isinstance(n.value, ast.Attribute) and isinstance(n.value.value, ast.Name) and n.value.value.id == 'self' and \
                            n.targets[0].attr == n.value.attr and _root(n.targets[0]) == v and not (isinstance(n.targets[0].value, ast.Name)):
                        mirrored.append(n)
            if mirrored:
                loops.append((fi, loop, mirrored))
            else:
                # the same shape with the member itself as the source: `<reached from c>.f = c.f` copies a field of the
                # member into something below the member - a candidate deviant of a mirroring sibling (judged below)
                for st in loop.body:
                    for n in ast.walk(st):
                        if isinstance(n, ast.Assign) and len(n.targets) == 1 and isinstance(n.targets[0], ast.Attribute) and \
                                isinstance(n.value, ast.Attribute) and isinstance(n.value.value, ast.Name) and n.value.value.id == v and \
                                n.targets[0].attr == n.value.attr and _root(n.targets[0]) == v and not isinstance(n.targets[0].value, ast.Name):
                            deviants.append((fi, loop, n))
    # a loop of the same class that writes the same field of the same place from the member itself, where a sibling
    # mirrors it from self: the two disagree about whose value the field holds
    for dfi, dloop, dn in deviants:
        for fi, loop, mirrored in loops:
            if (fi.cls is dfi.cls) and any(norm(m.targets[0]) .replace(loop.target.id, '?') == norm(dn.targets[0]).replace(dloop.target.id, '?') for m in mirrored):
                obs.append(Ob('SA-MIRROR.total', '%s|%s mirrors self.%s like its sibling' % (dfi.qual, norm(dn.targets[0]), dn.value.attr), False, ctx.loc(dfi, dn),
                              '`%s = %s` copies the member\'s own %s into it, while %s writes the same place from self.%s: the field is the copy of the *containing* '
                              'directory\'s value (the `..` record repeats the length of the directory it points back to), so after this path it states the length of the '
                              'subdirectory instead' % (norm(dn.targets[0]), norm(dn.value), dn.value.attr, fi.qual, dn.value.attr)))
                loops.append((dfi, dloop, [dn]))
                break
    if len(loops) < 2:
        raise AnalysisError('anchor-vanished: loops that copy a field of self into every child (%d)' % len(loops))
    by_field = {}
    for fi, loop, mirrored in loops:
        it = loop.iter
        why = ''
        if isinstance(it, ast.Subscript) and isinstance(it.slice, ast.Slice):
            why = 'it ranges over the slice `%s`: the members outside it keep the old value' % norm(it)
        elif isinstance(it, ast.Call) and norm(it.func) in ('range', 'enumerate', 'reversed', 'islice', 'itertools.islice'):
            if norm(it.func) == 'range' and (len(it.args) < 2 or norm(it.args[0]) == '0'):
                pass
            elif norm(it.func) in ('enumerate', 'reversed') and it.args and not isinstance(it.args[0], ast.Subscript):
                pass
            else:
                why = 'it ranges over `%s`, which need not cover every member' % norm(it)
        early = [x for st in loop.body for x in ast.walk(st) if isinstance(x, (ast.Break, ast.Return))]
        if not why and early:
            why = 'it leaves the loop at line %d before every member has been written' % early[0].lineno
        fld = mirrored[0].targets[0].attr
        key = '%s|every member gets self.%s' % (fi.qual, fld)
        obs.append(Ob('SA-MIRROR.total', key, not why, ctx.loc(fi, loop),
                      '' if not why else 'the loop copies self.%s into `%s` of each member of a collection, but %s - an independent reader then finds a member whose copy '
                      'disagrees with the original (the `..` record of a subdirectory stating another length than the directory it points to)' % (fld, norm(mirrored[0].targets[0]), why)))
        by_field.setdefault((fi.cls.qual if fi.cls else fi.module, fld), []).append((fi, loop))
    for (cq, fld), lst in sorted(by_field.items()):
        its = set(norm(l.iter) for _f, l in lst)
        if len(lst) > 1:
            ok = len(its) == 1
            obs.append(Ob('SA-MIRROR.total', '%s|loops mirroring %s range over the same members' % (cq, fld), ok, ctx.loc(lst[0][0], lst[0][1]),
                          '' if ok else 'the loops that mirror self.%s range over different expressions (%s): growing and shrinking update different sets of members' % (fld, sorted(its))))
    return obs


@rule('SA-MIRROR.loopvar')
@props('C03', 'C02')
def loopvar(ctx):
    """The target of a `for` loop is not read after the loop (library code; loops that `break` out of a search are the
    exception: there the variable deliberately holds the element found).  A statement that was meant to act on every
    member and sits one indentation level too far left acts on the last member only (the second and later copies of the
    volume descriptor keep their own root record), and a loop that re-uses the name of a flag of the enclosing function
    as its target leaves that flag with the value of the last member."""
    from .. import expand as ex
    from .. import cfg as cfgmod
    obs = []
    nloops = 0
    for fi in ctx.m.pkg_functions():
        loops = [n for n in ctx.own_nodes(fi) if isinstance(n, ast.For)]
        if not loops:
            continue
        g, RD = ex._rd(ctx, fi)
        for loop in loops:
            nloops += 1
            if any(isinstance(x, ast.Break) for st in loop.body for x in ast.walk(st)):
                continue
            names = set(cfgmod.target_names(loop.target))
            inside = set(id(x) for x in ast.walk(loop))
            leaks = []
            for node in g.nodes:
                st = node.stmt
                if st is None or node.kind not in ('stmt', 'test') or id(st) in inside:
                    continue
                reach = RD.get(node.id) or ()
                for e in cfgmod.node_exprs(node):
                    for sub in ast.walk(e):
                        if isinstance(sub, ast.Name) and isinstance(sub.ctx, ast.Load) and sub.id in names and id(sub) not in inside and \
                                any(nm == sub.id and g.nodes[d].stmt is loop for nm, d in reach):
                            leaks.append(sub)
            if not leaks:
                continue
            for nm in sorted(set(l.id for l in leaks)):
                first = min((l for l in leaks if l.id == nm), key=lambda l: l.lineno)
                obs.append(Ob('SA-MIRROR.loopvar', '%s|for %s in %s|%s read after the loop' % (fi.qual, norm(loop.target), norm(loop.iter)[:60], nm), False,
                              ctx.loc(fi, first),
                              '`%s` is the target of the loop at line %d and is read again at line %d, after the loop: the statement sees the last member only '
                              '(or, when the name is also a variable of the function, that variable has silently taken the value of the last member); what was '
                              'meant for every member belongs inside the loop, a loop-local name must not shadow a flag of the function'
                              % (nm, loop.lineno, first.lineno)))
    if nloops < 100:
        raise AnalysisError('anchor-vanished: for loops in the package (%d)' % nloops)
    obs.append(Ob('SA-MIRROR.loopvar', 'loops whose target is dead after the loop (or that break out of a search)', True, 'pycdlib/', '%d loops' % nloops))
    return obs


@rule('SA-MIRROR.invariant_break')
@props('C11', 'C12', 'C01')
def invariant_break(ctx):
    """A `for` loop is not left (`break`) on a condition that cannot change while it runs.  A test that mentions no
    name assigned in the loop, no call and no attribute stored in the loop has the same value in every iteration: if it
    is false the `break` is dead, if it is true the loop handles the statements above the test for the first member only
    and nothing for the others.  What is meant is either a test in front of the loop or `continue` (skip the rest of the
    body for every member): with `break`, every boot image after the first keeps the extent of the previous layout
    whenever there is no hybrid MBR."""
    from .. import cfg as cfgmod
    obs = []
    nloops = 0
    for fi in ctx.m.pkg_functions():
        for loop in ctx.own_nodes(fi):
            if not isinstance(loop, ast.For):
                continue
            nloops += 1
            assigned = set(cfgmod.target_names(loop.target))
            stored_attrs = set()
            for x in ast.walk(loop):
                if isinstance(x, (ast.Assign, ast.AugAssign, ast.AnnAssign)):
                    for t in (x.targets if isinstance(x, ast.Assign) else [x.target]):
                        assigned |= set(cfgmod.target_names(t))
                        for y in ast.walk(t):
                            if isinstance(y, ast.Attribute):
                                stored_attrs.add(y.attr)
                if isinstance(x, (ast.For, ast.comprehension)) and x is not loop:
                    assigned |= set(cfgmod.target_names(x.target))
                if isinstance(x, ast.With):
                    for it in x.items:
                        if it.optional_vars is not None:
                            assigned |= set(cfgmod.target_names(it.optional_vars))
            inner = [x for st in loop.body for x in ast.walk(st) if isinstance(x, (ast.For, ast.While))]
            for i, st in enumerate(loop.body):
                if i == 0:
                    continue        # a test in front of all work is a test in front of the loop
                for iff in ast.walk(st):
                    if not (isinstance(iff, ast.If) and iff.body and isinstance(iff.body[-1], ast.Break)):
                        continue
                    if any(iff is y or any(iff is z for z in ast.walk(y)) for y in inner):
                        continue
                    t = iff.test
                    if any(isinstance(y, (ast.Call, ast.Await, ast.NamedExpr)) for y in ast.walk(t)):
                        continue
                    if any(isinstance(y, ast.Name) and y.id in assigned for y in ast.walk(t)):
                        continue
                    if any(isinstance(y, ast.Attribute) and y.attr in stored_attrs for y in ast.walk(t)):
                        continue
                    if iff is not st:
                        continue    # nested under another condition that may vary
                    obs.append(Ob('SA-MIRROR.invariant_break', '%s|for %s in %s|break when %s' % (fi.qual, norm(loop.target), norm(loop.iter)[:40], norm(t)[:60]), False,
                                  ctx.loc(fi, iff),
                                  'the loop over `%s` is left when `%s`, a condition that cannot change during the loop: the %d statement(s) above it run for the first member '
                                  'only and the other members are never handled (a test in front of the loop, or `continue`, was meant)'
                                  % (norm(loop.iter)[:60], norm(t)[:80], i)))
    if nloops < 100:
        raise AnalysisError('anchor-vanished: for loops in the package (%d)' % nloops)
    obs.append(Ob('SA-MIRROR.invariant_break', 'for loops without a break on a loop-invariant condition after work', True, 'pycdlib/', '%d loops' % nloops))
    return obs
