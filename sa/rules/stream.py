"""C16: stream discipline of PyCdlibIO and of the whole-file copy helpers.

SA-SEEK.position   every read on the (shared, borrowed) file handle is preceded on every
                   path, inside its own method, by a seek to `_startpos + _offset`, with no
                   intervening change of `_offset` or other use of the handle.
SA-SEEK.bound      the size passed to every such read is `_length - _offset` or a `min` with it.
SA-PAIR.stream     after every read, every path to the normal exit adds the amount consumed
                   (the size asked for, or the length of what was returned) to `_offset`.
SA-SEEK.seekmethod in `seek`, every explicit reposition of the handle is to `_startpos + new offset`,
                   the new offset being the value then stored in `_offset`.
SA-SEEK.opendata   InodeOpenData.__enter__ positions the handle on every path before returning it,
                   at `orig_extent_loc * logical_block_size` or `fp_offset`, and returns the inode's length.
SA-SEEK.copy       the copy helpers never ask for more than what is left, and what is left
                   decreases by what was consumed.
"""
import ast

from ..registry import rule, props
from ..report import Ob
from ..model import norm, AnalysisError
from ..linexpr import lin, Lin
from .. import cfg as cfgmod

IO_CLASS = 'pycdlibio.PyCdlibIO'
FP, OFF, LEN, START = '_fp', '_offset', '_length', '_startpos'


def _is_self_call(call, attr, meth):
    f = call.func
    return isinstance(f, ast.Attribute) and f.attr == meth and isinstance(f.value, ast.Attribute) \
        and f.value.attr == attr and isinstance(f.value.value, ast.Name) and f.value.value.id == 'self'


def _calls_in(n):
    for e in cfgmod.node_exprs(n):
        for sub in ast.walk(e):
            if isinstance(sub, ast.Call):
                yield sub


def _writes_self_attr(n, attr):
    if n.kind != 'stmt':
        return None
    st = n.ast
    tgts = []
    if isinstance(st, ast.Assign):
        tgts = st.targets
    elif isinstance(st, (ast.AugAssign, ast.AnnAssign)):
        tgts = [st.target]
    for t in tgts:
        for sub in ast.walk(t):
            if isinstance(sub, ast.Attribute) and sub.attr == attr and isinstance(sub.value, ast.Name) and sub.value.id == 'self':
                return st
    return None


def _self(attr):
    return 'self.' + attr


PARTS, READER, SEEKER = '_parts', '_read_parts', '_seek_part'


def _multi(ctx):
    """the stream is the multi-part design: a list of (handle, start in handle, logical start, length) in self._parts,
    one private method that positions the handle of the part holding a logical offset (_seek_part) and one that
    reads across parts (_read_parts); the public methods never touch a handle themselves"""
    ci = ctx.cls(IO_CLASS)
    return ci.slots is not None and PARTS in ci.slots and FP not in ci.slots


def _io_methods(ctx):
    ci = ctx.cls(IO_CLASS)
    need = (PARTS, OFF, LEN) if _multi(ctx) else (FP, OFF, LEN, START)
    for a in need:
        if ci.slots is None or a not in ci.slots:
            raise AnalysisError('anchor-vanished slot %s.%s' % (IO_CLASS, a))
    if _multi(ctx):
        for m in (READER, SEEKER):
            if m not in ci.methods:
                raise AnalysisError('anchor-vanished %s.%s' % (IO_CLASS, m))
    return ci, [m for m in ci.methods.values()]


def _is_self_method(call, meth):
    f = call.func
    return isinstance(f, ast.Attribute) and f.attr == meth and isinstance(f.value, ast.Name) and f.value.id == 'self'


def _is_read(ctx, call):
    """a read of file bytes as the public methods see it"""
    if _multi(ctx):
        return _is_self_method(call, READER)
    return _is_self_call(call, FP, 'read')


def _unconditional_calls(body):
    """calls executed whenever the statement list runs to its first return: not under if/while/for/handlers, not in the
    short-circuited part of a boolean or conditional expression, and not after a return"""
    out = []

    def expr(e):
        if isinstance(e, ast.BoolOp):
            expr(e.values[0])
            return
        if isinstance(e, ast.IfExp):
            expr(e.test)
            return
        if isinstance(e, (ast.Lambda, ast.GeneratorExp, ast.ListComp, ast.SetComp, ast.DictComp)):
            return
        if isinstance(e, ast.Call):
            out.append(e)
        for ch in ast.iter_child_nodes(e):
            if isinstance(ch, ast.expr):
                expr(ch)

    def stmts(b):
        for st in b:
            if isinstance(st, ast.Return):
                if st.value is not None:
                    expr(st.value)
                return False
            if isinstance(st, (ast.If, ast.While)):
                expr(st.test)
                continue
            if isinstance(st, ast.For):
                expr(st.iter)
                continue
            if isinstance(st, ast.With):
                for it in st.items:
                    expr(it.context_expr)
                if stmts(st.body) is False:
                    return False
                continue
            if isinstance(st, ast.Try):
                if stmts(st.body) is False:
                    return False
                if stmts(st.finalbody) is False:
                    return False
                continue
            if isinstance(st, (ast.FunctionDef, ast.ClassDef)):
                continue
            for ch in ast.iter_child_nodes(st):
                if isinstance(ch, ast.expr):
                    expr(ch)
        return True
    stmts(body)
    return out


def _multi_helpers(ctx, ci):
    """obligations on the two private methods of the multi-part design (position of every handle read)"""
    obs = []
    sk = ci.methods[SEEKER]
    rd = ci.methods[READER]
    # --- _seek_part(offset): for (fp, startpos, partstart, partlen) in self._parts: if offset < partstart + partlen:
    #         fp.seek(startpos + offset - partstart); return fp, partstart + partlen - offset
    off_param = [p for p in sk.params if p != 'self']
    loops = [n for n in ctx.own_nodes(sk) if isinstance(n, ast.For) and norm(n.iter) == _self(PARTS) and isinstance(n.target, ast.Tuple) and len(n.target.elts) == 4]
    ok = False
    why = 'not the loop `for (fp, startpos, partstart, partlen) in self.%s`' % PARTS
    if len(off_param) == 1 and len(loops) == 1:
        o = off_param[0]
        fp, sp, ps, pl = [norm(e) for e in loops[0].target.elts]
        ifs = [n for n in loops[0].body if isinstance(n, ast.If)]
        why = 'the part is not selected by `%s < %s + %s`' % (o, ps, pl)
        for i in ifs:
            t = i.test
            if isinstance(t, ast.Compare) and len(t.ops) == 1 and isinstance(t.ops[0], ast.Lt) and lin(t.left) == Lin({o: 1}) and \
                    lin(t.comparators[0]) == Lin({ps: 1, pl: 1}):
                seeks = [c for st in i.body for c in ast.walk(st) if isinstance(c, ast.Call) and isinstance(c.func, ast.Attribute) and c.func.attr == 'seek']
                rets = [st for st in i.body if isinstance(st, ast.Return)]
                # the handle is shared (the opened image, the caller's file object): whoever used it last left it
                # anywhere, so the positioning may not depend on a condition (a remembered position, a flag)
                uncond = [c for c in _unconditional_calls(i.body) if isinstance(c.func, ast.Attribute) and c.func.attr == 'seek']
                why = 'the handle of the selected part is not positioned at start-in-handle + (offset - logical start of the part)'
                if len(seeks) == 1 and not uncond:
                    why = ('the positioning `%s` is executed only under a condition: the handle is shared with every other reader of the image and with the '
                           'caller, so a position remembered from the last read says nothing about where the handle is now' % norm(seeks[0]))
                elif len(seeks) == 1 and norm(seeks[0].func.value) == fp and seeks[0].args and lin(seeks[0].args[0]) == Lin({sp: 1, o: 1, ps: -1}) and \
                        (len(seeks[0].args) == 1 or norm(seeks[0].args[1]) in ('0', 'os.SEEK_SET', 'io.SEEK_SET')):
                    why = 'does not return (handle, bytes left in the part)'
                    if rets and isinstance(rets[0].value, ast.Tuple) and len(rets[0].value.elts) == 2 and norm(rets[0].value.elts[0]) == fp and \
                            lin(rets[0].value.elts[1]) == Lin({ps: 1, pl: 1, o: -1}):
                        ok, why = True, ''
    obs.append(Ob('SA-SEEK.position', '%s|positions the part that holds the offset' % sk.qual, ok, ctx.loc(sk, sk.node), why))
    # --- __enter__: parts are appended as (fp, fp.tell(), <logical start = length so far>, length), then the length grows by it
    ent = ci.methods.get('__enter__')
    if ent is None:
        raise AnalysisError('anchor-vanished %s.__enter__' % IO_CLASS)
    apps = [c for c in ctx.own_nodes(ent) if isinstance(c, ast.Call) and isinstance(c.func, ast.Attribute) and c.func.attr == 'append' and norm(c.func.value) == _self(PARTS)]
    ok, why = False, 'parts are not appended as (handle, handle.tell(), self.%s, length) followed by self.%s += length' % (LEN, LEN)
    if len(apps) == 1 and apps[0].args and isinstance(apps[0].args[0], ast.Tuple) and len(apps[0].args[0].elts) == 4:
        e = apps[0].args[0].elts
        st = ctx.enclosing_stmt(ent, apps[0])
        par = ctx.parents(ent)
        blk = None
        for fld in ('body', 'orelse'):
            b = getattr(par.get(id(st)), fld, None)
            if isinstance(b, list) and any(x is st for x in b):
                blk = b
        nxt = None
        if blk is not None:
            i = [k for k, x in enumerate(blk) if x is st][0]
            nxt = blk[i + 1] if i + 1 < len(blk) else None
        if norm(e[1]) == '%s.tell()' % norm(e[0]) and norm(e[2]) == _self(LEN) and isinstance(nxt, ast.AugAssign) and isinstance(nxt.op, ast.Add) and \
                norm(nxt.target) == _self(LEN) and norm(nxt.value) == norm(e[3]):
            ok, why = True, ''
    obs.append(Ob('SA-SEEK.position', '%s|parts are laid out back to back' % ent.qual, ok, ctx.loc(ent, ent.node), why))
    # the start position of a part is the position its context left the handle at: `fp.tell()` is taken in the iteration
    # that entered that context, with no other context entered in between (the parts of a file on the opened image share
    # one handle; entering the next part moves it)
    if len(apps) == 1 and apps[0].args and isinstance(apps[0].args[0], ast.Tuple) and len(apps[0].args[0].elts) == 4:
        fpn = apps[0].args[0].elts[0]
        st = ctx.enclosing_stmt(ent, apps[0])
        par = ctx.parents(ent)
        loop = par.get(id(st))
        ok2, why2 = False, 'the handle whose position is recorded is not bound by `... = <context>.__enter__()` in the same loop iteration'
        if isinstance(loop, ast.For) and isinstance(fpn, ast.Name):
            enters = [x for x in ast.walk(loop) if isinstance(x, ast.Call) and isinstance(x.func, ast.Attribute) and x.func.attr == '__enter__']
            binds = [x for x in loop.body if isinstance(x, ast.Assign) and isinstance(x.value, ast.Call) and isinstance(x.value.func, ast.Attribute) and
                     x.value.func.attr == '__enter__' and fpn.id in cfgmod.target_names(x.targets[0]) and x.lineno < st.lineno]
            if len(enters) == 1 and len(binds) == 1:
                ok2, why2 = True, ''
            elif not binds:
                why2 = ('`%s` comes from `%s`, not from entering its context in this iteration: by the time `%s.tell()` is taken every part has been entered, and parts that '
                        'share a handle (a multi-extent file on the opened image) all record the position of the last one' % (fpn.id, norm(loop.iter), fpn.id))
        obs.append(Ob('SA-SEEK.position', '%s|the start of a part is read right after that part was entered' % ent.qual, ok2, ctx.loc(ent, st), why2))
    # --- _read_parts: every handle read is preceded, in its iteration, by fp, left = self._seek_part(off); off starts at
    #     self._offset and grows by the length of what was read; the size is min(left, wanted)
    g = ctx.cfg(rd)
    reads = []
    for n in g.nodes:
        for c in _calls_in(n):
            if isinstance(c.func, ast.Attribute) and c.func.attr in ('read', 'readinto') and isinstance(c.func.value, ast.Name) and c.func.value.id != 'self':
                reads.append((n, c))
    if not reads:
        raise AnalysisError('anchor-vanished: no handle read in %s' % rd.qual)
    for n, c in reads:
        fpv = c.func.value.id
        key = '%s|%s' % (rd.qual, norm(c))
        # the positioning statement
        poss = [m for m in g.nodes if m.kind == 'stmt' and isinstance(m.ast, ast.Assign) and isinstance(m.ast.value, ast.Call) and
                _is_self_method(m.ast.value, SEEKER) and isinstance(m.ast.targets[0], ast.Tuple) and len(m.ast.targets[0].elts) == 2 and
                norm(m.ast.targets[0].elts[0]) == fpv]
        ok, why = False, 'the handle does not come from self.%s(...)' % SEEKER
        if len(poss) == 1:
            pn = poss[0]
            offv = norm(pn.ast.value.args[0]) if pn.ast.value.args else None
            leftv = norm(pn.ast.targets[0].elts[1])

            def transfer(x, st, lab):
                cur = st
                if x is pn:
                    return True
                for cc in _calls_in(x):
                    if cc is c:
                        continue
                    if isinstance(cc.func, ast.Attribute) and cc.func.attr in ('read', 'readinto', 'seek') and norm(cc.func.value) == fpv:
                        cur = False
                    if _is_self_method(cc, SEEKER) or _is_self_method(cc, READER):
                        cur = False
                if x.kind == 'stmt' and isinstance(x.ast, (ast.Assign, ast.AugAssign)) and x is not n:
                    tg = x.ast.targets if isinstance(x.ast, ast.Assign) else [x.ast.target]
                    if any(norm(t) == offv for t in tg):
                        cur = False
                return cur
            IN = g.forward(False, transfer, lambda a, b: a and b)
            why = 'a path reaches the read without a fresh self.%s(%s) (the handle is shared with every other reader of the image)' % (SEEKER, offv)
            if IN[n.id]:
                # the offset variable: starts at self._offset, advances by len(result)
                resvar = n.ast.targets[0].id if n.kind == 'stmt' and isinstance(n.ast, ast.Assign) and isinstance(n.ast.targets[0], ast.Name) else None
                defs = [x.ast for x in g.nodes if x.kind == 'stmt' and isinstance(x.ast, (ast.Assign, ast.AugAssign)) and
                        any(norm(t) == offv for t in (x.ast.targets if isinstance(x.ast, ast.Assign) else [x.ast.target]))]
                init = [d for d in defs if isinstance(d, ast.Assign) and norm(d.value) == _self(OFF)]
                adv = [d for d in defs if isinstance(d, ast.AugAssign) and isinstance(d.op, ast.Add) and resvar and norm(d.value) == 'len(%s)' % resvar]
                why = 'the offset handed to self.%s does not start at self.%s and advance by the length of each piece read' % (SEEKER, OFF)
                if len(init) == 1 and len(adv) == 1 and len(defs) == 2:
                    why = 'the size of the read is not min(bytes left in the part, bytes wanted)'
                    a0 = c.args[0] if c.args else None
                    if isinstance(a0, ast.Call) and isinstance(a0.func, ast.Name) and a0.func.id == 'min' and any(norm(x) == leftv for x in a0.args):
                        ok, why = True, ''
        obs.append(Ob('SA-SEEK.position', key, ok, ctx.loc(rd, c), why))
    # no other method touches a handle
    for fi in ci.methods.values():
        if fi.name in (READER, SEEKER, '__enter__', '__exit__', 'close'):
            continue
        bad = [c for c in ctx.own_nodes(fi) if isinstance(c, ast.Call) and isinstance(c.func, ast.Attribute) and c.func.attr in ('read', 'readinto', 'seek', 'tell') and
               not (isinstance(c.func.value, ast.Name) and c.func.value.id == 'self')]
        if bad:
            obs.append(Ob('SA-SEEK.position', '%s|%s' % (fi.qual, norm(bad[0])), False, ctx.loc(fi, bad[0]),
                          '%s uses a backing handle directly instead of going through self.%s / self.%s' % (fi.qual, SEEKER, READER)))
    return obs


def _remaining():
    return Lin({_self(LEN): 1, _self(OFF): -1})


def _pos():
    return Lin({_self(START): 1, _self(OFF): 1})


@rule('SA-SEEK.position')
@props('C16')
def position(ctx):
    ci, methods = _io_methods(ctx)
    if _multi(ctx):
        return _multi_helpers(ctx, ci)
    obs = []
    nreads = 0
    for fi in methods:
        g = ctx.cfg(fi)

        def transfer(n, st, lab):
            cur = st
            for c in _calls_in(n):
                if _is_self_call(c, FP, 'seek') and c.args and lin(c.args[0]) == _pos() and \
                        (len(c.args) == 1 or norm(c.args[1]) in ('0', 'os.SEEK_SET', 'io.SEEK_SET')):
                    cur = True
                elif _is_self_call(c, FP, 'seek') or _is_self_call(c, FP, 'read') or _is_self_call(c, FP, 'readinto'):
                    cur = False
                elif any(isinstance(a, ast.Attribute) and a.attr == FP for a in c.args):
                    cur = False
                elif isinstance(c.func, ast.Attribute) and isinstance(c.func.value, ast.Name) and \
                        c.func.value.id == 'self' and c.func.attr in ci.methods:
                    cur = False   # another method of the stream may move the handle
            if _writes_self_attr(n, OFF) is not None or _writes_self_attr(n, START) is not None:
                cur = False
            return cur

        # IN state before executing n; the read itself must see True *before* it runs,
        # so evaluate seek and read in the same node in source order.
        IN = g.forward(False, transfer, lambda a, b: a and b)
        for n in g.nodes:
            for c in _calls_in(n):
                if _is_self_call(c, FP, 'read') or _is_self_call(c, FP, 'readinto'):
                    nreads += 1
                    st = IN[n.id]
                    # a seek earlier in the same statement does not count (never happens in this code)
                    key = '%s|%s' % (fi.qual, norm(c))
                    ok = bool(st)
                    obs.append(Ob('SA-SEEK.position', key, ok, ctx.loc(fi, c),
                                  '' if ok else 'read on the shared handle self.%s is not preceded on every path by self.%s.seek(self.%s + self.%s): '
                                  'another reader of the same image may have moved the position' % (FP, FP, START, OFF)))
    if nreads == 0:
        raise AnalysisError('anchor-vanished: no read on self.%s in %s' % (FP, IO_CLASS))
    return obs


def _bounded(ctx, fi, g, rd, node, expr, depth=0):
    """expr (evaluated at node) is provably <= self._length - self._offset."""
    if depth > 6:
        return False
    if lin(expr) == _remaining():
        return True
    if isinstance(expr, ast.Call) and isinstance(expr.func, ast.Name) and expr.func.id == 'min':
        return any(_bounded(ctx, fi, g, rd, node, a, depth + 1) for a in expr.args)
    if isinstance(expr, ast.Name):
        IN = rd[node.id]
        if IN is None:
            return True
        defs = [g.nodes[d] for (nm, d) in IN if nm == expr.id]
        if not defs:
            return False
        for d in defs:
            if d.kind == 'stmt' and isinstance(d.ast, ast.Assign) and len(d.ast.targets) == 1 \
                    and isinstance(d.ast.targets[0], ast.Name):
                if not _bounded(ctx, fi, g, rd, d, d.ast.value, depth + 1):
                    return False
            else:
                return False
        return True
    return False


@rule('SA-SEEK.bound')
@props('C16')
def bound(ctx):
    ci, methods = _io_methods(ctx)
    obs = []
    for fi in methods:
        g = ctx.cfg(fi)
        rd = cfgmod.reaching_defs(g, [p.lstrip('*') for p in fi.params])
        for n in g.nodes:
            for c in _calls_in(n):
                if _is_read(ctx, c):
                    key = '%s|%s' % (fi.qual, norm(c))
                    if not c.args:
                        obs.append(Ob('SA-SEEK.bound', key, False, ctx.loc(fi, c), 'unbounded read() on the image handle'))
                        continue
                    ok = _bounded(ctx, fi, g, rd, n, c.args[0])
                    obs.append(Ob('SA-SEEK.bound', key, ok, ctx.loc(fi, c),
                                  '' if ok else 'size %s is not provably min(..., self.%s - self.%s): the read may run past the end of the file'
                                  % (norm(c.args[0]), LEN, OFF)))
    return obs


@rule('SA-PAIR.stream')
@props('C16')
def stream_pair(ctx):
    ci, methods = _io_methods(ctx)
    obs = []
    for fi in methods:
        g = ctx.cfg(fi)
        sdefs = ctx.single_defs(fi)
        rd = cfgmod.reaching_defs(g, [p.lstrip('*') for p in fi.params])
        reads = []
        for n in g.nodes:
            for c in _calls_in(n):
                if _is_read(ctx, c) and not (_multi(ctx) and fi.name == READER):
                    reads.append((n, c))
        for rn, c in reads:
            size = c.args[0] if c.args else None
            resvar = None
            if rn.kind == 'stmt' and isinstance(rn.ast, ast.Assign) and len(rn.ast.targets) == 1 and \
                    isinstance(rn.ast.targets[0], ast.Name) and rn.ast.value is c:
                resvar = rn.ast.targets[0].id

            def is_len_of_result(e):
                return isinstance(e, ast.Call) and isinstance(e.func, ast.Name) and e.func.id == 'len' and \
                    len(e.args) == 1 and isinstance(e.args[0], ast.Name) and e.args[0].id == resvar

            def amount_ok(e, at):
                if size is not None and lin(e) == lin(size):
                    return True
                if resvar is not None:
                    if is_len_of_result(e):
                        return True
                    if isinstance(e, ast.Name):
                        # every definition of the name reaching the update is len(<result>)
                        defs = [g.nodes[d] for (nm, d) in (rd[at.id] or ()) if nm == e.id]
                        if defs and all(d.kind == 'stmt' and isinstance(d.ast, ast.Assign) and is_len_of_result(d.ast.value)
                                        for d in defs):
                            return True
                return False

            def transfer(n, st, lab):
                if n is rn:
                    return True
                w = _writes_self_attr(n, OFF)
                if w is not None and st:
                    if isinstance(w, ast.AugAssign) and isinstance(w.op, ast.Add) and amount_ok(w.value, n):
                        return False
                    if isinstance(w, ast.Assign):
                        # self._offset = self._offset + amount
                        d = lin(w.value) - Lin({_self(OFF): 1})
                        if size is not None and d == lin(size):
                            return False
                return st

            IN = g.forward(False, transfer, lambda a, b: a or b)
            pend = IN[g.exit.id]
            key = '%s|%s' % (fi.qual, norm(c))
            ok = not pend
            obs.append(Ob('SA-PAIR.stream', key, ok, ctx.loc(fi, c),
                          '' if ok else 'a path from this read to the return does not add the bytes consumed to self.%s: '
                          'the logical position lags behind the handle and the next read returns bytes beyond the file' % OFF))
    return obs


@rule('SA-SEEK.seekmethod')
@props('C16')
def seekmethod(ctx):
    ci, methods = _io_methods(ctx)
    fi = ci.methods.get('seek')
    if fi is None:
        raise AnalysisError('anchor-vanished %s.seek' % IO_CLASS)
    obs = []
    g = ctx.cfg(fi)
    # (a) every branch of seek that returns normally assigns _offset
    # (b) each fp.seek(T, 0): the next _offset write W on every path satisfies T == _startpos + new_offset
    writes = [n for n in g.nodes if _writes_self_attr(n, OFF) is not None]
    multi = _multi(ctx)
    for n in g.nodes:
        for c in _calls_in(n):
            if not (_is_self_method(c, SEEKER) if multi else _is_self_call(c, FP, 'seek')):
                continue
            key = '%s|%s' % (fi.qual, norm(c))
            if not c.args:
                obs.append(Ob('SA-SEEK.seekmethod', key, False, ctx.loc(fi, c), 'seek without target'))
                continue
            target = lin(c.args[0]) if multi else lin(c.args[0]) - Lin({_self(START): 1})
            # first offset writes reachable from n without passing another offset write
            seen = set()
            stack = [n]
            firsts = []
            reaches_exit = False
            while stack:
                x = stack.pop()
                for m, lab in x.succ:
                    if m.id in seen:
                        continue
                    seen.add(m.id)
                    if m is g.exit:
                        reaches_exit = True
                        continue
                    if _writes_self_attr(m, OFF) is not None:
                        firsts.append(m)
                        continue
                    stack.append(m)
            ok = bool(firsts) and not reaches_exit
            why = ''
            if not ok:
                why = 'handle repositioned but self.%s is not updated on every path afterwards' % OFF
            for w in firsts:
                st = _writes_self_attr(w, OFF)
                if isinstance(st, ast.Assign):
                    newoff = lin(st.value)
                elif isinstance(st, ast.AugAssign) and isinstance(st.op, ast.Add):
                    newoff = Lin({_self(OFF): 1}) + lin(st.value)
                elif isinstance(st, ast.AugAssign) and isinstance(st.op, ast.Sub):
                    newoff = Lin({_self(OFF): 1}) - lin(st.value)
                else:
                    newoff = None
                if newoff != target:
                    ok = False
                    why = 'handle moved to %s(%r) but self.%s becomes %r' % ('logical offset ' if multi else 'self.%s + ' % START, target, OFF, newoff)
            obs.append(Ob('SA-SEEK.seekmethod', key, ok, ctx.loc(fi, c), why))
    # every normal return of seek is preceded by an _offset write unless it raised
    def transfer(n, st, lab):
        if _writes_self_attr(n, OFF) is not None:
            return True
        return st
    IN = g.forward(False, transfer, lambda a, b: a and b)
    ok = bool(IN[g.exit.id])
    obs.append(Ob('SA-SEEK.seekmethod', '%s|all-paths-set-offset' % fi.qual, ok, ctx.loc(fi, fi.node),
                  '' if ok else 'a path through seek() returns without storing the new position in self.%s' % OFF))
    # tell() returns _offset
    tell = ci.methods.get('tell')
    if tell is not None:
        rets = [n for n in ctx.own_nodes(tell) if isinstance(n, ast.Return)]
        ok = bool(rets) and all(r.value is not None and norm(r.value) == _self(OFF) for r in rets)
        obs.append(Ob('SA-SEEK.seekmethod', '%s|returns-offset' % tell.qual, ok, ctx.loc(tell, tell.node),
                      '' if ok else 'tell() does not return self.%s' % OFF))
    # __enter__ initialises _offset = 0 and _startpos = _fp.tell()
    ent = ci.methods.get('__enter__')
    if ent is None:
        raise AnalysisError('anchor-vanished %s.__enter__' % IO_CLASS)
    init = {}
    for n in ctx.own_nodes(ent):
        if isinstance(n, ast.Assign):
            for t in n.targets:
                if isinstance(t, ast.Attribute) and isinstance(t.value, ast.Name) and t.value.id == 'self':
                    init[t.attr] = norm(n.value)
    if multi:
        ok = init.get(OFF) == '0' and init.get(LEN) == '0'
        obs.append(Ob('SA-SEEK.seekmethod', '%s|initial-position' % ent.qual, ok, ctx.loc(ent, ent.node),
                      '' if ok else 'on entry self.%s must be 0 and self.%s start at 0 before the parts are added (got %s)' % (OFF, LEN, init)))
        return obs
    ok = init.get(OFF) == '0' and init.get(START) == 'self.%s.tell()' % FP
    obs.append(Ob('SA-SEEK.seekmethod', '%s|initial-position' % ent.qual, ok, ctx.loc(ent, ent.node),
                  '' if ok else 'on entry self.%s must be 0 and self.%s the position of the handle (got %s)' % (OFF, START, init)))
    return obs


@rule('SA-SEEK.opendata')
@props('C16')
def opendata(ctx):
    ci = ctx.cls('inode.InodeOpenData')
    fi = ci.methods.get('__enter__')
    if fi is None:
        raise AnalysisError('anchor-vanished inode.InodeOpenData.__enter__')
    g = ctx.cfg(fi)
    obs = []
    allowed = {
        repr(lin(ast.parse('self.ino.orig_extent_loc * self.logical_block_size', mode='eval').body)),
        repr(lin(ast.parse('self.ino.fp_offset', mode='eval').body)),
    }

    def is_seek(c):
        f = c.func
        return isinstance(f, ast.Attribute) and f.attr == 'seek' and norm(f.value) == 'self.data_fp'

    def transfer(n, st, lab):
        for c in _calls_in(n):
            if is_seek(c):
                return True
        if _writes_self_attr(n, 'data_fp') is not None:
            return False
        return st
    IN = g.forward(False, transfer, lambda a, b: a and b)
    ok = bool(IN[g.exit.id])
    obs.append(Ob('SA-SEEK.opendata', '%s|seek-before-return' % fi.qual, ok, ctx.loc(fi, fi.node),
                  '' if ok else 'a path returns the data handle without positioning it at the start of the file data'))
    nseek = 0
    for n in g.nodes:
        for c in _calls_in(n):
            if is_seek(c):
                nseek += 1
                if c.args and isinstance(c.args[0], ast.IfExp):
                    # seek(A if <data on the original image> else B): both arms are judged, under the test's polarity
                    from .. import expand as ex
                    ie = c.args[0]
                    t = norm(ex.expand(ctx, fi, ie.test, ctx.enclosing_stmt(fi, c), only='pure'))
                    positive = ('==' in t and 'DATA_ON_ORIGINAL_ISO' in t) or ('!=' in t and 'DATA_IN_EXTERNAL_FP' in t)
                    negative = ('!=' in t and 'DATA_ON_ORIGINAL_ISO' in t) or ('==' in t and 'DATA_IN_EXTERNAL_FP' in t)
                    a, b = repr(lin(ie.body)), repr(lin(ie.orelse))
                    if negative:
                        a, b = b, a
                    want_iso = repr(lin(ast.parse('self.ino.orig_extent_loc * self.logical_block_size', mode='eval').body))
                    want_ext = repr(lin(ast.parse('self.ino.fp_offset', mode='eval').body))
                    ok = (positive or negative) and a == want_iso and b == want_ext and (len(c.args) == 1 or norm(c.args[1]) in ('0', 'os.SEEK_SET'))
                    obs.append(Ob('SA-SEEK.opendata', '%s|branch-targets' % fi.qual, ok, ctx.loc(fi, c),
                                  '' if ok else 'data on the original image must be sought at orig_extent_loc * block size, external data at fp_offset (got %s / %s under `%s`)' % (a, b, t)))
                    continue
                tgt = repr(lin(c.args[0])) if c.args else '?'
                ok = tgt in allowed and (len(c.args) == 1 or norm(c.args[1]) in ('0', 'os.SEEK_SET'))
                obs.append(Ob('SA-SEEK.opendata', '%s|%s' % (fi.qual, norm(c)), ok, ctx.loc(fi, c),
                              '' if ok else 'seek target %s is neither orig_extent_loc * logical_block_size nor fp_offset' % tgt))
    # which target under which condition
    for n in g.nodes:
        if n.kind == 'test' and 'original_data_location' in norm(n.ast):
            t = norm(n.ast)
            tb = [m for m, lab in n.succ if lab == 'T']
            fb = [m for m, lab in n.succ if lab == 'F']
            def seek_tgt(ms):
                for m in ms:
                    for c in _calls_in(m):
                        if is_seek(c) and c.args:
                            return repr(lin(c.args[0]))
                return None
            want_iso = repr(lin(ast.parse('self.ino.orig_extent_loc * self.logical_block_size', mode='eval').body))
            want_ext = repr(lin(ast.parse('self.ino.fp_offset', mode='eval').body))
            positive = ('==' in t and 'DATA_ON_ORIGINAL_ISO' in t) or ('!=' in t and 'DATA_IN_EXTERNAL_FP' in t)
            negative = ('!=' in t and 'DATA_ON_ORIGINAL_ISO' in t) or ('==' in t and 'DATA_IN_EXTERNAL_FP' in t)
            if positive or negative:
                a, b = seek_tgt(tb), seek_tgt(fb)
                if negative:
                    a, b = b, a
                ok = a == want_iso and b == want_ext
                obs.append(Ob('SA-SEEK.opendata', '%s|branch-targets' % fi.qual, ok, ctx.loc(fi, n.ast),
                              '' if ok else 'data on the original image must be sought at orig_extent_loc * block size, external data at fp_offset (got %s / %s)' % (a, b)))
    # returns (data_fp, ino.data_length)
    for n in ctx.own_nodes(fi):
        if isinstance(n, ast.Return):
            ok = n.value is not None and norm(n.value).replace('(', '').replace(')', '') == 'self.data_fp, self.ino.data_length'
            obs.append(Ob('SA-SEEK.opendata', '%s|returns' % fi.qual, ok, ctx.loc(fi, n),
                          '' if ok else 'must hand out (handle, length of the inode data), got %s' % (norm(n.value) if n.value else None)))
    if nseek == 0:
        obs.append(Ob('SA-SEEK.opendata', '%s|no-seek' % fi.qual, False, ctx.loc(fi, fi.node), 'no seek at all'))
    return obs


@rule('SA-SEEK.copy')
@props('C16')
def copy_helpers(ctx):
    """utils.copy_data_yield / copy_data: read size = min(blocksize, left); left starts at
    data_length and decreases by what was consumed; loop guarded by left > 0."""
    obs = []
    for q in ('utils.copy_data_yield', 'utils.copy_data'):
        fi = ctx.m.functions.get(q)
        if fi is None:
            raise AnalysisError('anchor-vanished %s' % q)
        reads = []
        for n in ctx.own_nodes(fi):
            if isinstance(n, ast.Call) and isinstance(n.func, ast.Attribute) and n.func.attr == 'read' and \
                    isinstance(n.func.value, ast.Name) and n.func.value.id == 'infp':
                reads.append(n)
        lenparam = fi.params[0]
        g = ctx.cfg(fi)
        rd = cfgmod.reaching_defs(g, fi.params)
        for c in reads:
            node = g.node_of(ctx.enclosing_stmt(fi, c))
            key = '%s|%s' % (q, norm(c))
            ok, why = _copy_read_ok(ctx, fi, g, rd, node, c, lenparam)
            obs.append(Ob('SA-SEEK.copy', key, ok, ctx.loc(fi, c), why))
        if not reads:
            # copy_data may delegate to copy_data_yield or sendfile: require that it passes its
            # length parameter on unchanged
            deleg = [c for c in ctx.calls(fi) if c.callees and c.callees[0].qual == 'utils.copy_data_yield']
            ok = bool(deleg) and all(d.node.args and norm(d.node.args[0]) == lenparam for d in deleg)
            obs.append(Ob('SA-SEEK.copy', '%s|delegates-length' % q, ok, ctx.loc(fi, fi.node),
                          '' if ok else 'copy helper neither reads with a bounded size nor delegates its length unchanged'))
    return obs


def _copy_read_ok(ctx, fi, g, rd, node, c, lenparam):
    if not c.args:
        return False, 'unbounded read'
    size = c.args[0]
    # size must be min(..., left) where left's defs are the length parameter or `left -= consumed`
    def bounded(expr, at, depth=0):
        if depth > 5:
            return None
        if isinstance(expr, ast.Call) and isinstance(expr.func, ast.Name) and expr.func.id == 'min':
            for a in expr.args:
                r = bounded(a, at, depth + 1)
                if r:
                    return r
            return None
        if isinstance(expr, ast.Name):
            defs = [g.nodes[d] for (nm, d) in (rd[at.id] or ()) if nm == expr.id]
            if not defs:
                return None
            kinds = set()
            for d in defs:
                if d.kind == 'entry':
                    kinds.add('param' if expr.id == lenparam else 'otherparam')
                elif d.kind == 'stmt' and isinstance(d.ast, ast.Assign) and norm(d.ast.value) == lenparam:
                    kinds.add('param')
                elif d.kind == 'stmt' and isinstance(d.ast, ast.AugAssign) and isinstance(d.ast.op, ast.Sub):
                    kinds.add('dec')
                elif d.kind == 'stmt' and isinstance(d.ast, ast.Assign) and len(d.ast.targets) == 1 and isinstance(d.ast.targets[0], ast.Name):
                    r = bounded(d.ast.value, d, depth + 1)
                    if not r:
                        return None
                    kinds.add('via')
                else:
                    return None
            if 'otherparam' in kinds:
                return None
            return expr.id if kinds else None
        return None
    left = bounded(size, node)
    if not left:
        return False, 'read size %s is not min(..., remaining length)' % norm(size)
    return True, ''


@rule('SA-SEEK.advance')
@props('C16')
def advance(ctx):
    """Reading never moves the position backwards: in every method of the file object that reads, the amount added to
    the position (`self._offset += E`) is provably >= 0 under the conditions that hold there.  `length - offset` is
    negative once the caller has seeked past the end, so it may be added only behind a test that the position is inside
    the file (or that the amount is positive); a `size` argument only where it was found to be neither None nor
    negative.  An in-memory stream that is asked to read at a position past its end returns b'' and stays where it is;
    a position pulled back to the end makes every later relative seek and tell() disagree with it."""
    from .. import expand as ex
    ci, methods = _io_methods(ctx)
    obs = []
    n = 0
    for fi in methods:
        if fi.name in ('seek', '__init__'):
            continue
        if not any(_is_read(ctx, c) for nd in ctx.cfg(fi).nodes for c in _calls_in(nd)):
            continue
        g, RD = ex._rd(ctx, fi)
        dom = g.dominators()
        for st in ctx.own_nodes(fi):
            if not (isinstance(st, ast.AugAssign) and isinstance(st.op, ast.Add) and isinstance(st.target, ast.Attribute) and st.target.attr == OFF and
                    isinstance(st.target.value, ast.Name) and st.target.value.id == 'self'):
                continue
            n += 1
            why = _nonneg(ctx, fi, g, RD, dom, st.value, st, 0)
            obs.append(Ob('SA-SEEK.advance', '%s|self.%s += %s' % (fi.qual, OFF, norm(st.value)), why is None, ctx.loc(fi, st),
                          '' if why is None else 'the position is advanced by `%s`, which is not known to be >= 0 here (%s): after a seek beyond the end of the file the '
                          'read pulls the position back, and tell() / relative seeks no longer behave like those of an in-memory stream' % (norm(st.value), why)))
    if n < 1:
        raise AnalysisError('anchor-vanished: position updates in the reading methods of %s (%d)' % (IO_CLASS, n))
    return obs


def _facts(ctx, fi, st):
    from .. import expand as ex
    out = []
    for test, pol, at in ex.conditions(ctx, fi, st):
        for t, p in ex.conjuncts(test, pol):
            out.append((t, p, at))
    return out


def _nonneg(ctx, fi, g, RD, dom, e, st, depth):
    """None if e >= 0 whenever st executes, else a reason"""
    if depth > 6:
        return 'too deep'
    if isinstance(e, ast.Constant) and isinstance(e.value, int):
        return None if e.value >= 0 else 'negative constant'
    if isinstance(e, ast.Call) and isinstance(e.func, ast.Name) and e.func.id == 'len':
        return None
    if isinstance(e, ast.Call) and isinstance(e.func, ast.Name) and e.func.id == 'min' and e.args and not e.keywords:
        for a in e.args:
            w = _nonneg(ctx, fi, g, RD, dom, a, st, depth + 1)
            if w:
                return w
        return None
    if isinstance(e, ast.Call) and isinstance(e.func, ast.Name) and e.func.id == 'max' and e.args and not e.keywords:
        ws = [_nonneg(ctx, fi, g, RD, dom, a, st, depth + 1) for a in e.args]
        return None if any(w is None for w in ws) else ws[0]
    facts = _facts(ctx, fi, st)
    txt = norm(e).replace(' ', '')
    node = g.node_of(st)

    def fact_says_nonneg(t, p):
        if not (isinstance(t, ast.Compare) and len(t.ops) == 1):
            return False
        l, r, op = norm(t.left).replace(' ', ''), norm(t.comparators[0]).replace(' ', ''), t.ops[0]
        if l == txt and r == '0':
            return (p and isinstance(op, (ast.Gt, ast.GtE))) or (not p and isinstance(op, ast.Lt))
        if r == txt and l == '0':
            return (p and isinstance(op, (ast.Lt, ast.LtE))) or (not p and isinstance(op, ast.Gt))
        return False
    if isinstance(e, ast.Name):
        defs = sorted(set(d for nm, d in (RD.get(node.id) if node is not None else ()) or () if nm == e.id))
        for t, p, at in facts:
            if fact_says_nonneg(t, p):
                # the test speaks about the value that is used if every definition reaching the use reaches the test too
                tn = g.node_of(at) if isinstance(at, ast.stmt) else None
                if tn is not None:
                    at_test = set(d for nm, d in (RD.get(tn.id) or ()) if nm == e.id)
                    rest = [d for d in defs if d not in at_test]
                    if all(isinstance(g.nodes[d].stmt, ast.Assign) and _nonneg(ctx, fi, g, RD, dom, g.nodes[d].stmt.value, g.nodes[d].stmt, depth + 1) is None for d in rest):
                        return None
        real = [d for d in defs if g.nodes[d].stmt is not None and g.nodes[d].kind == 'stmt']
        if real and len(real) == len(defs) and all(isinstance(g.nodes[d].stmt, ast.Assign) for d in real):
            for d in real:
                w = _nonneg(ctx, fi, g, RD, dom, g.nodes[d].stmt.value, g.nodes[d].stmt, depth + 1)
                if w:
                    return w
            return None
        return '`%s` is not tested against 0 on the way' % e.id
    if isinstance(e, ast.BinOp) and isinstance(e.op, ast.Sub):
        a, b = norm(e.left).replace(' ', ''), norm(e.right).replace(' ', '')
        for t, p, _at in facts:
            if fact_says_nonneg(t, p):
                return None
            if isinstance(t, ast.Compare) and len(t.ops) == 1:
                l, r, op = norm(t.left).replace(' ', ''), norm(t.comparators[0]).replace(' ', ''), t.ops[0]
                if l == b and r == a and ((not p and isinstance(op, (ast.GtE, ast.Gt))) or (p and isinstance(op, (ast.Lt, ast.LtE)))):
                    return None
                if l == a and r == b and ((p and isinstance(op, (ast.Gt, ast.GtE))) or (not p and isinstance(op, (ast.Lt, ast.LtE)))):
                    return None
        return 'nothing on the way says that %s has not passed %s' % (norm(e.right), norm(e.left))
    for t, p, _at in facts:
        if fact_says_nonneg(t, p):
            return None
    return 'no test of `%s` against 0 on the way' % norm(e)
