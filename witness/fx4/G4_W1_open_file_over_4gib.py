#!/usr/bin/env python
"""
Witness for observation A: open_file_from_iso on a file larger than 4 GiB only
sees the first extent.

A file of 5 GiB is stored as two directory records (4294965248 + 1073743872
bytes), each with an inode of its own.  PyCdlibIO was built from the inode of
the first record only, so length() was 4294965248 and nothing behind that
could be read or reached with seek.

Usage: W1_open_file_over_4gib.py <path-to-checkout>
No real data is used: the source is a synthetic file of zeros with a few
markers, the image is written to an in-memory sparse file.
"""
import os
import random
import shutil
import sys
import tempfile

sys.path.insert(0, sys.argv[1])

import pycdlib  # noqa: E402

GIB = 1 << 30
PART = 0xfffff800  # the most that pycdlib stores in one directory record
LENGTH = 5 * GIB
BLOCKSIZE = 1 << 24
MARKERS = {
    0: b'HEAD-OF-FILE',
    PART - 8: b'end-of-1start-of-2',
    LENGTH - 12: b'TAIL-OF-FILE',
}
SMALL = b'small file ' * 300

_ZEROS = {}


def zeros(n):
    """A shared bytes object of n zero bytes (comparing it to itself is free)."""
    if n not in _ZEROS:
        if len(_ZEROS) > 8:
            _ZEROS.clear()
        _ZEROS[n] = bytes(n)
    return _ZEROS[n]


class Synth(object):
    """A read-only seekable file of zeros with a few marker strings in it."""
    mode = 'rb'

    def __init__(self, length, markers):
        self.length = length
        self.markers = markers
        self.pos = 0

    def seek(self, off, whence=0):
        if whence == 0:
            self.pos = off
        elif whence == 1:
            self.pos += off
        else:
            self.pos = self.length + off
        return self.pos

    def tell(self):
        return self.pos

    def read(self, n=-1):
        if n is None or n < 0:
            n = self.length - self.pos
        n = max(0, min(n, self.length - self.pos))
        start = self.pos
        self.pos += n
        hits = [(off, m) for off, m in self.markers.items()
                if off < start + n and off + len(m) > start]
        if not hits:
            return zeros(n)
        buf = bytearray(n)
        for off, m in hits:
            lo = max(off, start)
            hi = min(off + len(m), start + n)
            buf[lo - start:hi - start] = m[lo - off:hi - off]
        return bytes(buf)


class Sparse(object):
    """A read/write seekable file that stores only blocks that are not zero."""
    mode = 'r+b'
    BS = 2048

    def __init__(self):
        self.blocks = {}
        self.size = 0
        self.pos = 0

    def seek(self, off, whence=0):
        if whence == 0:
            self.pos = off
        elif whence == 1:
            self.pos += off
        else:
            self.pos = self.size + off
        return self.pos

    def tell(self):
        return self.pos

    def _put(self, b, off, piece):
        blk = bytearray(self.blocks.get(b, bytes(self.BS)))
        blk[off - b * self.BS:off - b * self.BS + len(piece)] = piece
        if any(blk):
            self.blocks[b] = bytes(blk)
        else:
            self.blocks.pop(b, None)

    def write(self, data):
        n = len(data)
        start = self.pos
        self.pos += n
        self.size = max(self.size, self.pos)
        if data == zeros(n):
            for b in [b for b in self.blocks
                      if start // self.BS <= b <= (start + n) // self.BS]:
                lo = max(start, b * self.BS)
                hi = min(start + n, (b + 1) * self.BS)
                if lo < hi:
                    self._put(b, lo, bytes(hi - lo))
            return n
        off = start
        while off < start + n:
            b = off // self.BS
            end = min(start + n, (b + 1) * self.BS)
            self._put(b, off, data[off - start:end - start])
            off = end
        return n

    def read(self, n=-1):
        if n is None or n < 0:
            n = self.size - self.pos
        n = max(0, min(n, self.size - self.pos))
        start = self.pos
        self.pos += n
        first = start // self.BS
        last = (start + n + self.BS - 1) // self.BS
        if last - first > len(self.blocks):
            hit = [b for b in self.blocks if first <= b < last]
        else:
            hit = [b for b in range(first, last) if b in self.blocks]
        if not hit:
            return zeros(n)
        buf = bytearray(n)
        for b in hit:
            lo = max(start, b * self.BS)
            hi = min(start + n, (b + 1) * self.BS)
            buf[lo - start:hi - start] = self.blocks[b][lo - b * self.BS:hi - b * self.BS]
        return bytes(buf)


def exercise(what, iso, kwargs, problems):
    """Use the stream like an in-memory binary stream and compare."""
    ref = Synth(LENGTH, MARKERS)

    def note(msg):
        problems.append('%s %s: %s' % (what, kwargs, msg))

    with iso.open_file_from_iso(**kwargs) as fp:
        if fp.length() != LENGTH:
            note('length() is %d, expected %d' % (fp.length(), LENGTH))
        if fp.seek(0, 2) != LENGTH or fp.tell() != LENGTH:
            note('seek(0, 2) goes to %d, expected %d' % (fp.tell(), LENGTH))
        fp.seek(0)
        if fp.read(12) != b'HEAD-OF-FILE':
            note('wrong bytes at the start')

        # read over the border between the two parts
        fp.seek(PART - 8)
        got = fp.read(18)
        if got != b'end-of-1start-of-2':
            note('read(18) at %d gives %r' % (PART - 8, got))
        if fp.tell() != PART + 10 and got:
            note('tell() after that read is %d, expected %d' % (fp.tell(), PART + 10))
        fp.seek(PART - 3)
        buf = bytearray(9)
        n = fp.readinto(buf)
        if n != 9 or bytes(buf) != b'f-1start-':
            note('readinto(9 bytes) at %d gives %d, %r' % (PART - 3, n, bytes(buf)))
        fp.seek(PART)
        got = fp.read(10)
        if got != b'start-of-2':
            note('read(10) at %d gives %r' % (PART, got))

        # the end of the file
        try:
            fp.seek(-12, 2)
            got = fp.readall()
        except Exception as e:  # pylint: disable=broad-except
            got = repr(e)
        if got != b'TAIL-OF-FILE':
            note('seek(-12, 2) + readall() gives %r' % (got[:40],))
        fp.seek(LENGTH - 5)
        got = fp.read(100)
        if got != b'-FILE':
            note('read(100) five bytes before the end gives %r' % (got[:40],))
        if fp.read(10) != b'':
            note('read at the end gives data')

        # a fixed pseudo-random walk, with a second open file in between
        rnd = random.Random(16)
        spots = [0, PART, LENGTH, PART // 2, PART + (LENGTH - PART) // 2]
        with iso.open_file_from_iso(iso_path='/SMALL.;1') as other:
            for step in range(300):
                pos = rnd.choice(spots) + rnd.randint(-40, 40)
                pos = max(0, min(pos, LENGTH + 20))
                size = rnd.randint(0, 60)
                if rnd.random() < 0.5:
                    fp.seek(pos)
                else:
                    fp.seek(pos - fp.tell(), 1)
                ref.seek(pos)
                if fp.tell() != pos:
                    note('step %d: tell() is %d after seeking to %d' % (step, fp.tell(), pos))
                    break
                got = fp.read(size)
                exp = ref.read(size)
                if got != exp:
                    note('step %d: read(%d) at %d gives %r, expected %r' % (step, size, pos, got, exp))
                    break
                opos = rnd.randint(0, len(SMALL))
                other.seek(opos)
                if other.read(size) != SMALL[opos:opos + size]:
                    note('step %d: the other open file reads wrong bytes' % (step))
                    break


def main():
    problems = []

    iso = pycdlib.PyCdlib()
    iso.new(interchange_level=3, joliet=3)
    iso.add_fp(Synth(LENGTH, MARKERS), LENGTH, '/BIG.;1', joliet_path='/big')
    iso.add_fp(Synth(len(SMALL), {0: SMALL}), len(SMALL), '/SMALL.;1', joliet_path='/small')

    exercise('new image', iso, {'iso_path': '/BIG.;1'}, problems)
    exercise('new image', iso, {'joliet_path': '/big'}, problems)

    img = Sparse()
    iso.write_fp(img, blocksize=BLOCKSIZE)
    iso.close()

    iso2 = pycdlib.PyCdlib()
    iso2.open_fp(img)
    exercise('reopened image', iso2, {'iso_path': '/BIG.;1'}, problems)
    exercise('reopened image', iso2, {'joliet_path': '/big'}, problems)
    iso2.close()

    # The same with add_file, where pycdlib opens the (sparse) file by name.
    tmpdir = tempfile.mkdtemp()
    try:
        name = os.path.join(tmpdir, 'big')
        with open(name, 'wb') as outfp:
            outfp.truncate(LENGTH)
            for off, m in MARKERS.items():
                outfp.seek(off)
                outfp.write(m)
        iso3 = pycdlib.PyCdlib()
        iso3.new(interchange_level=3)
        iso3.add_file(name, '/BIG.;1')
        iso3.add_fp(Synth(len(SMALL), {0: SMALL}), len(SMALL), '/SMALL.;1')
        exercise('new image, add_file', iso3, {'iso_path': '/BIG.;1'}, problems)
        iso3.close()
    finally:
        shutil.rmtree(tmpdir)

    if problems:
        print('DEFECT: open_file_from_iso does not give the whole file of 5 GiB')
        for p in problems[:25]:
            print('  ' + p)
        if len(problems) > 25:
            print('  ... and %d more' % (len(problems) - 25))
        return 1
    print('OK')
    return 0


if __name__ == '__main__':
    sys.exit(main())
