# Observation B: add_symlink() must refuse an illegal Rock Ridge name for the
# symlink (one with a slash, an empty one) like add_fp/add_directory do, and
# the refusal must leave the image unchanged.
import io
import os
import sys
import tempfile

sys.path.insert(0, sys.argv[1])

import pycdlib
from pycdlib import pycdlibexception


def fresh():
    iso = pycdlib.PyCdlib()
    iso.new(rock_ridge='1.09', joliet=3, vol_set_ident='W2', vol_ident='W2')
    iso.add_fp(io.BytesIO(b'target\n'), 7, '/TARGET.;1', rr_name='target', joliet_path='/target')
    return iso


def normalized(iso):
    out = io.BytesIO()
    iso.write_fp(out)
    return out.getvalue()


def rr_names(iso):
    return sorted(c.rock_ridge.name() for c in iso.list_children(iso_path='/')
                  if c.rock_ridge is not None and not c.is_dot() and not c.is_dotdot())


def main():
    os.chdir(tempfile.mkdtemp())
    problems = []

    for label, badname in (('slash', 'a/b'), ('empty', ''), ('leading slash', '/abs'),
                           ('lone surrogate', 'x\udc80')):
        iso = fresh()
        before = rr_names(iso)
        try:
            iso.add_symlink('/SYM.;1', badname, 'target', joliet_path='/sym')
        except pycdlibexception.PyCdlibInvalidInput:
            pass
        except Exception as e:  # pylint: disable=broad-except
            problems.append('%s: %r raised %s instead of PyCdlibInvalidInput' % (label, badname, type(e).__name__))
            iso.close()
            continue
        else:
            problems.append('%s: rr_symlink_name %r was accepted; Rock Ridge names now %r'
                            % (label, badname, rr_names(iso)))
            iso.close()
            continue
        # refused: nothing may have changed, and a good symlink still works
        if rr_names(iso) != before:
            problems.append('%s: names changed by a refused add_symlink' % label)
        try:
            iso.get_record(iso_path='/SYM.;1')
            problems.append('%s: /SYM.;1 exists after the refusal' % label)
        except pycdlibexception.PyCdlibInvalidInput:
            pass
        try:
            iso.get_record(joliet_path='/sym')
            problems.append('%s: Joliet /sym exists after the refusal' % label)
        except pycdlibexception.PyCdlibInvalidInput:
            pass
        iso.add_symlink('/SYM.;1', 'sym', 'target', joliet_path='/sym')
        data = normalized(iso)
        iso.close()
        iso2 = pycdlib.PyCdlib()
        iso2.open_fp(io.BytesIO(data))
        rec = iso2.get_record(rr_path='/sym')
        if not rec.is_symlink() or rec.rock_ridge.symlink_path() != b'target':
            problems.append('%s: good symlink after refusal is wrong' % label)
        iso2.close()

    # legal names must of course still work
    iso = fresh()
    iso.add_symlink('/SYM.;1', 'sym', 'a/b/../target', joliet_path='/sym')
    if 'sym'.encode() not in rr_names(iso):
        problems.append('legal symlink name missing')
    normalized(iso)
    iso.close()

    if problems:
        for p in problems:
            print(p)
        return 1
    print('OK')
    return 0


sys.exit(main())
