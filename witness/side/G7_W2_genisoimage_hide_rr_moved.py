"""
pycdlib-genisoimage -hide-rr-moved always fails: the tool calls
PyCdlib.set_relocated_name() before PyCdlib.new(), so it dies with
'This object is not initialized' instead of naming the relocation directory
'.rr_moved'.
"""
import io
import os
import shutil
import subprocess
import sys
import tempfile

checkout = os.path.abspath(sys.argv[1])
sys.path.insert(0, checkout)
import pycdlib  # noqa: E402


def main():
    tmpdir = tempfile.mkdtemp()
    problems = []
    try:
        src = os.path.join(tmpdir, 'src')
        deep = src
        for num in range(1, 10):
            deep = os.path.join(deep, 'dir%d' % (num))
        os.makedirs(deep)
        with open(os.path.join(deep, 'deep.txt'), 'wb') as outfp:
            outfp.write(b'deep\n')

        tool = os.path.join(checkout, 'tools', 'pycdlib-genisoimage')
        env = dict(os.environ, PYTHONPATH=checkout)
        isoname = os.path.join(tmpdir, 'out.iso')

        def run(*opts):
            proc = subprocess.run([sys.executable, tool, '-quiet'] + list(opts) + ['-o', isoname, src],
                                  env=env, stdout=subprocess.PIPE,
                                  stderr=subprocess.PIPE, universal_newlines=True)
            if proc.returncode != 0:
                lines = proc.stderr.strip().splitlines() or ['(no stderr)']
                problems.append('genisoimage %s exited with %d: %s' % (' '.join(opts), proc.returncode, lines[-1]))
                return False
            return True

        if run('-R', '-hide-rr-moved'):
            iso = pycdlib.PyCdlib()
            iso.open(isoname)
            try:
                names = {}
                for child in iso.list_children(iso_path='/'):
                    if child.is_dot() or child.is_dotdot():
                        continue
                    names[child.file_identifier()] = child.rock_ridge.name()
                if names.get(b'_RR_MOVE') != b'.rr_moved':
                    problems.append("root directory has %r, expected the relocation directory _RR_MOVE/.rr_moved" % (names))
                out = io.BytesIO()
                iso.get_file_from_iso_fp(out, rr_path='/dir1/dir2/dir3/dir4/dir5/dir6/dir7/dir8/dir9/deep.txt')
                if out.getvalue() != b'deep\n':
                    problems.append('the relocated file has the wrong contents')
            finally:
                iso.close()

        # Without Rock Ridge there is nothing to rename; genisoimage ignores
        # the option then.
        run('-hide-rr-moved')
    finally:
        shutil.rmtree(tmpdir, ignore_errors=True)

    if problems:
        for problem in problems:
            print(problem)
        return 1
    print('OK')
    return 0


if __name__ == '__main__':
    sys.exit(main())
