"""add_symlink() of a UDF-only symlink (no Rock Ridge) with a Joliet path.

The call is valid: on an image with Joliet and UDF but without Rock Ridge the ISO9660 and the Joliet
name of a UDF symlink are zero-length placeholders.  The defect: the Joliet placeholder is added
twice (once together with the ISO9660 placeholder, once by the Joliet step of add_symlink), so the
call is refused with "Failed adding duplicate name to parent" - after the ISO9660 and Joliet
placeholders and the UDF entry have been added, which leaves the object unusable.

Usage: W1_udf_symlink_joliet_twice.py <path-to-checkout>"""
import io
import os
import sys
import tempfile

sys.path.insert(0, sys.argv[1])
import pycdlib


def tree(iso, kind):
    items = []
    for root, dirs, files in iso.walk(**{kind: '/'}):
        for name in dirs + files:
            items.append(root.rstrip('/') + '/' + name)
    return sorted(items)


def main():
    problems = []
    iso = pycdlib.PyCdlib()
    iso.new(joliet=3, udf='2.60')
    iso.add_fp(io.BytesIO(b'f\n'), 2, '/F.;1', joliet_path='/f', udf_path='/f')
    try:
        iso.add_symlink('/SYM.;1', joliet_path='/sym', udf_symlink_path='/sym', udf_target='f')
    except Exception as e:     # noqa
        problems.append('the valid call was refused: %s: %s' % (type(e).__name__, e))

    with tempfile.TemporaryDirectory() as tmp:
        path = os.path.join(tmp, 'out.iso')
        try:
            iso.write(path)
        except Exception as e:     # noqa
            problems.append('write after the call raised %s: %s' % (type(e).__name__, e))
        else:
            back = pycdlib.PyCdlib()
            back.open(path)
            want = {'iso_path': ['/F.;1', '/SYM.;1'], 'joliet_path': ['/f', '/sym'], 'udf_path': ['/f', '/sym']}
            for kind in sorted(want):
                got = tree(back, kind)
                if got != want[kind]:
                    problems.append('%s tree of the written image is %r, expected %r' % (kind, got, want[kind]))
            if not problems:
                rec = back.get_record(udf_path='/sym')
                if not rec.is_symlink():
                    problems.append('UDF /sym is not a symlink in the written image')
            back.close()
    iso.close()

    if problems:
        print('\n'.join(problems))
        return 1
    print('OK')
    return 0


if __name__ == '__main__':
    sys.exit(main())
