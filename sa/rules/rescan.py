"""SA-GATE.rescan: a name that is changed because it clashes is compared with every existing name again (C18, C13).

Where the library derives a free identifier by trial - `for child in siblings: if child.file_ident == name: name =
<next candidate>` - the new candidate has been compared only with the siblings that come after the clash.  The scan has
to start over (`break` out of the `for` inside a `while True` whose `else: break` ends it once a whole pass found no
clash), because nothing orders the candidates with respect to the siblings already passed: since the candidate is cut
to the field width before the number is appended, `INCLU000` sorts *before* `INCLUDE`, and a single forward pass over
the sorted children reports a taken identifier as free.  The library then refuses its own derived name ("Failed adding
duplicate name to parent") after the edit has begun.

Decided: in a `for` loop over a collection, a local that is compared with an attribute of the loop variable and
assigned inside that comparison's branch is followed, in that branch, by `break`, and the `for` is the body of a loop
that repeats it (`while`).  Not decided: that the sequence of candidates is exhaustive or the field width right (SA-GATE.iso_name).
"""
import ast

from ..registry import rule, props
from ..report import Ob
from ..model import norm
from .. import cfg as cfgmod


@rule('SA-GATE.rescan')
@props('C18', 'C13')
def rescan(ctx):
    obs = []
    n = 0
    par_cache = {}
    for fi in ctx.m.pkg_functions():
        for loop in ctx.own_nodes(fi):
            if not isinstance(loop, ast.For):
                continue
            lvars = set(cfgmod.target_names(loop.target))
            for iff in ast.walk(loop):
                if not isinstance(iff, ast.If):
                    continue
                t = iff.test
                if not (isinstance(t, ast.Compare) and len(t.ops) == 1 and isinstance(t.ops[0], ast.Eq)):
                    continue
                sides = [t.left, t.comparators[0]]
                names = [s for s in sides if isinstance(s, ast.Name) and s.id not in lvars]
                others = [s for s in sides if not (isinstance(s, ast.Name) and s.id not in lvars)]
                if len(names) != 1 or len(others) != 1:
                    continue
                o = others[0]
                base = o
                while isinstance(base, (ast.Attribute, ast.Call)):
                    base = base.value if isinstance(base, ast.Attribute) else base.func
                if not (isinstance(base, ast.Name) and base.id in lvars):
                    continue
                nm = names[0].id
                assigns = [i for i, st in enumerate(iff.body) if isinstance(st, ast.Assign) and any(isinstance(x, ast.Name) and x.id == nm for x in st.targets)]
                if not assigns:
                    continue
                n += 1
                par = par_cache.setdefault(fi.qual, ctx.parents(fi))
                has_break = any(isinstance(st, ast.Break) for st in iff.body[assigns[-1] + 1:])
                outer = par.get(id(loop))
                repeated = isinstance(outer, ast.While)
                ok = has_break and repeated
                obs.append(Ob('SA-GATE.rescan', '%s|%s renamed on a clash with %s' % (fi.qual, nm, norm(o)[:40]), ok, ctx.loc(fi, iff),
                              '' if ok else '`%s` is replaced by the next candidate when it equals `%s`, and the scan over `%s` %s: the new candidate is never compared with '
                              'the entries already passed (a candidate cut to the field width sorts before the name it replaces), so a taken name can be chosen and the '
                              'insertion that follows refuses it' % (nm, norm(o), norm(loop.iter)[:50],
                                                                     'goes on from where it is' if not has_break else 'is not repeated by an enclosing loop')))
    obs.append(Ob('SA-GATE.rescan', 'rename-on-clash scans examined', True, '', '%d' % n))
    return obs
