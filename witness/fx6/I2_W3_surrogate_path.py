#!/usr/bin/env python
"""
Observation C: a path or Rock Ridge name with a lone surrogate (what
os.listdir() returns for a file name that is not valid UTF-8) cannot be
recorded; the edit has to be refused with PyCdlibInvalidInput, but a
UnicodeEncodeError escapes instead.

usage: W3_surrogate_path.py <path-to-checkout>
"""
import io
import sys

sys.path.insert(0, sys.argv[1])

import pycdlib
from pycdlib import pycdlibexception

problems = []


def fresh():
    iso = pycdlib.PyCdlib()
    iso.new(interchange_level=4, joliet=3, udf='2.60', rock_ridge='1.09')
    iso.add_fp(io.BytesIO(b'x'), 1, '/b', rr_name='b', joliet_path='/b', udf_path='/b')
    return iso


def snapshot(iso):
    return ([c.file_identifier() for c in iso.list_children(iso_path='/')],
            [c.file_identifier() for c in iso.list_children(joliet_path='/')],
            [c.file_identifier() for c in iso.list_children(udf_path='/') if c is not None])


def expect_refused(what, fn):
    iso = fresh()
    before = snapshot(iso)
    try:
        fn(iso)
    except pycdlibexception.PyCdlibInvalidInput:
        if snapshot(iso) != before:
            problems.append('%s: refused, but the image was changed' % (what))
    except Exception as e:  # pylint: disable=broad-except
        problems.append('%s: raised %s instead of PyCdlibInvalidInput' % (what, type(e).__name__))
    else:
        problems.append('%s: accepted' % (what))
    iso.close()


BAD = 'a\udc80'
fp = lambda: io.BytesIO(b'y')
expect_refused('add_fp(iso_path)', lambda iso: iso.add_fp(fp(), 1, '/' + BAD, rr_name='a', joliet_path='/a', udf_path='/a'))
expect_refused('add_fp(rr_name)', lambda iso: iso.add_fp(fp(), 1, '/a', rr_name=BAD, joliet_path='/a', udf_path='/a'))
expect_refused('add_fp(joliet_path)', lambda iso: iso.add_fp(fp(), 1, '/a', rr_name='a', joliet_path='/' + BAD, udf_path='/a'))
expect_refused('add_fp(udf_path)', lambda iso: iso.add_fp(fp(), 1, '/a', rr_name='a', joliet_path='/a', udf_path='/' + BAD))
expect_refused('add_directory(iso_path)', lambda iso: iso.add_directory('/' + BAD, rr_name='a', joliet_path='/a', udf_path='/a'))
expect_refused('add_directory(rr_name)', lambda iso: iso.add_directory('/a', rr_name=BAD, joliet_path='/a', udf_path='/a'))
expect_refused('add_directory(joliet_path)', lambda iso: iso.add_directory('/a', rr_name='a', joliet_path='/' + BAD, udf_path='/a'))
expect_refused('add_directory(udf_path)', lambda iso: iso.add_directory('/a', rr_name='a', joliet_path='/a', udf_path='/' + BAD))
expect_refused('add_hard_link(iso_new_path)', lambda iso: iso.add_hard_link(iso_old_path='/b', iso_new_path='/' + BAD, rr_name='a'))
expect_refused('add_hard_link(rr_name)', lambda iso: iso.add_hard_link(iso_old_path='/b', iso_new_path='/a', rr_name=BAD))
expect_refused('add_hard_link(joliet_new_path)', lambda iso: iso.add_hard_link(iso_old_path='/b', joliet_new_path='/' + BAD))
expect_refused('add_hard_link(udf_new_path)', lambda iso: iso.add_hard_link(iso_old_path='/b', udf_new_path='/' + BAD))
expect_refused('add_symlink(symlink_path)', lambda iso: iso.add_symlink('/' + BAD, rr_symlink_name='s', rr_path='b'))
expect_refused('add_symlink(joliet_path)', lambda iso: iso.add_symlink('/s', rr_symlink_name='s', rr_path='b', joliet_path='/' + BAD))
expect_refused('add_symlink(udf_symlink_path)', lambda iso: iso.add_symlink(udf_symlink_path='/' + BAD, udf_target='b'))
expect_refused('set_relocated_name(rr_name)', lambda iso: iso.set_relocated_name('XX_MOVED', BAD))
# Looking such a name up cannot succeed either; same error type.
expect_refused('get_record(iso_path)', lambda iso: iso.get_record(iso_path='/' + BAD))
expect_refused('get_record(rr_path)', lambda iso: iso.get_record(rr_path='/' + BAD))

# Sanity: names outside ASCII that can be encoded are still fine.
iso = fresh()
iso.add_fp(fp(), 1, '/é', rr_name='é', joliet_path='/é', udf_path='/é')
if iso.get_record(rr_path='/é').file_identifier() != 'é'.encode('utf-8'):
    problems.append('a legal non-ASCII name was not recorded')
iso.close()

if problems:
    print('\n'.join(problems))
    sys.exit(1)
print('OK')
