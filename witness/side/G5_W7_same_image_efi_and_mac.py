"""
When the same file is the boot image of both 0xef El Torito sections (EFI and
Mac) and the ISO is hybridised with mac=True, the second section is skipped
because its file already has an extent: the Mac partition (MBR partition 3, GPT
partition 3) is written with start 0 and length 0 instead of delimiting the image.
"""
import io
import struct
import sys

sys.path.insert(0, sys.argv[1])
import pycdlib  # noqa: E402

BOOT = b'\x00' * 0x40 + b'\xfb\xc0\x78\x70'


def build(same, hardlink):
    iso = pycdlib.PyCdlib()
    iso.new()
    iso.add_fp(io.BytesIO(BOOT), len(BOOT), '/ISOLINUX.BIN;1')
    iso.add_eltorito('/ISOLINUX.BIN;1', boot_load_size=4)
    iso.add_fp(io.BytesIO(b'E' * 3000), 3000, '/EFIBOOT.IMG;1')
    if hardlink:
        iso.add_hard_link(iso_old_path='/EFIBOOT.IMG;1', iso_new_path='/EFICOPY.IMG;1')
    iso.add_eltorito('/EFIBOOT.IMG;1', efi=True)
    if same:
        iso.add_eltorito('/EFIBOOT.IMG;1', efi=True)
    else:
        iso.add_fp(io.BytesIO(b'M' * 5000), 5000, '/MACBOOT.IMG;1')
        iso.add_eltorito('/MACBOOT.IMG;1', efi=True)
    iso.add_isohybrid(mac=True)
    out = io.BytesIO()
    iso.write_fp(out)
    iso.close()
    return out.getvalue()


def check(raw, what, mac_name):
    problems = []
    iso = pycdlib.PyCdlib()
    iso.open_fp(io.BytesIO(raw))
    efi_rec = iso.get_record(iso_path='/EFIBOOT.IMG;1')
    mac_rec = iso.get_record(iso_path=mac_name)
    entries = [e for s in iso.eltorito_boot_catalog.sections for e in s.section_entries]
    rbas = [e.load_rba for e in entries]
    counts = [e.sector_count for e in entries]
    iso.close()
    if rbas != [efi_rec.extent_location(), mac_rec.extent_location()]:
        problems.append('%s: section entries load %r, images are at %d and %d'
                        % (what, rbas, efi_rec.extent_location(), mac_rec.extent_location()))

    parr = struct.unpack_from('<Q', raw, 512 + 72)[0] * 512
    for num, rec, count, name in ((2, efi_rec, counts[0], 'EFI'), (3, mac_rec, counts[1], 'Mac')):
        start, length = struct.unpack_from('<LL', raw, 446 + 16 * (num - 1) + 8)
        if (start, length) != (rec.extent_location() * 4, count):
            problems.append('%s: MBR partition %d (%s) is start %d length %d, expected start %d length %d'
                            % (what, num, name, start, length, rec.extent_location() * 4, count))
        first, last = struct.unpack_from('<QQ', raw, parr + 128 * (num - 1) + 32)
        if (first, last) != (rec.extent_location() * 4, rec.extent_location() * 4 + count - 1):
            problems.append('%s: GPT partition %d (%s) is %d..%d, expected %d..%d'
                            % (what, num, name, first, last, rec.extent_location() * 4,
                               rec.extent_location() * 4 + count - 1))
    return problems


def main():
    problems = check(build(True, False), 'same image for EFI and Mac', '/EFIBOOT.IMG;1')
    # The usual layouts must stay as they are.
    problems += check(build(False, False), 'separate images', '/MACBOOT.IMG;1')
    problems += check(build(False, True), 'separate images, EFI image hard-linked', '/MACBOOT.IMG;1')
    problems += check(build(True, True), 'same image, hard-linked', '/EFIBOOT.IMG;1')
    if problems:
        print('\n'.join(problems))
        return 1
    print('OK')
    return 0


if __name__ == '__main__':
    sys.exit(main())
