# Observation E: a zero-length boot file.  The initial entry must not point at
# the bytes of another file, and after reopening the image the other file must
# not have become "the boot file" (rm_file on it is refused then).
# A refusal of the empty boot file by add_eltorito() with PyCdlibInvalidInput
# (leaving the image unchanged) also counts as correct.
import io
import os
import struct
import sys
import tempfile

sys.path.insert(0, sys.argv[1])

import pycdlib
from pycdlib import pycdlibexception


def main():
    os.chdir(tempfile.mkdtemp())
    problems = []

    iso = pycdlib.PyCdlib()
    iso.new()
    iso.add_fp(io.BytesIO(b''), 0, '/BOOT.;1')
    iso.add_fp(io.BytesIO(b'Z' * 3000), 3000, '/ZZZ.;1')
    try:
        iso.add_eltorito('/BOOT.;1', '/BOOT.CAT;1')
    except pycdlibexception.PyCdlibInvalidInput as e:
        # refused: must be clean
        out = io.BytesIO()
        iso.write_fp(out)
        if out.getvalue()[17 * 2048:17 * 2048 + 6] == b'\x00CD001':
            problems.append('refused, but a boot record was written')
        iso.rm_file('/BOOT.;1')
        iso.rm_file('/ZZZ.;1')
        iso.close()
        if problems:
            print('\n'.join(problems))
            return 1
        print('OK')
        return 0

    out = io.BytesIO()
    iso.write_fp(out)
    iso.close()
    data = out.getvalue()

    catsec = struct.unpack_from('<L', data, 17 * 2048 + 0x47)[0]
    cat = data[catsec * 2048:(catsec + 1) * 2048]
    (ind, media, seg, systype, unused, count, rba) = struct.unpack_from('<BBHBBHL', cat, 32)

    iso2 = pycdlib.PyCdlib()
    iso2.open_fp(io.BytesIO(data))
    zzz = iso2.get_record(iso_path='/ZZZ.;1')
    if rba == zzz.extent_location():
        problems.append('initial entry (load size %d) has load RBA %d, which is where /ZZZ.;1 is stored'
                        % (count, rba))
    try:
        iso2.rm_file('/ZZZ.;1')
    except pycdlibexception.PyCdlibInvalidInput as e:
        problems.append('after reopen rm_file(/ZZZ.;1) is refused: %s' % e)
    else:
        out2 = io.BytesIO()
        iso2.write_fp(out2)
    iso2.close()

    if problems:
        print('\n'.join(problems))
        return 1
    print('OK')
    return 0


sys.exit(main())
