"""F-11.1: a boot catalog with a bootable entry that follows the initial entry without a section
header ("standalone" entry; accepted by the parser) is ignored by four of the six enumerations of
catalog entries: the image opens, then any recomputation fails."""
import io, sys, struct
sys.path.insert(0, '/repo')
import pycdlib

iso = pycdlib.PyCdlib()
iso.new()
iso.add_fp(io.BytesIO(b'a' * 2048), 2048, '/BOOT.;1')
iso.add_fp(io.BytesIO(b'b' * 2048), 2048, '/BOOT2.;1')
iso.add_eltorito('/BOOT.;1', '/BOOT.CAT;1')
iso.add_eltorito('/BOOT2.;1')            # -> section header + section entry
out = io.BytesIO()
iso.write_fp(out)
cat_extent = iso.eltorito_boot_catalog.extent_location()
iso.close()
img = bytearray(out.getvalue())
# drop the section header: move the section entry up so that it directly follows the initial entry
base = cat_extent * 2048
entry = img[base + 96: base + 128]
img[base + 64: base + 96] = entry
img[base + 96: base + 128] = b'\x00' * 32
iso = pycdlib.PyCdlib()
iso.open_fp(io.BytesIO(bytes(img)))
print('standalone entries parsed:', len(iso.eltorito_boot_catalog.standalone_entries))
err = None
try:
    iso.add_fp(io.BytesIO(b'x'), 1, '/NEW.;1')
    o2 = io.BytesIO()
    iso.write_fp(o2)
    # the second boot file must be protected against removal like any boot file
    try:
        iso.rm_file('/BOOT2.;1')
        err = 'boot file referenced by a standalone entry could be removed'
    except pycdlib.pycdlibexception.PyCdlibInvalidInput:
        pass
except Exception as e:   # noqa
    err = '%s: %s' % (type(e).__name__, e)
print('edit+write:', err or 'ok')
print('OK' if err is None else 'DEFECT')
sys.exit(0 if err is None else 1)
