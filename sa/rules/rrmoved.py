"""SA-COORD.rr_moved_holder: the record remembered as relocation directory holds the relocated entries, it is not one
of them (C02, C08).

PyCdlib keeps the directory that deep Rock Ridge directories are relocated into in `_rr_moved_record`: new
relocations are added as children of it, and removing the last of them removes it.  When an image is opened the
directory is recognised by its content: a child whose Rock Ridge data says "I have been relocated"
(`relocated_record()`).  The record to remember is then the directory being walked - the holder - and never the child
the test was made on: a relocated directory remembered as the relocation directory makes the next relocation land
inside an unrelated directory of the user, and the clean-up after the last removal delete that directory.

For every store of a value other than None into `_rr_moved_record`: among the conditions that hold at the store
(temporaries expanded), none is `V.rock_ridge.relocated_record()` for the very expression V that is stored.
"""
import ast

from ..registry import rule, props
from ..report import Ob
from ..model import norm, AnalysisError
from .. import effects
from .. import expand as ex


@rule('SA-COORD.rr_moved_holder')
@props('C02', 'C08')
def rr_moved_holder(ctx):
    obs = []
    n = 0
    for fi in ctx.m.pkg_functions():
        for w in effects.direct_writes(ctx, fi):
            if w.attr != '_rr_moved_record' or w.kind != 'assign' or w.value is None:
                continue
            if isinstance(w.value, ast.Constant) and w.value.value is None:
                continue
            n += 1
            v = norm(ex.expand(ctx, fi, w.value, w.stmt, only='pure'))
            bad = None
            for test, pol, at in ex.conditions(ctx, fi, w.stmt, True):
                t2 = ex.expand(ctx, fi, test, at if isinstance(at, ast.stmt) else w.stmt, only='pure')
                for t, p in ex.conjuncts(t2, pol):
                    if not p:
                        continue
                    for sub in ast.walk(t):
                        if isinstance(sub, ast.Call) and isinstance(sub.func, ast.Attribute) and sub.func.attr == 'relocated_record':
                            obj = sub.func.value
                            if isinstance(obj, ast.Attribute) and obj.attr == 'rock_ridge' and norm(obj.value) == v:
                                bad = t
            obs.append(Ob('SA-COORD.rr_moved_holder', '%s|self._rr_moved_record = %s' % (fi.qual, norm(w.value)), bad is None, ctx.loc(fi, w.node),
                          '' if bad is None else 'the record stored as relocation directory is `%s`, the very record whose Rock Ridge data says it has been '
                          'relocated (`%s`): the relocation directory is the directory that holds such records (the one being walked), not one of them; '
                          'later relocations go into, and the clean-up removes, a directory of the user' % (v, norm(bad)[:100])))
    if n < 2:
        raise AnalysisError('anchor-vanished: stores of a record into PyCdlib._rr_moved_record (%d)' % n)
    return obs
