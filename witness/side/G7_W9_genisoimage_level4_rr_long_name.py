"""
'pycdlib-genisoimage -iso-level 4 -R' aborts on a source file with a name of
about 200 characters: at level 4 the name is used unshortened as the ISO9660
identifier, which then leaves no room for the Rock Ridge entries ('Name is
too long to leave room for the Rock Ridge entries ...').  Not fixed.
"""
import io
import os
import shutil
import subprocess
import sys
import tempfile

checkout = os.path.abspath(sys.argv[1])
sys.path.insert(0, checkout)
import pycdlib  # noqa: E402


def main():
    tmpdir = tempfile.mkdtemp()
    problems = []
    try:
        src = os.path.join(tmpdir, 'src')
        os.mkdir(src)
        name = 'n' * 196 + '.txt'
        with open(os.path.join(src, name), 'wb') as outfp:
            outfp.write(b'long\n')
        isoname = os.path.join(tmpdir, 'out.iso')
        tool = os.path.join(checkout, 'tools', 'pycdlib-genisoimage')
        proc = subprocess.run([sys.executable, tool, '-quiet', '-iso-level', '4', '-R', '-o', isoname, src],
                              env=dict(os.environ, PYTHONPATH=checkout),
                              stdout=subprocess.PIPE, stderr=subprocess.PIPE,
                              universal_newlines=True)
        if proc.returncode != 0:
            lines = proc.stderr.strip().splitlines() or ['(no stderr)']
            problems.append('genisoimage -iso-level 4 -R exited with %d: %s' % (proc.returncode, lines[-1]))
        else:
            iso = pycdlib.PyCdlib()
            iso.open(isoname)
            try:
                out = io.BytesIO()
                iso.get_file_from_iso_fp(out, rr_path='/' + name)
                if out.getvalue() != b'long\n':
                    problems.append('wrong contents for the long name')
            except pycdlib.pycdlibexception.PyCdlibInvalidInput as exc:
                problems.append('the Rock Ridge name was not preserved: %s' % (exc))
            finally:
                iso.close()
    finally:
        shutil.rmtree(tmpdir, ignore_errors=True)

    if problems:
        for problem in problems:
            print(problem)
        return 1
    print('OK')
    return 0


if __name__ == '__main__':
    sys.exit(main())
