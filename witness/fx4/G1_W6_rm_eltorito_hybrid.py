#!/usr/bin/env python
"""
Witness for observation F: rm_eltorito() on an isohybrid image.  The hybrid
MBR boots the El Torito default boot image, so once El Torito is gone an image
must not be written with a hybrid MBR that points nowhere: either
rm_eltorito() refuses while the ISO is still a hybrid (and changes nothing),
or the hybrid MBR goes away with it.  rm_isohybrid() followed by rm_eltorito()
(the order used by the test suite) must keep working.

usage: W6_rm_eltorito_hybrid.py <pycdlib checkout>
"""
import io
import os
import shutil
import struct
import sys
import tempfile

sys.path.insert(0, os.path.abspath(sys.argv[1]))
import pycdlib  # noqa: E402

S = 2048


def boot_image():
    return (b'\x00' * 0x40 + b'\xfb\xc0\x78\x70').ljust(2048, b'\x11')


def hybrid(extra=False):
    iso = pycdlib.PyCdlib()
    iso.new()
    data = boot_image()
    iso.add_fp(io.BytesIO(data), len(data), '/ISOLINUX.BIN;1')
    iso.add_eltorito('/ISOLINUX.BIN;1', '/BOOT.CAT;1', boot_load_size=4)
    iso.add_isohybrid()
    return iso


def mbr_of(image):
    """Return None if there is no MBR, otherwise the boot file address in it."""
    if image[510:512] != b'\x55\xaa':
        return None
    # isohybrid: 64 bit LBA (in 512 byte sectors) of the boot file at offset 432
    return struct.unpack_from('<Q', image, 432)[0]


def file_sector(iso, path):
    return iso.get_record(iso_path=path).extent_location()


def judge(iso, when, problems):
    try:
        iso.rm_eltorito()
    except pycdlib.pycdlibexception.PyCdlibInvalidInput:
        # Refusing is fine, as long as nothing was changed.
        out = io.BytesIO()
        iso.write_fp(out)
        image = out.getvalue()
        lba = mbr_of(image)
        if lba is None or lba != file_sector(iso, '/ISOLINUX.BIN;1') * 4 or image[17 * S + 7:17 * S + 30] != b'EL TORITO SPECIFICATION':
            problems.append(when + ': rm_eltorito() refused but the image is no longer a consistent bootable hybrid')
        return
    out = io.BytesIO()
    iso.write_fp(out)
    image = out.getvalue()
    if image[17 * S + 7:17 * S + 30] == b'EL TORITO SPECIFICATION':
        problems.append(when + ': El Torito boot record still there after rm_eltorito()')
    lba = mbr_of(image)
    if lba is not None:
        problems.append('%s: after rm_eltorito() the image has no El Torito any more but is still written with a hybrid MBR; its boot file address is LBA %d (sector %d), /ISOLINUX.BIN;1 is at sector %d'
                        % (when, lba, lba // 4, file_sector(iso, '/ISOLINUX.BIN;1')))


def main():
    problems = []

    # precondition: a hybrid image points at its boot file
    iso = hybrid()
    out = io.BytesIO()
    iso.write_fp(out)
    if mbr_of(out.getvalue()) != file_sector(iso, '/ISOLINUX.BIN;1') * 4:
        problems.append('precondition failed: hybrid MBR does not point at the boot file')
    iso.close()

    # 1. new image, never written
    iso = hybrid()
    judge(iso, 'new hybrid image', problems)
    iso.close()

    # 2. opened hybrid image
    iso = hybrid()
    iso.write('hybrid.iso')
    iso.close()
    iso = pycdlib.PyCdlib()
    iso.open('hybrid.iso')
    if iso.isohybrid_mbr is None:
        problems.append('precondition failed: hybrid not recognised on open')
    judge(iso, 'opened hybrid image', problems)
    iso.close()

    # 3. the documented order keeps working and gives a plain image
    iso = pycdlib.PyCdlib()
    iso.open('hybrid.iso')
    iso.rm_isohybrid()
    iso.rm_eltorito()
    out = io.BytesIO()
    iso.write_fp(out)
    image = out.getvalue()
    iso.close()
    if mbr_of(image) is not None or image[17 * S + 7:17 * S + 30] == b'EL TORITO SPECIFICATION':
        problems.append('rm_isohybrid() + rm_eltorito() does not give a plain image')
    iso = pycdlib.PyCdlib()
    iso.open_fp(io.BytesIO(image))
    out = io.BytesIO()
    iso.get_file_from_iso_fp(out, iso_path='/ISOLINUX.BIN;1')
    if out.getvalue() != boot_image():
        problems.append('former boot file damaged')
    iso.close()

    if problems:
        for problem in problems:
            print('PROBLEM: ' + problem)
        return 1
    print('OK')
    return 0


if __name__ == '__main__':
    tmpdir = tempfile.mkdtemp(prefix='w6')
    olddir = os.getcwd()
    os.chdir(tmpdir)
    try:
        ret = main()
    finally:
        os.chdir(olddir)
        shutil.rmtree(tmpdir, ignore_errors=True)
    sys.exit(ret)
