"""
Witness H: pycdlib-genisoimage -modification-date DATE and the modification
date recorded in the Primary Volume Descriptor.  (Not repaired: the man page
lists the option as "not supported by pycdlib-genisoimage"; see REPORT.txt.)

Usage: python W8_modification_date.py <path-to-checkout>
"""
import os
import subprocess
import sys
import tempfile

sys.path.insert(0, sys.argv[1])

import pycdlib  # pylint: disable=unused-import


def main():
    checkout = os.path.abspath(sys.argv[1])
    with tempfile.TemporaryDirectory() as tmp:
        src = os.path.join(tmp, 'src')
        os.mkdir(src)
        with open(os.path.join(src, 'a.txt'), 'wb') as outfp:
            outfp.write(b'a\n')
        out = os.path.join(tmp, 'out.iso')
        env = dict(os.environ)
        env['PYTHONPATH'] = checkout
        res = subprocess.run([sys.executable, os.path.join(checkout, 'tools', 'pycdlib-genisoimage'),
                              '-quiet', '-o', out, '-modification-date', '2001020304050607', src],
                             cwd=tmp, env=env, stdout=subprocess.PIPE,
                             stderr=subprocess.STDOUT, universal_newlines=True)
        if res.returncode != 0:
            print('pycdlib-genisoimage failed:\n' + res.stdout)
            return 1
        with open(out, 'rb') as infp:
            infp.seek(16 * 2048 + 830)
            moddate = infp.read(17)

    if moddate[:16] != b'2001020304050607':
        print('-modification-date 2001020304050607 was accepted, but the PVD modification date is %r' % (moddate))
        return 1
    print('OK')
    return 0


if __name__ == '__main__':
    sys.exit(main())
