#!/usr/bin/env python
"""
Observation F (first half): at interchange level 4 the name mangling is not
total.  A long source name is returned unchanged by the mangling helpers, so
the Rock Ridge facade fails with 'Name is too long ...' for a name that the
library derived itself.

usage: W6_level4_long_names.py <path-to-checkout>
"""
import io
import sys

sys.path.insert(0, sys.argv[1])

import pycdlib  # noqa: E402
from pycdlib import pycdlibexception  # noqa: E402

NAMES = ['a' * 100, 'a' * 193, 'a' * 194, 'a' * 200, 'a' * 207, 'a' * 250, 'a' * 190 + '.txt',
         u'é' * 90, u'é' * 120, 'a' * 255]


def main():
    problems = []
    for xa in (False, True):
        for name in NAMES:
            label = '%s...(%d chars, %d bytes)' % (name[:3], len(name), len(name.encode('utf-8')))
            for what in ('add_fp', 'add_directory', 'add_symlink'):
                iso = pycdlib.PyCdlib()
                iso.new(interchange_level=4, rock_ridge='1.09', xa=xa)
                facade = iso.get_rock_ridge_facade()
                try:
                    if what == 'add_fp':
                        facade.add_fp(io.BytesIO(b'abc'), 3, '/' + name, 0o100444)
                    elif what == 'add_directory':
                        facade.add_directory('/' + name, 0o040555)
                    else:
                        facade.add_fp(io.BytesIO(b'abc'), 3, '/target', 0o100444)
                        facade.add_symlink('/' + name, 'target')
                    out = io.BytesIO()
                    iso.write_fp(out)
                    iso2 = pycdlib.PyCdlib()
                    iso2.open_fp(out)
                    facade2 = iso2.get_rock_ridge_facade()
                    facade2.get_record('/' + name)
                    if what == 'add_fp':
                        data = io.BytesIO()
                        facade2.get_file_from_iso_fp(data, '/' + name)
                        if data.getvalue() != b'abc':
                            problems.append('xa=%s %s(%s): wrong content read back' % (xa, what, label))
                    iso2.close()
                except pycdlibexception.PyCdlibInvalidInput as e:
                    problems.append('xa=%s %s(%s): PyCdlibInvalidInput: %s' % (xa, what, label, e))
                except Exception as e:  # pylint: disable=broad-except
                    problems.append('xa=%s %s(%s): %s: %s' % (xa, what, label, type(e).__name__, e))
                iso.close()

    if problems:
        print('%d problems, e.g.:' % len(problems))
        print('\n'.join(problems[:10]))
        return 1
    print('OK')
    return 0


if __name__ == '__main__':
    sys.exit(main())
