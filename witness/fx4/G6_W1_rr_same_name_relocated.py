#!/usr/bin/env python3
"""
Witness for observation A (notes item 1, Rock Ridge half): two relocated
directories with the same Rock Ridge name.

  python W1_rr_same_name_relocated.py <path-to-checkout>

Builds a/d2/.../d7/deep/one.txt and b/d2/.../d7/deep/two.txt with
pycdlib-genisoimage -R, extracts the Rock Ridge view with
pycdlib-extract-files and compares the result with the source tree (the
RR_MOVED directory, which cannot be hidden, is not counted).  Also checks
list_children(rr_path=...) directly.
"""
import os
import shutil
import subprocess
import sys
import tempfile

CHECKOUT = os.path.abspath(sys.argv[1])
sys.path.insert(0, CHECKOUT)

import pycdlib  # noqa: E402  pylint: disable=wrong-import-position


def tool(name, *args):
    env = dict(os.environ)
    env['PYTHONPATH'] = CHECKOUT
    proc = subprocess.run([sys.executable, os.path.join(CHECKOUT, 'tools', name)] + list(args),
                          env=env, stdout=subprocess.PIPE, stderr=subprocess.PIPE,
                          universal_newlines=True, check=False)
    return proc.returncode, proc.stdout, proc.stderr


def tree(root):
    out = {}
    for dirpath, dirnames, filenames in os.walk(root):
        for name in dirnames + filenames:
            full = os.path.join(dirpath, name)
            rel = os.path.relpath(full, root)
            if os.path.islink(full):
                out[rel] = ('link', os.readlink(full))
            elif os.path.isdir(full):
                out[rel] = 'dir'
            else:
                with open(full, 'rb') as infp:
                    out[rel] = infp.read()
    return out


def main():
    problems = []
    tmp = tempfile.mkdtemp()
    try:
        src = os.path.join(tmp, 'src')
        for top, fname, content in (('a', 'one.txt', b'one\n'), ('b', 'two.txt', b'two\n')):
            deep = os.path.join(src, top, 'd2', 'd3', 'd4', 'd5', 'd6', 'd7', 'deep')
            os.makedirs(deep)
            with open(os.path.join(deep, fname), 'wb') as outfp:
                outfp.write(content)

        isoname = os.path.join(tmp, 'out.iso')
        ret, _, err = tool('pycdlib-genisoimage', '-quiet', '-R', '-o', isoname, src)
        if ret != 0:
            print('pycdlib-genisoimage failed: %s' % (err.strip().splitlines()[-1:]))
            return 1

        # Library level: each CL placeholder must resolve to its own directory.
        iso = pycdlib.PyCdlib()
        iso.open(isoname)
        for top, fname in (('a', 'one.txt'), ('b', 'two.txt')):
            rr_dir = '/%s/d2/d3/d4/d5/d6/d7' % (top)
            for child in iso.list_children(rr_path=rr_dir):
                if child.is_dot() or child.is_dotdot():
                    continue
                full = iso.full_path_from_dirrecord(child, rockridge=True)
                if full != rr_dir + '/deep':
                    problems.append('list_children(rr_path=%r) yields %r' % (rr_dir, full))
                names = sorted(c.rock_ridge.name().decode() for c in child.children
                               if not c.is_dot() and not c.is_dotdot())
                if names != [fname]:
                    problems.append('the child of %r contains %r, expected %r' % (rr_dir, names, [fname]))
        iso.close()

        # Tool level.
        dest = os.path.join(tmp, 'dest')
        os.makedirs(dest)
        ret, _, err = tool('pycdlib-extract-files', '-path-type', 'rockridge',
                           '-extract-to', dest, isoname)
        if ret != 0:
            problems.append('pycdlib-extract-files -path-type rockridge failed: %s' % (err.strip().splitlines()[-1:]))
        got = tree(dest)
        got.pop('rr_moved', None)
        want = tree(src)
        if got != want:
            problems.append('extracted tree differs: missing %s, extra %s'
                            % (sorted(set(want) - set(got)), sorted(set(got) - set(want))))
    finally:
        shutil.rmtree(tmp, ignore_errors=True)

    if problems:
        for problem in problems:
            print(problem)
        return 1
    print('OK')
    return 0


if __name__ == '__main__':
    sys.exit(main())
