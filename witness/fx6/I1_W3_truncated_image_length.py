#!/usr/bin/env python
"""
Witness for observation C: opening an image that is cut off in the middle of
a file gives the directory record of the file the absolute end offset
(extent * 2048 + length) as its length instead of the number of bytes that
are left of it; write() then records that size.

usage: W3_truncated_image_length.py <path-to-checkout>
"""
import io
import struct
import sys

sys.path.insert(0, sys.argv[1])

import pycdlib  # noqa: E402

problems = []


def master(iso):
    out = io.BytesIO()
    iso.write_fp(out)
    return out.getvalue()


def root_records(image):
    """A tiny ISO9660 reader: the records of the PVD root directory."""
    root = image[16 * 2048 + 156:16 * 2048 + 190]
    extent, = struct.unpack_from('<L', root, 2)
    length, = struct.unpack_from('<L', root, 10)
    data = image[extent * 2048:extent * 2048 + length]
    ret = {}
    offset = 0
    while offset < len(data):
        reclen = bytearray(data[offset:offset + 1])[0]
        if reclen == 0:
            offset += 2048 - offset % 2048
            continue
        rec = data[offset:offset + reclen]
        ext, = struct.unpack_from('<L', rec, 2)
        dlen, = struct.unpack_from('<L', rec, 10)
        namelen = bytearray(rec[32:33])[0]
        ret[bytes(rec[33:33 + namelen])] = (ext, dlen)
        offset += reclen
    return ret


payload = bytes(bytearray((i * 7 + i // 256) % 251 for i in range(10000)))

for joliet in (None, 3):
    what = 'joliet=%s' % joliet
    iso = pycdlib.PyCdlib()
    iso.new(joliet=joliet)
    kw = {}
    if joliet:
        kw['joliet_path'] = '/small'
    iso.add_fp(io.BytesIO(b'small'), 5, '/AAA.;1', **kw)
    if joliet:
        kw['joliet_path'] = '/big'
    iso.add_fp(io.BytesIO(payload), len(payload), '/BIG.;1', **kw)
    full = master(iso)
    iso.close()

    big_extent, big_len = root_records(full)[b'BIG.;1']
    if big_len != len(payload) or big_extent * 2048 + 5 * 2048 != len(full):
        problems.append('%s: unexpected layout of the first master' % what)
        continue

    # Cut the image off two sectors before the end: 6144 bytes of BIG remain.
    cut = full[:-4096]
    left = len(cut) - big_extent * 2048

    iso = pycdlib.PyCdlib()
    iso.open_fp(io.BytesIO(cut))
    rec = iso.get_record(iso_path='/BIG.;1')
    if rec.get_data_length() != left:
        problems.append('%s: after open() the record of /BIG.;1 has length %d, but %d bytes of it are in the image' % (what, rec.get_data_length(), left))
    if joliet:
        rec = iso.get_record(joliet_path='/big')
        if rec.get_data_length() != left:
            problems.append('%s: after open() the Joliet record of /big has length %d, but %d bytes of it are in the image' % (what, rec.get_data_length(), left))
    buf = io.BytesIO()
    iso.get_file_from_iso_fp(buf, iso_path='/BIG.;1')
    if buf.getvalue() != payload[:left]:
        problems.append('%s: /BIG.;1 of the truncated image reads %d bytes, expected the first %d of the payload' % (what, len(buf.getvalue()), left))
    names = sorted(c.file_identifier() for c in iso.list_children(iso_path='/'))
    if names != [b'.', b'..', b'AAA.;1', b'BIG.;1']:
        problems.append('%s: root directory of the truncated image holds %r' % (what, names))

    again = master(iso)
    iso.close()
    ext2, len2 = root_records(again)[b'BIG.;1']
    if len2 != left:
        problems.append('%s: the rewritten image records %d bytes for /BIG.;1, but holds %d' % (what, len2, left))
    if again[ext2 * 2048:ext2 * 2048 + left] != payload[:left]:
        problems.append('%s: data of /BIG.;1 in the rewritten image is not the data that was left' % what)

    chk = pycdlib.PyCdlib()
    chk.open_fp(io.BytesIO(again))
    rec = chk.get_record(iso_path='/BIG.;1')
    if rec.get_data_length() != left:
        problems.append('%s: reopening the rewritten image gives /BIG.;1 a length of %d instead of %d' % (what, rec.get_data_length(), left))
    buf = io.BytesIO()
    chk.get_file_from_iso_fp(buf, iso_path='/AAA.;1')
    if buf.getvalue() != b'small':
        problems.append('%s: /AAA.;1 reads back %r' % (what, buf.getvalue()))
    chk.close()

if problems:
    print('\n'.join(problems))
    sys.exit(1)
print('OK')
sys.exit(0)
