"""Observation E: at interchange level 4 a file name that contains ';' has
to be mangled into an identifier that the library accepts.

Usage: W5_level4_semicolon.py <path-to-checkout>
"""
import io
import sys

sys.path.insert(0, sys.argv[1])

import pycdlib
from pycdlib import utils
from pycdlib.pycdlibexception import PyCdlibInvalidInput

NAMES = ['a;b', 'x;y;z', 'semi;', ';lead', 'dots.and;semi.txt', 'v;1x', 'plain.txt', 'noext']


def main():
    problems = []

    # The helper itself: the result is accepted by add_fp.
    for name in NAMES:
        base, ext = utils.mangle_file_for_iso9660(name, 4)
        ident = base if ext == '' else base + '.' + ext
        iso = pycdlib.PyCdlib()
        iso.new(interchange_level=4)
        try:
            iso.add_fp(io.BytesIO(b'x'), 1, '/' + ident)
        except PyCdlibInvalidInput as e:
            problems.append('mangle_file_for_iso9660(%r, 4) gives %r, which add_fp refuses: %s' % (name, ident, e))
        iso.close()
    # Names without a semicolon are still returned as they are.
    if utils.mangle_file_for_iso9660('plain.txt', 4) != ('plain', 'txt') or utils.mangle_file_for_iso9660('noext', 4) != ('noext', ''):
        problems.append('a name without semicolon is changed at level 4')

    # The Rock Ridge facade on a level 4 image.
    iso = pycdlib.PyCdlib()
    iso.new(interchange_level=4, rock_ridge='1.09')
    facade = iso.get_rock_ridge_facade()
    added = []
    for name in NAMES:
        content = name.encode('utf-8')
        try:
            facade.add_fp(io.BytesIO(content), len(content), '/' + name, 0o100444)
            added.append(name)
        except PyCdlibInvalidInput as e:
            problems.append('Rock Ridge facade, level 4, add_fp(/%s): %s' % (name, e))
    out = io.BytesIO()
    iso.write_fp(out)
    iso.close()
    chk = pycdlib.PyCdlib()
    chk.open_fp(out)
    facade = chk.get_rock_ridge_facade()
    for name in added:
        buf = io.BytesIO()
        try:
            facade.get_file_from_iso_fp(buf, '/' + name)
        except PyCdlibInvalidInput as e:
            problems.append('written image: /%s: %s' % (name, e))
            continue
        if buf.getvalue() != name.encode('utf-8'):
            problems.append('written image: /%s reads %r' % (name, buf.getvalue()))
    chk.close()

    if problems:
        for p in problems:
            print(p)
        return 1
    print('OK')
    return 0


if __name__ == '__main__':
    sys.exit(main())
