"""
modify_file_in_place() with a shorter replacement leaves the tail of the old
file contents on disk: the padding of the last sector is produced by seeking
over it and writing one zero byte, so e.g. 1000 -> 10 bytes keeps 990 old bytes
in the image after the new data.
"""
import io
import os
import shutil
import sys
import tempfile

sys.path.insert(0, sys.argv[1])
import pycdlib  # noqa: E402


def main():
    problems = []
    tmpdir = tempfile.mkdtemp()
    try:
        for oldlen, newlen in ((1000, 10), (5000, 4100), (2048, 1)):
            path = os.path.join(tmpdir, 'img.iso')
            iso = pycdlib.PyCdlib()
            iso.new()
            iso.add_fp(io.BytesIO(b'S' * oldlen), oldlen, '/A.;1')
            iso.add_fp(io.BytesIO(b'b' * 3000), 3000, '/B.;1')
            iso.write(path)
            iso.close()
            size = os.path.getsize(path)

            iso = pycdlib.PyCdlib()
            iso.open(path, 'r+b')
            extent = iso.get_record(iso_path='/A.;1').extent_location()
            iso.modify_file_in_place(io.BytesIO(b'n' * newlen), newlen, '/A.;1')
            iso.close()

            with open(path, 'rb') as fp:
                raw = fp.read()
            nsectors = (oldlen + 2047) // 2048
            area = raw[extent * 2048:(extent + nsectors) * 2048]
            if len(raw) != size:
                problems.append('%d -> %d: image size changed' % (oldlen, newlen))
            if area[:newlen] != b'n' * newlen:
                problems.append('%d -> %d: new contents not written' % (oldlen, newlen))
            leaked = area.count(b'S')
            if leaked:
                problems.append('%d -> %d bytes: %d bytes of the old contents are still in the image'
                                % (oldlen, newlen, leaked))
            elif area[newlen:] != b'\x00' * (len(area) - newlen):
                problems.append('%d -> %d: slack is not zero' % (oldlen, newlen))

            iso = pycdlib.PyCdlib()
            iso.open(path)
            out = io.BytesIO()
            iso.get_file_from_iso_fp(out, iso_path='/B.;1')
            iso.close()
            if out.getvalue() != b'b' * 3000:
                problems.append('%d -> %d: neighbouring file damaged' % (oldlen, newlen))
    finally:
        shutil.rmtree(tmpdir)

    if problems:
        print('\n'.join(problems))
        return 1
    print('OK')
    return 0


if __name__ == '__main__':
    sys.exit(main())
