"""
A Rock Ridge symlink target (e.g. 10 components of 250 bytes) or Rock Ridge
name (e.g. 3000 bytes) that needs more than one logical block of continuation
area is accepted, but the following write() dies with
"PyCdlibInternalError: Invalid integer passed to swab" (CE offset -1) and the
object can never be written again.
"""
import io
import sys

sys.dont_write_bytecode = True
sys.path.insert(0, sys.argv[1])
import pycdlib  # noqa: E402


def add_symlink(iso):
    target = '/'.join(['a' * 250] * 10)
    iso.add_symlink('/SYM.;1', 'sym', target)
    return '/SYM.;1', b'sym', target.encode()


def add_file(iso):
    name = 'n' * 3000
    iso.add_fp(io.BytesIO(b'x'), 1, '/FILE.;1', rr_name=name)
    return '/FILE.;1', name.encode(), None


def add_dir(iso):
    name = 'd' * 3000
    iso.add_directory('/DIR', rr_name=name)
    return '/DIR', name.encode(), None


def main():
    problems = []
    for version in ('1.09', '1.12'):
        for what, func in (('symlink', add_symlink), ('file', add_file), ('directory', add_dir)):
            where = 'rr %s, oversized %s' % (version, what)
            iso = pycdlib.PyCdlib()
            iso.new(rock_ridge=version)
            iso.add_fp(io.BytesIO(b'keep'), 4, '/KEEP.;1', rr_name='keep')
            added = None
            try:
                added = func(iso)
            except pycdlib.pycdlibexception.PyCdlibInvalidInput:
                pass  # a clean refusal is fine
            except Exception as exc:  # pylint: disable=broad-except
                problems.append('%s: add raised %s: %s' % (where, type(exc).__name__, exc))

            out = io.BytesIO()
            try:
                iso.write_fp(out)
            except Exception as exc:  # pylint: disable=broad-except
                problems.append('%s: was %s, but write() fails: %s: %s'
                                % (where, 'accepted' if added else 'refused',
                                   type(exc).__name__, exc))
                continue
            iso.close()

            iso = pycdlib.PyCdlib()
            try:
                iso.open_fp(io.BytesIO(out.getvalue()))
                data = io.BytesIO()
                iso.get_file_from_iso_fp(data, iso_path='/KEEP.;1')
                if data.getvalue() != b'keep':
                    problems.append('%s: other file damaged' % where)
                names = [c.file_identifier() for c in iso.list_children(iso_path='/')]
                if added is None:
                    if len(names) != 3:
                        problems.append('%s: refused, but the root holds %r' % (where, names))
                else:
                    rec = iso.get_record(iso_path=added[0])
                    if rec.rock_ridge.name() != added[1]:
                        problems.append('%s: accepted, but the name does not read back' % where)
                    if added[2] is not None and rec.rock_ridge.symlink_path() != added[2]:
                        problems.append('%s: accepted, but the target does not read back' % where)
            except Exception as exc:  # pylint: disable=broad-except
                problems.append('%s: written image is not readable: %s: %s'
                                % (where, type(exc).__name__, exc))
            iso.close()

    if problems:
        for line in problems:
            print(line)
        return 1
    print('OK')
    return 0


if __name__ == '__main__':
    sys.exit(main())
