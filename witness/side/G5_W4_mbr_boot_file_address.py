"""
The isohybrid MBR must carry the address (in 512-byte sectors) of the default
El Torito boot image, the file whose isolinux signature add_isohybrid checks.
It is overwritten by every other platform-0 boot image that is placed later:
with a second BIOS section whose file name sorts after the default boot file,
the MBR points at that other image and the hybrid boot fails.
"""
import io
import struct
import sys

sys.path.insert(0, sys.argv[1])
import pycdlib  # noqa: E402

BOOT = b'\x00' * 0x40 + b'\xfb\xc0\x78\x70'


def attempt(other_name):
    iso = pycdlib.PyCdlib()
    iso.new()
    iso.add_fp(io.BytesIO(BOOT), len(BOOT), '/ISOLINUX.BIN;1')
    iso.add_eltorito('/ISOLINUX.BIN;1', boot_load_size=4)
    iso.add_fp(io.BytesIO(b'O' * 3000), 3000, other_name)
    iso.add_eltorito(other_name, boot_load_size=4)
    iso.add_isohybrid()
    out = io.BytesIO()
    iso.write_fp(out)
    iso.close()
    raw = out.getvalue()

    rba = struct.unpack_from('<L', raw, 432)[0]
    iso2 = pycdlib.PyCdlib()
    iso2.open_fp(io.BytesIO(raw))
    default_extent = iso2.eltorito_boot_catalog.initial_entry.load_rba
    rec_extent = iso2.get_record(iso_path='/ISOLINUX.BIN;1').extent_location()
    iso2.close()
    problems = []
    if default_extent != rec_extent:
        problems.append('with %s: default entry at extent %d, /ISOLINUX.BIN;1 at %d' % (other_name, default_extent, rec_extent))
    if raw[rec_extent * 2048 + 0x40:rec_extent * 2048 + 0x44] != b'\xfb\xc0\x78\x70':
        problems.append('with %s: no isolinux signature at extent %d' % (other_name, rec_extent))
    if rba != 4 * default_extent:
        problems.append('with %s: the MBR boot file address is %d (extent %s), the default boot image is at extent %d'
                        % (other_name, rba, rba / 4.0, default_extent))
    return problems


def main():
    problems = attempt('/OTHER.IMG;1') + attempt('/AOTHER.IMG;1')
    if problems:
        print('\n'.join(problems))
        return 1
    print('OK')
    return 0


if __name__ == '__main__':
    sys.exit(main())
