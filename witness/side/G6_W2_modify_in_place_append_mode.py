"""
modify_file_in_place() accepts an image opened in append mode ('a+b').  In
append mode every write lands at the end of the file, so the call "succeeds"
while the file in the image is not replaced and garbage is appended to the image.
"""
import io
import os
import shutil
import sys
import tempfile

sys.path.insert(0, sys.argv[1])
import pycdlib  # noqa: E402


def main():
    tmpdir = tempfile.mkdtemp()
    try:
        path = os.path.join(tmpdir, 'img.iso')
        iso = pycdlib.PyCdlib()
        iso.new()
        iso.add_fp(io.BytesIO(b'a' * 1000), 1000, '/A.;1')
        iso.write(path)
        iso.close()
        before = os.path.getsize(path)

        iso = pycdlib.PyCdlib()
        iso.open(path, 'a+b')
        accepted = True
        try:
            iso.modify_file_in_place(io.BytesIO(b'x' * 10), 10, '/A.;1')
        except pycdlib.pycdlibexception.PyCdlibInvalidInput:
            accepted = False
        iso.close()
        after = os.path.getsize(path)

        iso = pycdlib.PyCdlib()
        iso.open(path)
        out = io.BytesIO()
        iso.get_file_from_iso_fp(out, iso_path='/A.;1')
        iso.close()
        content = out.getvalue()

        # 'r+b' must keep working.
        iso = pycdlib.PyCdlib()
        iso.open(path, 'r+b')
        iso.modify_file_in_place(io.BytesIO(b'z' * 20), 20, '/A.;1')
        iso.close()
        iso = pycdlib.PyCdlib()
        iso.open(path)
        out = io.BytesIO()
        iso.get_file_from_iso_fp(out, iso_path='/A.;1')
        iso.close()
        if out.getvalue() != b'z' * 20:
            print("modify_file_in_place on an image opened with 'r+b' does not work")
            return 1
    finally:
        shutil.rmtree(tmpdir)

    if accepted and content != b'x' * 10:
        print("modify_file_in_place accepted an image opened with 'a+b' but /A.;1 still reads %r...; "
              'image size went from %d to %d' % (content[:8], before, after))
        return 1
    if not accepted and (after != before or content != b'a' * 1000):
        print('modify_file_in_place refused the call but changed the image')
        return 1
    print('OK')
    return 0


if __name__ == '__main__':
    sys.exit(main())
