"""SA-GUARD.layout: the in-place guard is raised by everything that marks the layout stale (C17).

modify_file_in_place() writes a file's bytes and its directory record at the positions the *opened* image
gave them.  It is only safe while the in-memory layout is still the layout of the file on disk, and it says so:
it refuses when a guard attribute of the PyCdlib object is set (`if self._layout_changed: raise
PyCdlibInvalidInput`).  The guard is found in the code, not named here: an attribute tested by a refusal of
modify_file_in_place that is False after _initialize and assigned True elsewhere.

  (1) the refusal dominates every write of modify_file_in_place to the image file and to the record;
  (2) every method that marks the metadata stale (assigns `self._needs_reshuffle = True`, the same computed set
      SA-RESHUFFLE.flag uses) assigns the guard True on *every* normal path - "nothing was added, so nothing
      moved" is not a valid shortcut: once the stale mark is set the next consistency point runs the extent
      assignment, and on an image that another tool laid out differently that moves every file in memory, bytes
      added or not (witness: seeded/C17c/demo_foreign_layout.py.  For a while this clause exempted the zero-byte
      branch, because after fix 8f3e05d the agent's own demo of C17c, which only uses images pycdlib laid out, passes;
      a self-test twin written for clause (2b) showed that the exemption was wrong);
  (2b) the recomputation pass itself is only called because changes are pending (`if self._needs_reshuffle:`), in a
      method that raises the guard on that path, or while an image is being set up;
  (3) the guard is lowered only where the object is re-initialised.
"""
import ast

from ..registry import rule, props
from ..report import Ob
from ..model import norm, AnalysisError
from ..engine import raises_class
from .. import cfg as cfgmod
from .. import effects

PC = 'pycdlib.PyCdlib'


def _guards(ctx, fi):
    out = []
    for n in ctx.own_nodes(fi):
        if isinstance(n, ast.If) and not n.orelse and n.body and isinstance(n.body[-1], ast.Raise) and raises_class(n.body[-1]) == 'PyCdlibInvalidInput':
            t = n.test
            if isinstance(t, ast.Attribute) and isinstance(t.value, ast.Name) and t.value.id == 'self':
                ws = effects.writers_of(ctx, PC, t.attr)
                if any(isinstance(w.value, ast.Constant) and w.value.value is True for w in ws) and \
                        any(isinstance(w.value, ast.Constant) and w.value.value is False for w in ws):
                    out.append((t.attr, n))
    return out


@rule('SA-GUARD.layout')
@props('C17', 'C14', 'C06')
def guard_layout(ctx):
    obs = []
    pc = ctx.cls(PC)
    mf = pc.methods.get('modify_file_in_place')
    if mf is None:
        raise AnalysisError('anchor-vanished %s.modify_file_in_place' % PC)
    guards = _guards(ctx, mf)
    if not guards:
        raise AnalysisError('anchor-vanished: modify_file_in_place no longer refuses on a layout guard attribute')
    g = ctx.cfg(mf)
    dom = g.dominators()
    for attr, ifnode in guards:
        gn = g.node_of(ifnode)
        # (1) the refusal dominates every write to the file / record mutation
        sinks = []
        for n in ctx.own_nodes(mf):
            if isinstance(n, ast.Call) and isinstance(n.func, ast.Attribute) and (
                    (n.func.attr in ('write', 'seek', 'truncate') and 'cdfp' in norm(n.func.value)) or n.func.attr in ('set_data_length', 'update_fp', 'record')):
                sinks.append(n)
        if len(sinks) < 2:
            raise AnalysisError('anchor-vanished: writes of modify_file_in_place (%d)' % len(sinks))
        bad = [s for s in sinks if gn is None or gn.id not in dom.get(g.node_of(ctx.enclosing_stmt(mf, s)).id, ())]
        obs.append(Ob('SA-GUARD.layout', 'modify_file_in_place|refusal on self.%s precedes every write' % attr, not bad, ctx.loc(mf, bad[0] if bad else ifnode),
                      '' if not bad else '`%s` (line %d) is reached on a path that does not pass the refusal on self.%s' % (norm(bad[0])[:60], bad[0].lineno, attr)))
        # (2) every stale-marker raises the guard on every normal path
        nmark = 0
        for name, f in sorted(pc.methods.items()):
            marks = [n for n in ctx.own_nodes(f) if isinstance(n, ast.Assign) and any(norm(t) == 'self._needs_reshuffle' for t in n.targets) and
                     isinstance(n.value, ast.Constant) and n.value.value is True]
            if not marks:
                continue
            nmark += 1
            fg = ctx.cfg(f)

            def tr(node, st, lab):
                if lab in ('exc', 'callexc'):
                    return st
                s = node.stmt
                if node.kind == 'stmt' and isinstance(s, ast.Assign) and any(norm(t) == 'self.' + attr for t in s.targets) and \
                        isinstance(s.value, ast.Constant) and s.value.value is True:
                    return True
                return st
            IN = fg.forward(False, tr, lambda a, b: a and b)
            ok = bool(IN.get(fg.exit.id))
            obs.append(Ob('SA-GUARD.layout', '%s|raises self.%s on every path' % (f.qual, attr), ok, ctx.loc(f, marks[0]),
                          '' if ok else '%s marks the layout stale but has a normal path on which self.%s stays False: '
                          'after such an edit extents have moved, modify_file_in_place is accepted and writes the new content and the file entries at sectors that '
                          'belong to other data in the opened file' % (f.qual, attr)))
        if nmark < 1:
            raise AnalysisError('anchor-vanished: methods that assign self._needs_reshuffle = True (%d)' % nmark)
        # (2b) the recomputation pass itself moves extents (on an image mastered by another tool: all of them).  Every call
        # of it runs because changes are pending (`if self._needs_reshuffle:` - those changes raised the guard), or in a
        # method that raises the guard on that path, or while a new image is being set up (new / open*).
        pass_name = '_reshuffle_extents'
        for name, f in sorted(pc.methods.items()):
            if name in ('new', 'open', 'open_fp', '_open_fp', pass_name):
                continue
            fg = None
            for cnode in ctx.own_nodes(f):
                if not (isinstance(cnode, ast.Call) and isinstance(cnode.func, ast.Attribute) and cnode.func.attr == pass_name and norm(cnode.func.value) == 'self'):
                    continue
                st = ctx.enclosing_stmt(f, cnode)
                from .. import expand as ex
                pending = any(pol and norm(test) == 'self._needs_reshuffle' for test0, pol0, _a in ex.conditions(ctx, f, st, True)
                              for test, pol in ex.conjuncts(test0, pol0))
                ok = pending
                if not ok:
                    if fg is None:
                        fg = ctx.cfg(f)
                        fdom, fpdom = fg.dominators(), fg.dominators(post=True)
                    sn = fg.node_of(st)
                    raises_ = [n2 for n2 in fg.nodes if n2.kind == 'stmt' and isinstance(n2.stmt, ast.Assign) and any(norm(t) == 'self.' + attr for t in n2.stmt.targets)
                               and isinstance(n2.stmt.value, ast.Constant) and n2.stmt.value.value is True]
                    ok = sn is not None and any(r.id in fdom.get(sn.id, ()) or r.id in fpdom.get(sn.id, ()) for r in raises_)
                obs.append(Ob('SA-GUARD.layout', '%s|%s() under pending changes or with the guard raised' % (f.qual, pass_name), ok, ctx.loc(f, cnode),
                              '' if ok else '%s runs the recomputation pass unconditionally and does not raise self.%s: on an image that was just opened (and that another tool '
                              'laid out differently) every extent is reassigned in memory while the file on disk stays as it is; a following modify_file_in_place is '
                              'accepted and writes the new content at another file\'s sectors' % (f.qual, attr)))
        # (3) lowered only at re-initialisation
        for w in effects.writers_of(ctx, PC, attr):
            if isinstance(w.value, ast.Constant) and w.value.value is True:
                continue
            ok = w.fi.name in ('_initialize', '__init__')
            obs.append(Ob('SA-GUARD.layout', '%s|self.%s = %s' % (w.fi.qual, attr, norm(w.value) if w.value is not None else '?'), ok, ctx.loc(w.fi, w.node),
                          '' if ok else '%s lowers (or computes) the guard outside re-initialisation: in-place modification becomes possible while the layout differs from the file' % w.fi.qual))
    return obs
