"""SA-ACCT: space accounting discipline (C03, C04, C05, C10).

The declared sizes of an image (volume space size, directory data lengths, path table size, UDF
partition length, UDF information length / blocks recorded, link counts) are not recomputed from
scratch: every edit adjusts them by a delta.  The deltas therefore have to be (a) inverse between the
grow and the shrink operation, (b) measured consistently, (c) never lost on the way to
_finish_add / _finish_remove.

SA-ACCT.inverse   for each grow/shrink pair of one class: the same attributes are adjusted by both, an
                  attribute the grow side adjusts with `+= u` is adjusted by the shrink side with `-= u'`
                  of the same unit (never overwritten), plain assignments have the same right-hand side.
SA-ACCT.delta     a function that returns `new - old` (or `old - new`) measures both with the same
                  expression, evaluated on either side of the adjustment; grow and shrink siblings use the
                  same measure.
SA-ACCT.dropped   the result of a delta producer (a function whose result flows, possibly through
                  accumulators and returns, into _finish_add/_finish_remove) is never discarded and the
                  variable receiving it is read afterwards.
"""
import ast

from ..registry import rule, props
from ..report import Ob
from ..model import norm, AnalysisError
from .. import effects
from .. import expand as ex
from .. import cfg as cfgmod

PAIRS = [
    ('dr.DirectoryRecord', '_add_child', 'remove_child', 'directory data length grows / shrinks by whole blocks'),
    ('headervd.PrimaryOrSupplementaryVD', 'add_to_space_size', 'remove_from_space_size', 'volume space size'),
    ('headervd.PrimaryOrSupplementaryVD', 'add_to_ptr_size', 'remove_from_ptr_size', 'path table size and extents'),
    ('pycdlib.PyCdlib', '_finish_add', '_finish_remove', 'UDF partition length / integrity size table'),
    ('rockridge.RockRidge', 'add_to_file_links', 'remove_from_file_links', 'POSIX link count'),
    ('udf.UDFFileEntry', 'add_file_ident_desc', 'remove_file_ident_desc_by_name', 'UDF directory information length, blocks recorded, link count'),
]


def _sig(ctx, fi, expr, stmt):
    """unit signature of a delta expression: callee names, numeric constants, trailing attribute names"""
    e = ex.expand(ctx, fi, expr, stmt)
    out = []
    interior = set()
    for n in ast.walk(e):
        if isinstance(n, (ast.Attribute, ast.Subscript)):
            interior.add(id(n.value))      # object selection, not part of the unit
    for n in ast.walk(e):
        if id(n) in interior:
            continue
        if isinstance(n, ast.Call):
            f = n.func
            out.append('call:' + (f.attr if isinstance(f, ast.Attribute) else norm(f)))
        elif isinstance(n, ast.Constant) and isinstance(n.value, (int, bool)) or isinstance(n, ast.Constant) and n.value is None:
            out.append('const:%r' % (n.value,))
        elif isinstance(n, ast.Attribute) and isinstance(n.ctx, ast.Load):
            out.append('attr:' + n.attr)
        elif isinstance(n, ast.BinOp):
            out.append('op:' + type(n.op).__name__)
    return tuple(sorted(out))


def _self_writes(ctx, fi, depth=0):
    """{target text: [(kind, op, value, stmt)]} for targets rooted at self (attribute stores only)"""
    out = {}
    for w in effects.direct_writes(ctx, fi):
        t = w.node
        if not isinstance(t, ast.Attribute) or w.kind not in ('assign', 'aug'):
            continue
        root = t
        while isinstance(root, (ast.Attribute, ast.Subscript)):
            root = root.value
        if not (isinstance(root, ast.Name) and root.id == 'self'):
            continue
        op = None
        if w.kind == 'aug':
            op = type(w.stmt.op).__name__
        out.setdefault(_tkey(t), []).append((w.kind, op, w.value, w.stmt))
    # one level of delegation: grow and shrink both call a common helper of the same class with constant
    # arguments (`self._adjust(+1)` / `self._adjust(-1)`): take the helper's writes with the constants put in
    if depth == 0 and fi.cls is not None:
        for call in ctx.calls(fi):
            f = call.node.func
            if not (isinstance(f, ast.Attribute) and isinstance(f.value, ast.Name) and f.value.id == 'self'):
                continue
            if len(call.callees) != 1 or call.callees[0].cls is not fi.cls or call.callees[0] is fi:
                continue
            callee = call.callees[0]
            consts = {}
            okc = bool(call.node.args) and not call.node.keywords
            for pname, a in zip(callee.params[1:], call.node.args):
                v = a
                neg = False
                if isinstance(v, ast.UnaryOp) and isinstance(v.op, ast.USub):
                    v, neg = v.operand, True
                if isinstance(v, ast.Constant) and isinstance(v.value, int) and not isinstance(v.value, bool):
                    consts[pname] = -v.value if neg else v.value
                else:
                    okc = False
            if not okc or not consts:
                continue
            for tgt, lst in _self_writes(ctx, callee, 1).items():
                for kind, op, value, st in lst:
                    if kind == 'aug' and isinstance(value, ast.Name) and value.id in consts:
                        c = consts[value.id]
                        flip = {'Add': 'Sub', 'Sub': 'Add'}
                        out.setdefault(tgt, []).append((kind, flip[op] if c < 0 else op, ast.Constant(value=abs(c)), st))
                    else:
                        out.setdefault(tgt, []).append((kind, op, value, st))
    return out


def _tkey(t):
    """target text with local index names wildcarded"""
    class T(ast.NodeTransformer):
        def visit_Subscript(self, n):
            self.generic_visit(n)
            if isinstance(n.slice, ast.Name):
                n.slice = ast.Name(id='_', ctx=ast.Load())
            return n
    import copy
    return norm(T().visit(copy.deepcopy(t)))


@rule('SA-ACCT.inverse')
@props('C03', 'C04', 'C05', 'C08', 'C10')
def inverse(ctx):
    obs = []
    npairs = 0
    for cq, g, s, what in PAIRS:
        c = ctx.cls(cq)
        fg, fs = c.methods.get(g), c.methods.get(s)
        if fg is None or fs is None:
            raise AnalysisError('anchor-vanished: accounting pair %s.%s/%s' % (cq, g, s))
        G, S = _self_writes(ctx, fg), _self_writes(ctx, fs)
        for tgt in sorted(set(G) | set(S)):
            key = '%s.%s/%s|%s' % (cq, g, s, tgt)
            npairs += 1
            if tgt not in G or tgt not in S:
                have, miss = (fg, fs) if tgt in G else (fs, fg)
                st = (G.get(tgt) or S.get(tgt))[0][3]
                obs.append(Ob('SA-ACCT.inverse', key, False, ctx.loc(have, st),
                              '%s adjusts `%s` (%s) but its inverse %s never does: after a grow/shrink round trip the recorded value is stale'
                              % (have.name, tgt, what, miss.name)))
                continue
            gk = set((k, o) for k, o, v, st in G[tgt])
            sk = set((k, o) for k, o, v, st in S[tgt])
            bad = None
            if ('aug', 'Add') in gk or ('aug', 'Sub') in sk:
                if gk != {('aug', 'Add')}:
                    bad = (fg, G[tgt][0][3], '%s must adjust `%s` with `+=` only (found %s)' % (g, tgt, sorted(gk)))
                elif sk != {('aug', 'Sub')}:
                    kinds = ', '.join('plain assignment' if k == 'assign' else '`%s=`' % {'Add': '+', 'Sub': '-'}.get(o, o) for k, o in sorted(sk, key=str))
                    st = [x for x in S[tgt] if (x[0], x[1]) != ('aug', 'Sub')][0][3]
                    bad = (fs, st, '%s must undo the `+=` of %s with a `-=` of the same unit, found %s (`%s`): the previous value is overwritten / moved the wrong way, '
                           'so the recorded %s no longer matches what is allocated' % (s, g, kinds, norm(st), what))
                else:
                    ug = set(_sig(ctx, fg, v, st) for k, o, v, st in G[tgt])
                    us = set(_sig(ctx, fs, v, st) for k, o, v, st in S[tgt])
                    if ug != us:
                        bad = (fs, S[tgt][0][3], '%s adds and %s subtracts different units for `%s` (%s vs %s)' % (g, s, tgt, sorted(ug), sorted(us)))
            else:
                ug = set(_sig(ctx, fg, v, st) for k, o, v, st in G[tgt] if v is not None)
                us = set(_sig(ctx, fs, v, st) for k, o, v, st in S[tgt] if v is not None)
                if gk != sk or ug != us:
                    bad = (fs, S[tgt][0][3], '%s and %s assign `%s` differently (%s vs %s)' % (g, s, tgt, sorted(ug), sorted(us)))
            if bad:
                obs.append(Ob('SA-ACCT.inverse', key, False, ctx.loc(bad[0], bad[1]), bad[2]))
            else:
                obs.append(Ob('SA-ACCT.inverse', key, True, ctx.loc(fs, S[tgt][0][3])))
    if npairs < 10:
        raise AnalysisError('anchor-vanished: paired accounting targets (%d)' % npairs)
    return obs


# ------------------------------------------------------------------------------------------ delta

def _def_values(ctx, fi, name, at_stmt):
    g = ctx.cfg(fi)
    RD = ex._rd(ctx, fi)[1]
    node = g.node_of(at_stmt)
    vals = []
    for nm, d in RD.get(node.id, ()):
        if nm != name:
            continue
        dn = g.nodes[d]
        st = dn.stmt
        if dn.kind == 'stmt' and isinstance(st, ast.Assign) and len(st.targets) == 1 and isinstance(st.targets[0], ast.Name):
            vals.append((st.value, st))
        else:
            vals.append((None, st))
    return vals


@rule('SA-ACCT.delta')
@props('C04', 'C05', 'C10')
def delta(ctx):
    obs = []
    measures = {}
    n = 0
    for fi in ctx.m.pkg_functions():
        for st in ctx.own_nodes(fi):
            if not (isinstance(st, ast.Return) and isinstance(st.value, ast.BinOp) and isinstance(st.value.op, ast.Sub)
                    and isinstance(st.value.left, ast.Name) and isinstance(st.value.right, ast.Name)):
                continue
            a, b = st.value.left.id, st.value.right.id
            va = [(v, s) for v, s in _def_values(ctx, fi, a, st)]
            vb = [(v, s) for v, s in _def_values(ctx, fi, b, st)]
            texts = set()
            unknown = False
            for v, s in va + vb:
                if v is None:
                    unknown = True
                    continue
                if isinstance(v, ast.Constant) and v.value == 0:
                    continue          # "nothing there yet"
                texts.add(norm(v))
            if unknown or not texts:
                continue
            n += 1
            key = '%s|return %s - %s' % (fi.qual, a, b)
            ok = len(texts) == 1
            measures[fi.qual] = texts
            obs.append(Ob('SA-ACCT.delta', key, ok, ctx.loc(fi, st),
                          '' if ok else 'the returned delta `%s` subtracts two different measures (%s): the count before the change is not taken the way the '
                          'count after it is, so whenever the two disagree (stale cached value, reopened image) the space accounting drifts from what is allocated'
                          % (norm(st.value), ' vs '.join('`%s`' % t for t in sorted(texts)))))
    if n < 2:
        raise AnalysisError('anchor-vanished: delta-returning functions (%d)' % n)
    # siblings use the same measure
    for cq, g, s, what in PAIRS:
        qg, qs = '%s.%s' % (cq, g), '%s.%s' % (cq, s)
        if qg in measures and qs in measures:
            ok = measures[qg] == measures[qs] or len(measures[qg]) > 1 or len(measures[qs]) > 1
            obs.append(Ob('SA-ACCT.delta', 'siblings|%s/%s' % (qg, s), ok, ctx.loc(ctx.func(qs), ctx.func(qs).node),
                          '' if ok else '%s and %s measure the occupied blocks differently (%s vs %s)' % (g, s, sorted(measures[qg]), sorted(measures[qs]))))
    return obs


# ------------------------------------------------------------------------------------------ dropped

SINKS = ('_finish_add', '_finish_remove')


def _producers(ctx):
    c = getattr(ctx, '_producers', None)
    if c is not None:
        return c
    prod = {}          # qual -> why
    # accumulator names per function: names passed to sinks / returned by producers
    def acc_names(fi):
        names = set()
        for call in ctx.calls(fi):
            f = call.node.func
            if isinstance(f, ast.Attribute) and f.attr in SINKS:
                for a in call.node.args:
                    for s in ast.walk(a):
                        if isinstance(s, ast.Name):
                            names.add(s.id)
        if fi.qual in prod:
            for n in ctx.own_nodes(fi):
                if isinstance(n, ast.Return) and n.value is not None:
                    for s in ast.walk(n.value):
                        if isinstance(s, ast.Name):
                            names.add(s.id)
        return names

    changed = True
    rounds = 0
    while changed and rounds < 10:
        changed = False
        rounds += 1
        for fi in ctx.m.pkg_functions():
            names = acc_names(fi)
            if not names:
                continue
            for call in ctx.calls(fi):
                st = ctx.enclosing_stmt(fi, call.node)
                tg = None
                if isinstance(st, ast.AugAssign) and st.value is call.node and isinstance(st.target, ast.Name):
                    tg = [st.target.id]
                elif isinstance(st, ast.Assign) and st.value is call.node:
                    tg = [nm for t in st.targets for nm in cfgmod.target_names(t)]
                if not tg or not (set(tg) & names):
                    continue
                for cal in call.callees:
                    if cal.rtype is None or cal.rtype == ('prim', 'None'):
                        continue
                    if cal.qual not in prod and cal.module != 'utils':
                        prod[cal.qual] = fi.qual
                        changed = True
    ctx._producers = prod
    return prod


@rule('SA-ACCT.dropped')
@props('C04', 'C05')
def dropped(ctx):
    prod = _producers(ctx)
    if len(prod) < 12:
        raise AnalysisError('anchor-vanished: accounting delta producers (%d)' % len(prod))
    obs = []
    nsites = 0
    for fi in ctx.m.pkg_functions():
        for call in ctx.calls(fi):
            cals = [c for c in call.callees if c.qual in prod]
            if not cals or len(cals) != len(call.callees):
                continue
            nsites += 1
            st = ctx.enclosing_stmt(fi, call.node)
            key = '%s|calls %s' % (fi.qual, cals[0].qual)
            if isinstance(st, ast.Expr) and st.value is call.node:
                obs.append(Ob('SA-ACCT.dropped', key, False, ctx.loc(fi, st),
                              'the byte/extent delta returned by %s is discarded: the volume space size is not adjusted for what the call allocated or released'
                              % cals[0].qual))
                continue
            tg = []
            if isinstance(st, ast.AugAssign) and isinstance(st.target, ast.Name):
                tg = [st.target.id]
            elif isinstance(st, ast.Assign):
                tg = [nm for t in st.targets for nm in cfgmod.target_names(t)]
            if tg:
                # the receiving variable is read later (return / call argument / accumulation)
                used = False
                for n in ctx.own_nodes(fi):
                    if isinstance(n, ast.Name) and isinstance(n.ctx, ast.Load) and n.id in tg and getattr(n, 'lineno', 0) >= st.lineno and \
                            ctx.enclosing_stmt(fi, n) is not st:
                        used = True
                        break
                    if isinstance(n, ast.AugAssign) and isinstance(n.target, ast.Name) and n.target.id in tg and n is not st:
                        pass
                if not used:
                    obs.append(Ob('SA-ACCT.dropped', key, False, ctx.loc(fi, st),
                                  'the delta returned by %s is stored in `%s`, which is never read afterwards' % (cals[0].qual, ', '.join(tg))))
                    continue
            obs.append(Ob('SA-ACCT.dropped', key, True, ctx.loc(fi, st)))
    if nsites < 40:
        raise AnalysisError('anchor-vanished: delta producer call sites (%d)' % nsites)
    return obs
