"""
Witness I: a boot file with a Boot Info Table on the original image must be
read back (extraction and stream) with the bytes the image holds, also at
offsets 24..63 (the reserved area behind the four fields of the table), and
open() + write() must not change them.

Usage: python W9_boot_info_table_reserved.py <path-to-checkout>
"""
import io
import struct
import sys

sys.path.insert(0, sys.argv[1])

import pycdlib


def main():
    problems = []
    boot = bytes((i * 7 + 3) % 251 for i in range(3000))
    iso = pycdlib.PyCdlib()
    iso.new()
    iso.add_fp(io.BytesIO(boot), len(boot), '/BOOT.;1')
    iso.add_eltorito('/BOOT.;1', '/BOOT.CAT;1', boot_info_table=True)
    out = io.BytesIO()
    iso.write_fp(out)
    iso.close()
    img = bytearray(out.getvalue())

    iso = pycdlib.PyCdlib()
    iso.open_fp(io.BytesIO(bytes(img)))
    extent = iso.get_record(iso_path='/BOOT.;1').extent_location()
    iso.close()
    start = extent * 2048

    # A freshly patched file has the table and a zeroed reserved area.
    if struct.unpack_from('<LLL', img, start + 8) != (16, extent, 3000):
        problems.append('new image: no boot info table in the boot file')
    if bytes(img[start + 24:start + 64]) != b'\x00' * 40:
        problems.append('new image: the reserved area of the boot info table is not zero')
    if bytes(img[start + 64:start + 3000]) != boot[64:]:
        problems.append('new image: the rest of the boot file is wrong')

    # Another program has put something into the reserved area (it is not
    # covered by the checksum, so the table is still valid).
    img[start + 30:start + 40] = b'RESERVED!!'
    want = bytes(img[start:start + 3000])

    iso = pycdlib.PyCdlib()
    iso.open_fp(io.BytesIO(bytes(img)))
    got = io.BytesIO()
    iso.get_file_from_iso_fp(got, iso_path='/BOOT.;1')
    if got.getvalue() != want:
        problems.append('get_file_from_iso_fp: bytes 24..44 are %r, the image holds %r' % (got.getvalue()[24:44], want[24:44]))
    with iso.open_file_from_iso(iso_path='/BOOT.;1') as infp:
        data = infp.read()
        infp.seek(28)
        part = infp.read(14)
    if data != want:
        problems.append('open_file_from_iso read(): bytes 24..44 are %r, the image holds %r' % (data[24:44], want[24:44]))
    if part != want[28:42]:
        problems.append('open_file_from_iso seek(28) read(14): %r, the image holds %r' % (part, want[28:42]))

    # Writing the unchanged image, and writing it after a change of the
    # layout, keeps the reserved bytes and the rest of the file, and the
    # table is kept up to date.
    for edit in (False, True):
        if edit:
            iso.add_directory('/AAA')
        out = io.BytesIO()
        iso.write_fp(out)
        img2 = out.getvalue()
        iso2 = pycdlib.PyCdlib()
        iso2.open_fp(io.BytesIO(img2))
        extent2 = iso2.get_record(iso_path='/BOOT.;1').extent_location()
        iso2.close()
        what = 'write after add_directory' if edit else 'write of the unchanged image'
        if edit and extent2 == extent:
            problems.append('%s: the boot file did not move, the witness needs another edit' % (what))
        start2 = extent2 * 2048
        if img2[start2 + 24:start2 + 3000] != want[24:]:
            problems.append('%s: bytes 24..44 of the boot file are %r, were %r' % (what, img2[start2 + 24:start2 + 44], want[24:44]))
        if struct.unpack_from('<LLL', img2, start2 + 8) != (16, extent2, 3000):
            problems.append('%s: the boot info table is %r, expected %r' % (what, struct.unpack_from('<LLL', img2, start2 + 8), (16, extent2, 3000)))
        if img2[start2 + 20:start2 + 24] != want[20:24] or img2[start2:start2 + 8] != want[:8]:
            problems.append('%s: checksum or first 8 bytes changed' % (what))
    iso.close()

    if problems:
        print('\n'.join(problems))
        return 1
    print('OK')
    return 0


if __name__ == '__main__':
    sys.exit(main())
