"""
In the default (lazy, always_consistent=False) mode, reading El Torito data
right after add_eltorito() gives wrong results: get_file_from_iso_fp() on the
boot catalog returns a catalog whose load RBA is 0 (not what write() produces),
and reading a boot file that has a boot info table raises AttributeError on an
ISO made with new(), because extents have not been assigned yet.
"""
import io
import struct
import sys

sys.path.insert(0, sys.argv[1])
import pycdlib  # noqa: E402


def main():
    boot = bytes(range(256)) * 8
    problems = []

    iso = pycdlib.PyCdlib()
    iso.new()
    iso.add_fp(io.BytesIO(boot), len(boot), '/BOOT.;1')
    iso.add_eltorito('/BOOT.;1', '/BOOT.CAT;1', boot_info_table=True)

    cat = io.BytesIO()
    bootdata = None
    try:
        iso.get_file_from_iso_fp(cat, iso_path='/BOOT.CAT;1')
    except Exception as e:  # pylint: disable=broad-except
        problems.append('reading the boot catalog right after add_eltorito raises %s: %s' % (type(e).__name__, e))
    try:
        tmp = io.BytesIO()
        iso.get_file_from_iso_fp(tmp, iso_path='/BOOT.;1')
        bootdata = tmp.getvalue()
    except Exception as e:  # pylint: disable=broad-except
        problems.append('reading the boot file right after add_eltorito raises %s: %s' % (type(e).__name__, e))

    out = io.BytesIO()
    iso.write_fp(out)
    iso.close()
    img = out.getvalue()
    cat_extent, = struct.unpack_from('<L', img, 17 * 2048 + 71)
    written_cat = img[cat_extent * 2048:(cat_extent + 1) * 2048]
    rba, = struct.unpack_from('<L', written_cat, 32 + 8)
    written_boot = img[rba * 2048:rba * 2048 + len(boot)]

    if cat.getvalue() and cat.getvalue() != written_cat:
        early_rba, = struct.unpack_from('<L', cat.getvalue(), 32 + 8)
        problems.append('boot catalog read right after add_eltorito has load RBA %d, the written one has %d'
                        % (early_rba, rba))
    if bootdata is not None and bootdata != written_boot:
        problems.append('boot file read right after add_eltorito differs from the written one')

    if problems:
        for p in problems:
            print(p)
        return 1
    print('OK')
    return 0


if __name__ == '__main__':
    sys.exit(main())
