"""Sensitivity self-test: seeded faults must be reported, passing twins must stay silent.
(catalogue in sa/mutants.py)"""


def run(prop, rids, tier, seed, base_obs=None):
    from . import mutants
    return mutants.run(prop, rids, tier, seed, base_obs)
