"""F-13.5: with Rock Ridge enabled an ISO9660 identifier so long that not even the CE entry fits behind it
(about 194+ characters at interchange level 4; 180+ with XA) was refused with PyCdlibInternalError
('Rock Ridge entry increased DR length too far') instead of the invalid-input error.
usage: F13_5_rr_long_identifier.py [repo]"""
import sys, io
sys.path.insert(0, sys.argv[1] if len(sys.argv) > 1 else '/repo')
import pycdlib
from pycdlib import pycdlibexception as E

bad = []
for ver in ('1.09', '1.12'):
    for xa in (False, True):
        for kind in ('dir', 'file'):
            for n in list(range(170, 226, 1)):
                iso = pycdlib.PyCdlib()
                iso.new(interchange_level=4, rock_ridge=ver, xa=xa)
                name = '/' + 'D' * n
                try:
                    if kind == 'dir':
                        iso.add_directory(name, rr_name='d')
                    else:
                        iso.add_fp(io.BytesIO(b'x'), 1, name, rr_name='d')
                except E.PyCdlibInvalidInput:
                    continue
                except Exception as e:
                    bad.append('rr=%s xa=%s %s n=%d: refused with %s: %s' % (ver, xa, kind, n, type(e).__name__, e))
                    continue
                try:
                    out = io.BytesIO()
                    iso.write_fp(out)
                    iso.close()
                    chk = pycdlib.PyCdlib()
                    chk.open_fp(out)
                    rec = chk.get_record(rr_path='/d')
                    if rec.file_identifier() != ('D' * n).encode():
                        bad.append('rr=%s xa=%s %s n=%d: identifier not preserved' % (ver, xa, kind, n))
                    chk.close()
                except Exception as e:
                    bad.append('rr=%s xa=%s %s n=%d: accepted but write/reopen failed: %s: %s' % (ver, xa, kind, n, type(e).__name__, e))
if bad:
    print('\n'.join(bad[:12])); print('%d problems' % len(bad)); print('FAIL'); sys.exit(1)
print('OK')
