# -*- coding: utf-8 -*-
"""
UDF name lookup ignores the OSTA compression id: a name that has to be stored
as UTF-16 (U+4E2D, bytes 4E 2D) is matched against an 8-bit identifier with the
same bytes ('N-').  add_fp(udf_path='/<U+4E2D>/x') therefore silently puts the
file into the unrelated directory 'N-' instead of failing.
"""
import io
import sys

sys.dont_write_bytecode = True
sys.path.insert(0, sys.argv[1])
import pycdlib  # noqa: E402  pylint: disable=wrong-import-position


def main():
    problems = []
    iso = pycdlib.PyCdlib()
    iso.new(udf='2.60')
    iso.add_directory('/DIR1', udf_path='/N-')

    try:
        rec = iso.get_record(udf_path=u'/中')
    except pycdlib.pycdlibexception.PyCdlibInvalidInput:
        pass
    else:
        problems.append('get_record(udf_path=U+4E2D) found %r although only the 8-bit name N- exists' % (rec.file_identifier(),))

    try:
        iso.add_fp(io.BytesIO(b'x'), 1, '/X.;1', udf_path=u'/中/x')
    except pycdlib.pycdlibexception.PyCdlibInvalidInput:
        pass
    else:
        names = [c.file_identifier() for c in iso.list_children(udf_path='/N-') if c is not None]
        problems.append('add_fp below the non-existent directory U+4E2D was accepted; /N- now contains %r' % (names,))

    # Lookups that must keep working: an 8-bit name, a 16-bit name, and a
    # latin-1 name that is found again.
    iso.add_directory('/DIR2', udf_path=u'/中文')
    iso.add_directory('/DIR3', udf_path=u'/d\xe9j\xe0')
    for path, stored in ((u'/N-', b'N-'), (u'/中文', b'\x4e\x2d\x65\x87'), (u'/d\xe9j\xe0', b'd\xe9j\xe0')):
        try:
            rec = iso.get_record(udf_path=path)
            if rec.file_identifier() != stored:
                problems.append('lookup of %r returned %r' % (path, rec.file_identifier()))
        except pycdlib.pycdlibexception.PyCdlibException as exc:
            problems.append('lookup of %r failed: %s' % (path, exc))
    iso.close()

    if problems:
        for problem in problems:
            print(problem)
        return 1
    print('OK')
    return 0


if __name__ == '__main__':
    sys.exit(main())
