"""SA-COORD: a position is computed from the cached coordinates of exactly one record (C02, C09, C17).

DirectoryRecord caches where it sits inside its parent directory (extents_to_here, offset_to_here,
index_in_parent).  Code that turns these into an absolute image offset (modify_file_in_place) or hands an
index to the parent (remove_child(child, index)) must take every coordinate - and the parent, and the
record length - from the *same* record.  Mixing two records (e.g. the ISO9660 record found by path and
the Joliet/link record being rewritten) is right whenever both happen to sit in the same sector of
their directories, which is what every small test image does.

For each block of statements that reads a coordinate attribute, the rule collects the receiver
expressions of all coordinate attributes, of `.parent` / `.dr_len` read in the same statements, and the
record-typed arguments of calls that are passed `<r>.index_in_parent`; there must be exactly one.
"""
import ast

from ..registry import rule, props
from ..report import Ob
from ..model import norm, type_classes, AnalysisError

COORD = ('extents_to_here', 'offset_to_here', 'index_in_parent')
WITH = ('parent', 'dr_len')
REC = 'dr.DirectoryRecord'


@rule('SA-COORD')
@props('C02', 'C09', 'C17')
def coord(ctx):
    obs = []
    ngroups = 0
    for fi in ctx.m.pkg_functions():
        if fi.cls is not None and fi.cls.qual == REC:
            continue           # the record maintains its own cache
        par = None
        groups = {}
        for n in ctx.own_nodes(fi):
            if isinstance(n, ast.Attribute) and n.attr in COORD and isinstance(n.ctx, ast.Load) and \
                    REC in type_classes(ctx.t.expr_type(n.value, fi)):
                st = ctx.enclosing_stmt(fi, n)
                if par is None:
                    par = ctx.parents(fi)
                blk = id(par.get(id(st)))
                groups.setdefault(blk, []).append(st)
        for blk, stmts in groups.items():
            ngroups += 1
            recvs = {}
            seen = set()
            for st in stmts:
                if id(st) in seen:
                    continue
                seen.add(id(st))
                for n in ast.walk(st):
                    if isinstance(n, ast.Attribute) and isinstance(n.ctx, ast.Load) and (n.attr in COORD or n.attr in WITH) and \
                            REC in type_classes(ctx.t.expr_type(n.value, fi)):
                        recvs.setdefault(norm(n.value), []).append(n)
                    if isinstance(n, ast.Call) and any(isinstance(a, ast.Attribute) and a.attr == 'index_in_parent' for a in n.args):
                        for a in n.args:
                            if not isinstance(a, ast.Attribute) or a.attr not in COORD:
                                if REC in type_classes(ctx.t.expr_type(a, fi)):
                                    recvs.setdefault(norm(a), []).append(a)
            # `x.parent.<something>`: x is the receiver, x.parent is not a second record
            roots = set(recvs)
            roots = set(r for r in roots if not (r.endswith('.parent') and r[:-7] in roots))
            key = '%s|%s' % (fi.qual, norm(stmts[0])[:90])
            ok = len(roots) == 1
            obs.append(Ob('SA-COORD', key, ok, ctx.loc(fi, stmts[0]),
                          '' if ok else 'the position is put together from the cached coordinates of different records (%s): they agree only while both records '
                          'sit in the same sector / at the same index of their directories, otherwise the bytes of another record (or another directory) are addressed'
                          % ', '.join('`%s`' % r for r in sorted(roots))))
    if ngroups < 5:
        raise AnalysisError('anchor-vanished: coordinate computations (%d)' % ngroups)
    return obs
