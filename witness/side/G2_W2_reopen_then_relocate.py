"""
Open an image that already has relocated (depth 8) Rock Ridge directories and
add one more directory at depth 8: the new directory is stored inside one of
the relocated directories instead of inside RR_MOVED, and that directory gets
a link count of 3 although it has no Rock Ridge subdirectory.
"""
import io
import struct
import sys

sys.dont_write_bytecode = True
sys.path.insert(0, sys.argv[1])
import pycdlib  # noqa: E402

SECTOR = 2048


def susp_entries(img, area):
    """Yield (signature, payload) of all SUSP entries, following CE entries."""
    todo = [area]
    while todo:
        data = todo.pop(0)
        off = 0
        while off + 4 <= len(data):
            sig = data[off:off + 2]
            length = data[off + 2]
            if length < 4 or not sig.isalpha():
                break
            body = data[off + 4:off + length]
            if sig == b'CE':
                blk, = struct.unpack_from('<L', body, 0)
                coff, = struct.unpack_from('<L', body, 8)
                clen, = struct.unpack_from('<L', body, 16)
                todo.append(img[blk * SECTOR + coff:blk * SECTOR + coff + clen])
            else:
                yield sig, body
            off += length


def read_dir(img, extent, size):
    """Return the entries of one directory as a list of dicts."""
    data = img[extent * SECTOR:extent * SECTOR + size]
    entries = []
    off = 0
    while off < len(data):
        reclen = data[off]
        if reclen == 0:
            off = (off // SECTOR + 1) * SECTOR
            continue
        len_fi = data[off + 32]
        su = off + 33 + len_fi + (1 if len_fi % 2 == 0 else 0)
        entry = {'ident': data[off + 33:off + 33 + len_fi],
                 'extent': struct.unpack_from('<L', data, off + 2)[0],
                 'size': struct.unpack_from('<L', data, off + 10)[0],
                 'isdir': bool(data[off + 25] & 2),
                 'nlink': None, 'cl': None, 're': False}
        for sig, body in susp_entries(img, data[su:off + reclen]):
            if sig == b'PX':
                entry['nlink'] = struct.unpack_from('<L', body, 8)[0]
            elif sig == b'CL':
                entry['cl'] = struct.unpack_from('<L', body, 0)[0]
            elif sig == b'RE':
                entry['re'] = True
        entries.append(entry)
        off += reclen
    return entries


def root_dir(img):
    root = img[16 * SECTOR + 156:16 * SECTOR + 190]
    return struct.unpack_from('<L', root, 2)[0], struct.unpack_from('<L', root, 10)[0]


def lookup(img, path):
    extent, size = root_dir(img)
    entry = None
    for part in path:
        for entry in read_dir(img, extent, size):
            if entry['ident'] == part:
                break
        else:
            return None
        extent, size = entry['extent'], entry['size']
    return entry


def main():
    deep = ''
    iso = pycdlib.PyCdlib()
    iso.new(rock_ridge='1.09')
    for level in range(1, 8):
        deep += '/DIR%d' % level
        iso.add_directory(deep, rr_name='dir%d' % level)
    for letter in 'ABC':
        iso.add_directory(deep + '/DIR8' + letter, rr_name='dir8' + letter.lower())
    first = io.BytesIO()
    iso.write_fp(first)
    iso.close()

    iso = pycdlib.PyCdlib()
    iso.open_fp(io.BytesIO(first.getvalue()))
    iso.add_directory(deep + '/DIR8D', rr_name='dir8d')
    second = io.BytesIO()
    iso.write_fp(second)
    iso.close()
    img = second.getvalue()

    problems = []
    moved = lookup(img, [b'RR_MOVED'])
    if moved is None:
        print('no RR_MOVED directory in the image')
        return 1
    children = read_dir(img, moved['extent'], moved['size'])
    names = sorted(c['ident'] for c in children if c['ident'] not in (b'\x00', b'\x01'))
    wanted = [b'DIR8A', b'DIR8B', b'DIR8C', b'DIR8D']
    if names != wanted:
        problems.append('RR_MOVED contains %r, expected %r' % (names, wanted))
    for child in children:
        if child['ident'] in (b'\x00', b'\x01'):
            continue
        inner = [c['ident'] for c in read_dir(img, child['extent'], child['size'])
                 if c['ident'] not in (b'\x00', b'\x01')]
        if inner:
            problems.append('relocated directory %s contains %r, should be empty'
                            % (child['ident'].decode(), inner))
        if child['nlink'] != 2:
            problems.append('relocated directory %s has link count %r, expected 2'
                            % (child['ident'].decode(), child['nlink']))
        if not child['re']:
            problems.append('entry %s in RR_MOVED has no RE entry' % child['ident'].decode())

    # The placeholder in the logical parent must point at a child of RR_MOVED.
    placeholder = lookup(img, [b'DIR1', b'DIR2', b'DIR3', b'DIR4', b'DIR5', b'DIR6',
                               b'DIR7', b'DIR8D'])
    extents = dict((c['ident'], c['extent']) for c in children)
    if placeholder is None or placeholder['cl'] is None:
        problems.append('no CL placeholder for DIR8D in its logical parent')
    elif placeholder['cl'] != extents.get(b'DIR8D'):
        problems.append('CL of DIR8D points at extent %d, RR_MOVED/DIR8D is at %r'
                        % (placeholder['cl'], extents.get(b'DIR8D')))

    if problems:
        for line in problems:
            print(line)
        return 1
    print('OK')
    return 0


if __name__ == '__main__':
    sys.exit(main())
