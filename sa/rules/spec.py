"""SA-SPEC: on-disc layouts against an independent oracle transcribed from the standards
(/verif/tables/spec_layout.json), keyed by class and byte offset.

For every tabulated structure: total size of the packed format, and at every tabulated
offset the width, byte order and kind of what record() emits there (derived from the
format string and the pack arguments), plus tabulated constants.  A change that moves or
resizes a field consistently in parse() and record() keeps every round trip green and is
caught here.
"""
import ast
import json
import os

from ..registry import rule, props
from ..report import Ob, VERIF
from ..model import norm, NotConst, AnalysisError
from .. import structfmt as sf
from .. import lenalg

INT_CODES = 'bBhHiIlLqQ'


def load_spec():
    with open(os.path.join(VERIF, 'tables', 'spec_layout.json')) as f:
        return json.load(f)


def _const(v):
    if isinstance(v, str):
        if v.startswith('ascii:'):
            return v[6:].encode('ascii')
        if v.startswith('hex:'):
            return bytes.fromhex(v[4:])
    return v


def main_pack_site(ctx, ci, funcname):
    fi = ci.methods.get(funcname)
    if fi is None:
        for alt in ('record', '_record'):
            fi = ci.methods.get(alt)
            if fi is not None:
                break
    if fi is None:
        return None, None
    best = None
    for s in sf.sites(ctx, fi):
        if s.kind == 'pack' and s.fields is not None and s.items is not None:
            if best is None or s.size > best.size:
                best = s
    return fi, best


def check_struct(ctx, cq, spec, rid='SA-SPEC'):
    obs = []
    ci = ctx.m.classes.get(cq)
    if ci is None:
        raise AnalysisError('anchor-vanished class %s (spec table)' % cq)
    fi, site = main_pack_site(ctx, ci, spec.get('func', 'record'))
    if site is None:
        raise AnalysisError('anchor-vanished: no struct.pack in %s.%s' % (cq, spec.get('func', 'record')))
    loc = ctx.loc(fi, site.call)
    ok = site.size == spec['size']
    obs.append(Ob(rid, '%s|size' % cq, ok, loc,
                  '' if ok else 'packed size %d, %s says %d' % (site.size, spec['ref'], spec['size'])))
    byoff = {f.offset: (i, f) for i, f in enumerate(site.fields)}
    sdefs = ctx.single_defs(fi)
    fo = lenalg.folder(ctx, fi)
    for row in spec['fields']:
        off, w, kind = row[0], row[1], row[2]
        const = _const(row[3]) if len(row) > 3 else None
        key = '%s|offset %d' % (cq, off)
        if off not in byoff:
            obs.append(Ob(rid, key, False, loc, 'no field starts at byte %d (%s: %d-byte %s field)' % (off, spec['ref'], w, kind)))
            continue
        i, f = byoff[off]
        arg = site.items[i] if i < len(site.items) else None
        rarg = sf.resolve_local(arg, sdefs) if arg is not None else None
        why = ''
        if kind == 'both':
            half = w // 2
            nxt = site.fields[i + 1] if i + 1 < len(site.fields) else None
            narg = sf.resolve_local(site.items[i + 1], sdefs) if i + 1 < len(site.items) else None
            if f.width != half or f.code not in INT_CODES:
                why = 'expected %d-byte integer (little-endian copy), found %s width %d' % (half, f.code, f.width)
            elif site.prefix not in ('<',):
                why = 'little-endian copy packed with prefix %r' % site.prefix
            elif nxt is None or nxt.width != half or nxt.offset != off + half:
                why = 'no %d-byte big-endian copy at byte %d' % (half, off + half)
            elif sf.swab_width(narg) != half * 8:
                why = 'big-endian copy is not swab_%dbit(...) of the value' % (half * 8)
            elif sf.swab_width(rarg) is not None:
                why = 'little-endian copy is byte-swapped'
            elif norm(sf.resolve_local(narg.args[0], sdefs)) != norm(rarg):
                why = 'the two byte-order copies carry different values (%s / %s)' % (norm(rarg), norm(narg.args[0]))
        elif kind in ('le', 'be', 'int', 'u8', 'i8'):
            if f.width != w or f.code not in INT_CODES:
                if kind == 'le' and const == 0 and f.width == w:
                    pass
                else:
                    why = 'expected %d-byte integer, found %s width %d' % (w, f.code, f.width)
            if not why and kind == 'i8' and f.code != 'b':
                why = 'expected signed byte, found %r' % f.code
            if not why and kind == 'u8' and f.code == 'b':
                why = 'expected unsigned byte, found signed'
            if not why and w > 1:
                swabbed = sf.swab_width(rarg) is not None
                if kind == 'le' and (site.prefix not in ('<',) or swabbed):
                    why = 'expected little-endian, found prefix %r%s' % (site.prefix, ' with swab' if swabbed else '')
                if kind == 'be' and not ((site.prefix in ('>', '!') and not swabbed) or (site.prefix == '<' and swabbed)):
                    why = 'expected big-endian, found prefix %r%s' % (site.prefix, ' with swab' if swabbed else ' without swab')
        elif kind == 'bytes':
            if f.width != w or f.code != 's':
                why = 'expected %d opaque bytes, found %s width %d' % (w, f.code, f.width)
        if not why and const is not None:
            try:
                v = fo(rarg)
                if isinstance(const, bytes) and isinstance(v, bytes):
                    if v.ljust(w, b'\x00') != const.ljust(w, b'\x00'):
                        why = 'constant %r, %s says %r' % (v, spec['ref'], const)
                elif v != const:
                    why = 'constant %r, %s says %r' % (v, spec['ref'], const)
            except NotConst:
                why = 'expected the constant %r here, found %s' % (const, norm(rarg)[:60])
        obs.append(Ob(rid, key, not why, ctx.loc(fi, arg) if arg is not None else loc,
                      why and ('%s [%s]' % (why, spec['ref']))))
    # SUSP signature
    if 'sig' in spec:
        sig = spec['sig'].encode('ascii')
        found = False
        for n in ctx.own_nodes(fi):
            if isinstance(n, ast.Constant) and n.value == sig:
                found = True
        obs.append(Ob(rid, '%s|signature' % cq, found, loc, '' if found else 'record() does not emit the signature %r' % sig))
    return obs


def _all(ctx):
    cache = getattr(ctx, '_spec_obs', None)
    if cache is None:
        spec = load_spec()
        cache = ctx._spec_obs = {}
        for cq, st in spec['structs'].items():
            cache[cq] = check_struct(ctx, cq, st)
    return cache


def _select(ctx, prefixes, rid):
    out = []
    for cq, obs in _all(ctx).items():
        if any(cq.startswith(p) for p in prefixes):
            for o in obs:
                o2 = Ob(rid, o.key, o.ok, o.loc, o.detail)
                out.append(o2)
    if not out:
        raise AnalysisError('anchor-vanished: no spec rows for %s' % (prefixes,))
    return out


@rule('SA-SPEC.iso9660')
@props('C03', 'C05')
def spec_iso(ctx):
    return _select(ctx, ['headervd.', 'dr.', 'path_table_record.'], 'SA-SPEC.iso9660')


@rule('SA-SPEC.dates')
@props('C19')
def spec_dates(ctx):
    out = _select(ctx, ['dates.', 'udf.UDFTimestamp'], 'SA-SPEC.dates')
    # VolumeDescriptorDate: 16 digits + 1 offset byte = 17 (ECMA-119 8.4.26.1)
    ci = ctx.cls('dates.VolumeDescriptorDate')
    mi = ctx.m.modules['dates']
    from ..model import fold
    try:
        tf = fold(ci.consts['TIME_FMT'], ctx.m, mi, ci)
    except (KeyError, NotConst):
        raise AnalysisError('anchor-vanished dates.VolumeDescriptorDate.TIME_FMT')
    ok = tf == '%Y%m%d%H%M%S'
    out.append(Ob('SA-SPEC.dates', 'dates.VolumeDescriptorDate|TIME_FMT', ok, 'pycdlib/dates.py',
                  '' if ok else 'digit layout %r is not YYYYMMDDHHMMSS' % tf))
    return out


@rule('SA-SPEC.eltorito')
@props('C11')
def spec_eltorito(ctx):
    return _select(ctx, ['eltorito.', 'headervd.BootRecord'], 'SA-SPEC.eltorito')


@rule('SA-SPEC.susp')
@props('C08')
def spec_susp(ctx):
    return _select(ctx, ['rockridge.'], 'SA-SPEC.susp')


@rule('SA-SPEC.udf')
@props('C10')
def spec_udf(ctx):
    return _select(ctx, ['udf.'], 'SA-SPEC.udf')


@rule('SA-SPEC.hybrid')
@props('C12')
def spec_hybrid(ctx):
    out = _select(ctx, ['isohybrid.'], 'SA-SPEC.hybrid')
    # MBR layout of IsoHybrid.record: header + boot code + rba + 0 + disk signature @440 + 0 -> 446,
    # then four 16-byte entries, then 55 AA at 510
    spec = load_spec()['mbr']
    ci = ctx.cls('isohybrid.IsoHybrid')
    fi = ci.methods.get('record')
    if fi is None:
        raise AnalysisError('anchor-vanished isohybrid.IsoHybrid.record')
    sites = [s for s in sf.sites(ctx, fi) if s.kind == 'pack' and s.fields]
    head = max(sites, key=lambda s: s.size)
    ok = head.size == spec['partition_table_offset']
    out.append(Ob('SA-SPEC.hybrid', 'isohybrid.IsoHybrid|partition-table-offset', ok, ctx.loc(fi, head.call),
                  '' if ok else 'MBR head is %d bytes, the partition table must start at %d' % (head.size, spec['partition_table_offset'])))
    offs = {f.offset: (i, f) for i, f in enumerate(head.fields)}
    ok = spec['disk_signature_offset'] in offs and offs[spec['disk_signature_offset']][1].width == 4 and \
        norm(head.items[offs[spec['disk_signature_offset']][0]]) == 'self.mbr_id'
    out.append(Ob('SA-SPEC.hybrid', 'isohybrid.IsoHybrid|disk-signature', ok, ctx.loc(fi, head.call),
                  '' if ok else 'the 32-bit disk signature (mbr_id) must sit at byte %d' % spec['disk_signature_offset']))
    ent = [(fi, s) for s in sites if s.size == spec['entry_size'] and len(s.fields) == 10]
    if not ent:
        # the entry may be packed by a helper of the class that record() calls
        for c in ctx.own_nodes(fi):
            if isinstance(c, ast.Call) and isinstance(c.func, ast.Attribute) and isinstance(c.func.value, ast.Name) and c.func.value.id == 'self' and \
                    c.func.attr in ci.methods and c.func.attr != 'record':
                h = ci.methods[c.func.attr]
                ent.extend((h, s) for s in sf.sites(ctx, h) if s.kind == 'pack' and s.fields and s.size == spec['entry_size'] and len(s.fields) == 10)
    if not ent:
        out.append(Ob('SA-SPEC.hybrid', 'isohybrid.IsoHybrid|partition-entry', False, ctx.loc(fi, fi.node), 'no 16-byte partition entry packed'))
    record_fi = fi
    for fi, s in ent:
        fo = lenalg.folder(ctx, fi)
        for row in spec['entry']:
            off, w, kind = row[0], row[1], row[2]
            f = [x for x in s.fields if x.offset == off]
            why = ''
            if not f or f[0].width != w:
                why = 'no %d-byte field at byte %d of the partition entry' % (w, off)
            elif w > 1 and s.prefix != '<':
                why = 'partition entry integers must be little-endian'
            elif len(row) > 3:
                try:
                    if fo(s.items[f[0].index]) != row[3]:
                        why = 'active flag must be 0x80'
                except NotConst:
                    why = 'active flag must be the constant 0x80'
            out.append(Ob('SA-SPEC.hybrid', 'isohybrid.IsoHybrid|partition-entry offset %d' % off, not why, ctx.loc(fi, s.call), why))
    # four entries, 0x55AA tail
    fi = record_fi
    loops = [n for n in ctx.own_nodes(fi) if isinstance(n, ast.For) and norm(n.iter) == 'range(1, 5)']
    out.append(Ob('SA-SPEC.hybrid', 'isohybrid.IsoHybrid|four-entries', bool(loops), ctx.loc(fi, fi.node),
                  '' if loops else 'the partition table must have exactly four entries'))
    tail = any(isinstance(n, ast.Constant) and n.value == b'\x55\xaa' for n in ctx.own_nodes(fi))
    out.append(Ob('SA-SPEC.hybrid', 'isohybrid.IsoHybrid|signature', tail, ctx.loc(fi, fi.node),
                  '' if tail else 'MBR must end in 55 AA'))
    return out
