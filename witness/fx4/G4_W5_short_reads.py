#!/usr/bin/env python
"""
Witness for observation E: utils.copy_data_yield took any read() that returned
less than it asked for as the end of the data.

A raw stream (io.RawIOBase) is allowed to return fewer bytes than requested
without being at its end.  A file added with add_fp from such a stream was cut
off after the first short read, both when it was read back
(get_file_from_iso_fp) and when the image was written (the rest of the file
was zeros in the image).

Usage: W5_short_reads.py <path-to-checkout>
"""
import io
import os
import shutil
import sys
import tempfile

sys.path.insert(0, sys.argv[1])

import pycdlib  # noqa: E402

CONTENT = bytes(bytearray((i * 11 + i // 256) % 253 for i in range(10000)))
OTHER = b'the file behind it\n' * 200


class ShortReader(io.RawIOBase):
    """A seekable raw stream that never gives more than 700 bytes at once."""
    def __init__(self, data):
        super(ShortReader, self).__init__()
        self.data = data
        self.pos = 0

    def readable(self):
        return True

    def seekable(self):
        return True

    def seek(self, off, whence=0):
        if whence == 0:
            self.pos = off
        elif whence == 1:
            self.pos += off
        else:
            self.pos = len(self.data) + off
        return self.pos

    def tell(self):
        return self.pos

    def readinto(self, b):
        chunk = self.data[self.pos:self.pos + min(len(b), 700)]
        b[:len(chunk)] = chunk
        self.pos += len(chunk)
        return len(chunk)


def describe(got, expected):
    if got == expected:
        return None
    same = 0
    while same < min(len(got), len(expected)) and got[same] == expected[same]:
        same += 1
    return '%d bytes, expected %d; the first %d bytes are right' % (len(got), len(expected), same)


def check(what, iso, problems):
    for blocksize in (32768, 2048, 100):
        out = io.BytesIO()
        iso.get_file_from_iso_fp(out, iso_path='/SHORT.;1', blocksize=blocksize)
        bad = describe(out.getvalue(), CONTENT)
        if bad:
            problems.append('%s: get_file_from_iso_fp(blocksize=%d) gives %s' % (what, blocksize, bad))
    with iso.open_file_from_iso(iso_path='/SHORT.;1') as fp:
        bad = describe(fp.read(), CONTENT)
        if bad:
            problems.append('%s: open_file_from_iso().read() gives %s' % (what, bad))
        fp.seek(650)
        bad = describe(fp.read(1000), CONTENT[650:1650])
        if bad:
            problems.append('%s: open_file_from_iso() seek(650), read(1000) gives %s' % (what, bad))
    out = io.BytesIO()
    iso.get_file_from_iso_fp(out, iso_path='/OTHER.;1')
    if out.getvalue() != OTHER:
        problems.append('%s: the other file reads wrong' % (what))


def main():
    problems = []
    tmpdir = tempfile.mkdtemp()
    try:
        iso = pycdlib.PyCdlib()
        iso.new()
        iso.add_fp(ShortReader(CONTENT), len(CONTENT), '/SHORT.;1')
        iso.add_fp(io.BytesIO(OTHER), len(OTHER), '/OTHER.;1')
        check('new image', iso, problems)

        name = os.path.join(tmpdir, 'out.iso')
        iso.write(name)
        iso.close()

        iso2 = pycdlib.PyCdlib()
        iso2.open(name)
        check('written image', iso2, problems)
        iso2.close()
    finally:
        shutil.rmtree(tmpdir)

    if problems:
        print('DEFECT: a source stream that returns short reads is cut off')
        for p in problems:
            print('  ' + p)
        return 1
    print('OK')
    return 0


if __name__ == '__main__':
    sys.exit(main())
