"""
Observation D: isohybrid from syslinux makes the first El Torito EFI (0xef)
section of the boot catalog the EFI partition and the second one the Mac
partition.  This checks that the MBR/GPT partitions follow the order of the
sections in the boot catalog, not the order of the ISO9660 names of the boot
files.

usage: W4_efi_mac_by_name_order.py <path-to-checkout>
"""
import io
import struct
import sys

sys.path.insert(0, sys.argv[1])
import pycdlib  # noqa: E402

BOOT = b'\x00' * 0x40 + b'\xfb\xc0\x78\x70' + b'\x00' * (2048 - 0x44)


def efi_sections(img):
    """The (load_rba, sector_count) of the 0xef section entries, in catalog order."""
    if img[17 * 2048:17 * 2048 + 30] != b'\x00CD001\x01EL TORITO SPECIFICATION':
        raise Exception('no El Torito boot record at sector 17')
    (catalog,) = struct.unpack_from('<L', img, 17 * 2048 + 0x47)
    ret = []
    off = catalog * 2048 + 64
    platform = None
    remaining = 0
    while True:
        ind = img[off]
        if ind in (0x90, 0x91) and remaining == 0:
            (platform, remaining) = struct.unpack_from('<BH', img, off + 1)
        elif remaining > 0:
            (count, rba) = struct.unpack_from('<HL', img, off + 6)
            if platform == 0xef:
                ret.append((rba, count))
            remaining -= 1
        else:
            break
        off += 32
    return ret


def build(first, second):
    iso = pycdlib.PyCdlib()
    iso.new()
    iso.add_fp(io.BytesIO(BOOT), len(BOOT), '/BOOT.;1')
    iso.add_fp(io.BytesIO(b'1' * 2048), 2048, first)
    iso.add_fp(io.BytesIO(b'2' * 4096), 4096, second)
    iso.add_eltorito('/BOOT.;1', '/BOOT.CAT;1', boot_load_size=4)
    iso.add_eltorito(first, efi=True)
    iso.add_eltorito(second, efi=True)
    iso.add_isohybrid(mac=True, mbr_id=5)
    fp = io.BytesIO()
    iso.write_fp(fp)
    iso.close()
    return fp.getvalue()


def main():
    problems = []
    for (first, second) in (('/AAA.;1', '/ZZZ.;1'), ('/ZZZ.;1', '/AAA.;1')):
        label = 'sections %s, %s' % (first, second)
        img = build(first, second)
        secs = efi_sections(img)
        if len(secs) != 2:
            problems.append('%s: %d EFI section entries found' % (label, len(secs)))
            continue
        (efi_lba, efi_count) = struct.unpack_from('<LL', img, 446 + 16 + 8)
        (mac_lba, mac_count) = struct.unpack_from('<LL', img, 446 + 32 + 8)
        if (efi_lba, efi_count) != (secs[0][0] * 4, secs[0][1]):
            problems.append('%s: EFI partition is %d+%d, the first EFI section is the image at %d+%d' % (label, efi_lba, efi_count, secs[0][0] * 4, secs[0][1]))
        if (mac_lba, mac_count) != (secs[1][0] * 4, secs[1][1]):
            problems.append('%s: Mac partition is %d+%d, the second EFI section is the image at %d+%d' % (label, mac_lba, mac_count, secs[1][0] * 4, secs[1][1]))

    if problems:
        print('\n'.join(problems))
        return 1
    print('OK')
    return 0


if __name__ == '__main__':
    sys.exit(main())
