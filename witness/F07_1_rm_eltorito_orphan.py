"""F-07.1: hide the boot file (rm_hard_link) and then rm_eltorito: the blob loses its last reference
but is never released; the orphan inode makes the next write fail."""
import io, sys
sys.path.insert(0, '/repo')
import pycdlib

iso = pycdlib.PyCdlib()
iso.new()
iso.add_fp(io.BytesIO(b'b' * 2048), 2048, '/BOOT.;1')
iso.add_eltorito('/BOOT.;1', '/BOOT.CAT;1')
iso.rm_hard_link(iso_path='/BOOT.;1')     # boot file now referenced by El Torito only
iso.rm_eltorito()                          # last reference goes away
orphans = [i for i in iso.inodes if not i.linked_records]
print('inodes without any reference:', len(orphans))
out = io.BytesIO()
try:
    iso.write_fp(out)
    werr = None
except Exception as e:   # noqa
    werr = '%s: %s' % (type(e).__name__, e)
print('write:', werr or 'ok')
ok = not orphans and werr is None
print('OK' if ok else 'DEFECT')
sys.exit(0 if ok else 1)
