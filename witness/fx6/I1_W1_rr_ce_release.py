#!/usr/bin/env python
"""
Witness for observation A: removing the only user of a Rock Ridge
continuation block leaves the block counted in the volume size, but no
sector is assigned to it any more.

usage: W1_rr_ce_release.py <path-to-checkout>
"""
import io
import struct
import sys

sys.path.insert(0, sys.argv[1])

import pycdlib  # noqa: E402

problems = []


def master(iso):
    out = io.BytesIO()
    iso.write_fp(out)
    return out.getvalue()


def pvd_space_size(image):
    return struct.unpack_from('<L', image, 16 * 2048 + 80)[0]


def build(udf, remove):
    iso = pycdlib.PyCdlib()
    kw = {'rock_ridge': '1.09'}
    if udf:
        kw['udf'] = '2.60'
    iso.new(**kw)
    a = {'rr_name': 'a' * 230}
    b = {'rr_name': 'b'}
    d = {'rr_name': 'd' * 230}
    if udf:
        a['udf_path'] = '/a'
        b['udf_path'] = '/b'
        d['udf_path'] = '/d'
    if remove in ('file', 'link', 'never_file'):
        iso.add_fp(io.BytesIO(b'aa'), 2, '/A.;1', **a)
    iso.add_fp(io.BytesIO(b'bb'), 2, '/B.;1', **b)
    if remove in ('dir', 'never_dir'):
        iso.add_directory('/D', **d)
    if remove == 'file':
        iso.rm_file('/A.;1')
    elif remove == 'link':
        iso.rm_hard_link(iso_path='/A.;1')
        if udf:
            iso.rm_hard_link(udf_path='/a')
    elif remove == 'dir':
        if udf:
            iso.rm_directory('/D', udf_path='/d')
        else:
            iso.rm_directory('/D')
    return iso


def reference(udf):
    iso = pycdlib.PyCdlib()
    kw = {'rock_ridge': '1.09'}
    b = {'rr_name': 'b'}
    if udf:
        kw['udf'] = '2.60'
        b['udf_path'] = '/b'
    iso.new(**kw)
    iso.add_fp(io.BytesIO(b'bb'), 2, '/B.;1', **b)
    return master(iso)


for udf in (True, False):
    ref = reference(udf)
    for remove in ('file', 'link', 'dir'):
        what = 'udf=%s, long name removed with %s' % (udf, remove)
        iso = build(udf, remove)
        try:
            image = master(iso)
        except Exception as e:  # pylint: disable=broad-except
            problems.append('%s: write failed: %r' % (what, e))
            continue
        if len(image) != pvd_space_size(image) * 2048:
            problems.append('%s: image is %d bytes, PVD declares %d sectors' % (what, len(image), pvd_space_size(image)))
        if len(image) != len(ref):
            problems.append('%s: image has %d sectors, the same content mastered directly has %d (a continuation block without users is still counted)' % (what, len(image) // 2048, len(ref) // 2048))
        try:
            chk = pycdlib.PyCdlib()
            chk.open_fp(io.BytesIO(image))
            buf = io.BytesIO()
            chk.get_file_from_iso_fp(buf, rr_path='/b')
            if buf.getvalue() != b'bb':
                problems.append('%s: /b reads back %r' % (what, buf.getvalue()))
            names = sorted(c.file_identifier() for c in chk.list_children(iso_path='/'))
            if names != [b'.', b'..', b'B.;1']:
                problems.append('%s: root directory holds %r' % (what, names))
            chk.close()
        except Exception as e:  # pylint: disable=broad-except
            problems.append('%s: the written image cannot be opened: %r' % (what, e))

        # The freed block must be usable again, and later edits must behave.
        try:
            kw = {'rr_name': 'c' * 230}
            if udf:
                kw['udf_path'] = '/c'
            iso.add_fp(io.BytesIO(b'cc'), 2, '/C.;1', **kw)
            image = master(iso)
            chk = pycdlib.PyCdlib()
            chk.open_fp(io.BytesIO(image))
            buf = io.BytesIO()
            chk.get_file_from_iso_fp(buf, rr_path='/' + 'c' * 230)
            if buf.getvalue() != b'cc':
                problems.append('%s: long-named file added afterwards reads back %r' % (what, buf.getvalue()))
            chk.close()
        except Exception as e:  # pylint: disable=broad-except
            problems.append('%s: adding a long name afterwards failed: %r' % (what, e))
        iso.close()

if problems:
    print('\n'.join(problems))
    sys.exit(1)
print('OK')
sys.exit(0)
