"""A small abstract interpreter over strings for the name-mangling helpers.

Abstract string: length interval [lo, hi] (hi may be INF) x set of character classes
  U A-Z   D 0-9   _ underscore   L a-z   . dot   ; semicolon   o other ASCII   x non-ASCII
plus `same`: the name of the input this value is still identical to (for the identity obligation).

The transfer functions are sound for the operations the repo uses: slicing, str.upper (with the
maximal length expansion of str.upper measured over all code points of the running interpreter),
re.sub / re.subn with a single-character class and a one-character replacement (the class is read
with re._parser), str.split, len, +, tuple returns, and refinement by comparisons of len(x) with
constants.  Anything else evaluates to TOP (any string) - never to something more precise.
"""
import ast
import sys

from .model import norm, fold, NotConst

INF = float('inf')
ALL = frozenset('UD_L.;ox')


def _measure_upper_expansion():
    mx = 1
    for cp in range(sys.maxunicode + 1):
        try:
            u = chr(cp).upper()
        except Exception:
            continue
        if len(u) > mx:
            mx = len(u)
    return mx


UPPER_EXPANSION = _measure_upper_expansion()


def classify(ch):
    if 'A' <= ch <= 'Z':
        return 'U'
    if '0' <= ch <= '9':
        return 'D'
    if ch == '_':
        return '_'
    if 'a' <= ch <= 'z':
        return 'L'
    if ch == '.':
        return '.'
    if ch == ';':
        return ';'
    if ord(ch) < 128:
        return 'o'
    return 'x'


class S:
    __slots__ = ('lo', 'hi', 'chars', 'same')

    def __init__(self, lo, hi, chars, same=None):
        self.lo, self.hi, self.chars, self.same = lo, hi, frozenset(chars), same

    def __repr__(self):
        return 'S[%s..%s %s%s]' % (self.lo, self.hi, ''.join(sorted(self.chars)), ' =' + self.same if self.same else '')

    @staticmethod
    def const(v):
        return S(len(v), len(v), set(classify(c) for c in v))


class I:
    """abstract int: interval + optional tag len_of (name of the string variable it measures)"""
    __slots__ = ('lo', 'hi', 'len_of')

    def __init__(self, lo, hi, len_of=None):
        self.lo, self.hi, self.len_of = lo, hi, len_of

    def __repr__(self):
        return 'I[%s..%s%s]' % (self.lo, self.hi, ' len(%s)' % self.len_of if self.len_of else '')


class L:
    """list of strings (result of split): element abstraction + count interval"""
    __slots__ = ('elem', 'nlo', 'nhi', 'of')

    def __init__(self, elem, nlo, nhi, of=None):
        self.elem, self.nlo, self.nhi, self.of = elem, nlo, nhi, of


class T:
    __slots__ = ('items',)

    def __init__(self, items):
        self.items = list(items)

    def __repr__(self):
        return 'T%r' % (self.items,)


TOP = None   # unknown value


def top_str():
    return S(0, INF, ALL)


def join(a, b):
    if a is TOP or b is TOP:
        return TOP
    if isinstance(a, S) and isinstance(b, S):
        return S(min(a.lo, b.lo), max(a.hi, b.hi), a.chars | b.chars, a.same if a.same == b.same else None)
    if isinstance(a, T) and isinstance(b, T) and len(a.items) == len(b.items):
        return T([join(x, y) for x, y in zip(a.items, b.items)])
    if isinstance(a, I) and isinstance(b, I):
        return I(min(a.lo, b.lo), max(a.hi, b.hi))
    return TOP


def regex_single_class(pattern):
    """If pattern matches exactly one character from a (possibly negated) class, return
    (negated, set of chars / ranges as predicate).  Otherwise None."""
    import re._parser as sp   # noqa
    try:
        p = sp.parse(pattern)
    except Exception:
        return None
    items = list(p)
    if len(items) != 1:
        return None
    op, av = items[0]
    if str(op) == 'MAX_REPEAT':
        lo, hi, sub = av
        if lo != 1 or hi != 1:
            return None
        sub = list(sub)
        if len(sub) != 1:
            return None
        op, av = sub[0]
    if str(op) != 'IN':
        return None
    negated = False
    ranges = []
    for o, a in av:
        so = str(o)
        if so == 'NEGATE':
            negated = True
        elif so == 'RANGE':
            ranges.append((a[0], a[1]))
        elif so == 'LITERAL':
            ranges.append((a, a))
        else:
            return None
    return negated, ranges


def class_inside(cls, ranges):
    """is every character of class cls inside the union of ranges?"""
    full = {'U': (ord('A'), ord('Z')), 'D': (ord('0'), ord('9')), '_': (ord('_'), ord('_')),
            'L': (ord('a'), ord('z')), '.': (ord('.'), ord('.')), ';': (ord(';'), ord(';'))}
    if cls not in full:
        return False
    lo, hi = full[cls]
    return all(any(a <= c <= b for a, b in ranges) for c in range(lo, hi + 1))


def class_disjoint(cls, ranges):
    full = {'U': (ord('A'), ord('Z')), 'D': (ord('0'), ord('9')), '_': (ord('_'), ord('_')),
            'L': (ord('a'), ord('z')), '.': (ord('.'), ord('.')), ';': (ord(';'), ord(';'))}
    if cls == 'x':
        return all(b < 128 for a, b in ranges)
    if cls == 'o':
        return all(classify(chr(c)) != 'o' for a, b in ranges for c in range(a, min(b, 127) + 1))
    lo, hi = full[cls]
    return not any(a <= c <= b for a, b in ranges for c in range(lo, hi + 1))


class Interp:
    """Abstract execution of one function; collects the join of all returned values."""

    def __init__(self, ctx, funcs, consts=None, depth=0, watch=()):
        self.ctx = ctx
        self.funcs = funcs          # name -> FuncInfo of analysable helpers (for calls)
        self.depth = depth
        self.notes = []
        self.watch = set(watch)     # local names whose assigned abstract values are recorded
        self.watched = {}

    def run(self, fi, args):
        params = [p for p in fi.params]
        env = {}
        for p, a in zip(params, args):
            env[p] = a
        self.fi = fi
        self.returns = []
        self.raises = 0
        self._block(fi.node.body, env)
        out = None
        first = True
        for r in self.returns:
            out = r if first else join(out, r)
            first = False
        return out

    # ------------------------------------------------------------ statements
    def _block(self, stmts, env):
        """returns list of envs that fall through"""
        envs = [env]
        for st in stmts:
            nxt = []
            for e in envs:
                nxt.extend(self._stmt(st, e))
            envs = nxt
            if not envs:
                break
        return envs

    def _stmt(self, st, env):
        if isinstance(st, ast.Expr):
            return [env]
        if isinstance(st, ast.Return):
            self.returns.append(self._eval(st.value, env) if st.value is not None else TOP)
            return []
        if isinstance(st, ast.Raise):
            self.raises += 1
            return []
        if isinstance(st, ast.Assign):
            v = self._eval(st.value, env)
            e = dict(env)
            for t in st.targets:
                self._bind(t, v, e)
                if isinstance(t, ast.Name) and t.id in self.watch:
                    av = self._absstr(v)
                    self.watched[t.id] = av if t.id not in self.watched else join(self.watched[t.id], av)
            return [e]
        if isinstance(st, ast.If):
            res = self._cond(st.test, env)
            out = []
            for truth, e2 in res:
                if truth:
                    out.extend(self._block(st.body, e2))
                else:
                    out.extend(self._block(st.orelse, e2) if st.orelse else [e2])
            return out
        if isinstance(st, ast.Pass):
            return [env]
        if isinstance(st, (ast.While, ast.For)):
            # one abstract pass over the body for the watched assignments; afterwards forget what it assigns
            saved_returns = list(self.returns)
            self._block(st.body, dict(env))
            e = dict(env)
            for sub in ast.walk(st):
                if isinstance(sub, ast.Name) and isinstance(sub.ctx, ast.Store):
                    e[sub.id] = TOP
            return [e]
        # anything else: forget everything it may assign
        e = dict(env)
        for sub in ast.walk(st):
            if isinstance(sub, ast.Name) and isinstance(sub.ctx, ast.Store):
                e[sub.id] = TOP
        self.notes.append('unmodelled statement %s' % type(st).__name__)
        return [e]

    def _bind(self, t, v, env):
        if isinstance(t, ast.Name):
            if isinstance(v, I) and v.len_of is None:
                pass
            env[t.id] = v
        elif isinstance(t, (ast.Tuple, ast.List)):
            if isinstance(v, T) and len(v.items) == len(t.elts):
                for e, x in zip(t.elts, v.items):
                    self._bind(e, x, env)
            else:
                for e in t.elts:
                    self._bind(e, TOP, env)

    # ------------------------------------------------------------ conditions
    def _cond(self, test, env):
        """-> list of (truth value, refined env)"""
        if isinstance(test, ast.BoolOp):
            if isinstance(test.op, ast.Or):
                out = []
                pend = [env]
                for v in test.values:
                    nxt = []
                    for e in pend:
                        for truth, e2 in self._cond(v, e):
                            if truth:
                                out.append((True, e2))
                            else:
                                nxt.append(e2)
                    pend = nxt
                out.extend((False, e) for e in pend)
                return out
            else:
                out = []
                pend = [env]
                for v in test.values:
                    nxt = []
                    for e in pend:
                        for truth, e2 in self._cond(v, e):
                            if truth:
                                nxt.append(e2)
                            else:
                                out.append((False, e2))
                    pend = nxt
                out.extend((True, e) for e in pend)
                return out
        if isinstance(test, ast.UnaryOp) and isinstance(test.op, ast.Not):
            return [(not t, e) for t, e in self._cond(test.operand, env)]
        if isinstance(test, ast.Compare) and len(test.ops) > 1:
            # a <= x <= b  ==  a <= x and x <= b  (the middle operands are names or constants here: evaluated once either way)
            parts = []
            left = test.left
            for op_, c_ in zip(test.ops, test.comparators):
                parts.append(ast.Compare(left=left, ops=[op_], comparators=[c_]))
                left = c_
            return self._cond(ast.BoolOp(op=ast.And(), values=parts), env)
        if isinstance(test, ast.Compare) and len(test.ops) == 1:
            a = self._eval(test.left, env)
            b = self._eval(test.comparators[0], env)
            op = test.ops[0]
            if isinstance(a, int) and not isinstance(a, bool) and isinstance(b, I):
                # constant on the left: k <= x  ==  x >= k
                flip = {ast.Lt: ast.Gt, ast.LtE: ast.GtE, ast.Gt: ast.Lt, ast.GtE: ast.LtE, ast.Eq: ast.Eq, ast.NotEq: ast.NotEq}.get(type(op))
                if flip is not None:
                    a, b, op = b, a, flip()
            # concrete
            if isinstance(a, (int, str, bool)) and isinstance(b, (int, str, bool)):
                try:
                    r = {ast.Eq: a == b, ast.NotEq: a != b, ast.Lt: a < b, ast.LtE: a <= b, ast.Gt: a > b, ast.GtE: a >= b}[type(op)]
                    return [(bool(r), env)]
                except Exception:
                    pass
            if isinstance(a, I) and isinstance(b, int):
                return self._cmp_int(a, op, b, env)
            if isinstance(a, S) and isinstance(op, (ast.In, ast.NotIn)) and isinstance(b, T) and b.items and \
                    all(isinstance(x, S) and x.lo == x.hi for x in b.items):
                # x in ('\\x00', '\\x01'): impossible when no constant has a length and character classes x can have
                name = test.left.id if isinstance(test.left, ast.Name) else None
                possible = [x for x in b.items if a.lo <= x.lo <= a.hi and x.chars <= a.chars]
                res = []
                if possible:
                    e1 = dict(env)
                    if name:
                        j = None
                        for x in possible:
                            j = S(x.lo, x.hi, x.chars, None) if j is None else join(j, x)
                        e1[name] = S(j.lo, j.hi, j.chars, None)
                    res.append((isinstance(op, ast.In), e1))
                res.append((not isinstance(op, ast.In), env))
                return res
            if isinstance(a, S) and isinstance(b, str) and isinstance(op, (ast.Eq, ast.NotEq)):
                if b == '' :
                    # x == '' : refine length
                    name = test.left.id if isinstance(test.left, ast.Name) else None
                    res = []
                    if a.lo == 0:
                        e1 = dict(env)
                        if name:
                            e1[name] = S(0, 0, set(), a.same)
                        res.append((isinstance(op, ast.Eq), e1))
                    if a.hi > 0:
                        e2 = dict(env)
                        if name:
                            e2[name] = S(max(a.lo, 1), a.hi, a.chars, a.same)
                        res.append((not isinstance(op, ast.Eq), e2))
                    return res
            return [(True, env), (False, env)]
        v = self._eval(test, env)
        if isinstance(v, bool):
            return [(v, env)]
        if isinstance(v, S):
            res = []
            name = test.id if isinstance(test, ast.Name) else None
            if v.hi > 0:
                e1 = dict(env)
                if name:
                    e1[name] = S(max(v.lo, 1), v.hi, v.chars, v.same)
                res.append((True, e1))
            if v.lo == 0:
                e2 = dict(env)
                if name:
                    e2[name] = S(0, 0, set(), v.same)
                res.append((False, e2))
            return res
        return [(True, env), (False, env)]

    def _cmp_int(self, a, op, k, env):
        """split interval a by comparison with constant k; refine the string it measures"""
        def refine(lo, hi):
            if lo > hi:
                return None
            e = dict(env)
            for nm, v in env.items():
                if isinstance(v, I) and v is a:
                    e[nm] = I(lo, hi, a.len_of)
            if a.len_of and isinstance(env.get(a.len_of), S):
                s = env[a.len_of]
                nlo, nhi = max(s.lo, lo), min(s.hi, hi)
                if nlo > nhi:
                    return None
                e[a.len_of] = S(nlo, nhi, s.chars if nhi > 0 else set(), s.same)
            if a.len_of and isinstance(env.get(a.len_of), L):
                l = env[a.len_of]
                e[a.len_of] = L(l.elem, max(l.nlo, lo), min(l.nhi, hi), l.of)
                # a split with exactly one piece: the source has no separator
                if hi == 1 and l.of and isinstance(env.get(l.of[0]), S):
                    src = env[l.of[0]]
                    e[l.of[0]] = S(src.lo, src.hi, src.chars - {l.of[1]}, src.same)
            return e
        lo, hi = a.lo, a.hi
        if isinstance(op, ast.Eq):
            t, f1, f2 = refine(max(lo, k), min(hi, k)), refine(lo, min(hi, k - 1)), refine(max(lo, k + 1), hi)
            return [(True, t)] * (t is not None) + [(False, f) for f in (f1, f2) if f is not None]
        if isinstance(op, ast.NotEq):
            return [(not tr, e) for tr, e in self._cmp_int(a, ast.Eq(), k, env)]
        if isinstance(op, ast.Gt):
            t, f = refine(max(lo, k + 1), hi), refine(lo, min(hi, k))
        elif isinstance(op, ast.GtE):
            t, f = refine(max(lo, k), hi), refine(lo, min(hi, k - 1))
        elif isinstance(op, ast.Lt):
            t, f = refine(lo, min(hi, k - 1)), refine(max(lo, k), hi)
        elif isinstance(op, ast.LtE):
            t, f = refine(lo, min(hi, k)), refine(max(lo, k + 1), hi)
        else:
            return [(True, env), (False, env)]
        return [(True, t)] * (t is not None) + [(False, f)] * (f is not None)

    # ----------------------------------------------------------- expressions
    def _module_const(self, name):
        """a name that is not a local: a module-level constant of the function's module (a string or
        int literal bound exactly once at module level and never rebound through `global`)"""
        fi = getattr(self, 'fi', None)
        mi = self.ctx.m.modules.get(fi.module) if fi is not None else None
        if mi is None or name not in mi.consts:
            return TOP
        nbind = 0
        for x in ast.walk(mi.tree):
            if isinstance(x, ast.Name) and x.id == name and isinstance(x.ctx, (ast.Store, ast.Del)):
                nbind += 1
            elif isinstance(x, ast.Global) and name in x.names:
                return TOP
        if nbind != 1:
            return TOP
        try:
            v = fold(mi.consts[name], self.ctx.m, mi)
        except NotConst:
            return TOP
        return v if isinstance(v, (str, int)) and not isinstance(v, bool) else TOP

    def _eval(self, n, env):
        if isinstance(n, ast.Constant):
            if isinstance(n.value, str):
                return n.value
            return n.value
        if isinstance(n, ast.Name):
            if n.id in env:
                return env[n.id]
            return self._module_const(n.id)
        if isinstance(n, ast.Tuple):
            return T([self._absstr(self._eval(e, env)) for e in n.elts])
        if isinstance(n, ast.List):
            return [self._eval(e, env) for e in n.elts]
        if isinstance(n, ast.IfExp):
            out = None
            first = True
            for truth, e in self._cond(n.test, env):
                v = self._absstr(self._eval(n.body if truth else n.orelse, e))
                out = v if first else join(out, v)
                first = False
            return out
        if isinstance(n, ast.BinOp) and isinstance(n.op, ast.Add):
            a, b = self._eval(n.left, env), self._eval(n.right, env)
            if isinstance(a, int) and isinstance(b, int):
                return a + b
            a, b = self._absstr(a), self._absstr(b)
            if isinstance(a, S) and isinstance(b, S):
                same = a.same if (b.hi == 0) else (b.same if a.hi == 0 else None)
                return S(a.lo + b.lo, a.hi + b.hi, a.chars | b.chars, same)
            return TOP
        if isinstance(n, ast.BinOp) and isinstance(n.op, ast.Sub):
            a, b = self._eval(n.left, env), self._eval(n.right, env)
            if isinstance(a, int) and isinstance(b, int):
                return a - b
            return TOP
        if isinstance(n, ast.BinOp) and isinstance(n.op, ast.Mod):
            # '%s%.03d' % (...) formatting
            fmt = self._eval(n.left, env)
            args = self._eval(n.right, env)
            if isinstance(fmt, str):
                items = args.items if isinstance(args, T) else [args]
                return self._format(fmt, items)
            return TOP
        if isinstance(n, ast.Subscript):
            v = self._eval(n.value, env)
            if isinstance(n.slice, ast.Slice):
                if isinstance(v, str):
                    v = S.const(v)
                    v.same = None
                if isinstance(v, S):
                    lo_e, hi_e = n.slice.lower, n.slice.upper
                    if lo_e is None and hi_e is not None:
                        k = self._eval(hi_e, env)
                        if isinstance(k, int) and k >= 0:
                            return S(min(v.lo, k), min(v.hi, k), v.chars, v.same if v.hi <= k else None)
                        return S(0, v.hi, v.chars, None)
                    return S(0, v.hi, v.chars, None)
                return TOP
            idx = self._eval(n.slice, env)
            if isinstance(v, L):
                return S(v.elem.lo, v.elem.hi, v.elem.chars, None)
            if isinstance(v, T) and isinstance(idx, int) and -len(v.items) <= idx < len(v.items):
                return v.items[idx]
            return TOP
        if isinstance(n, ast.Call):
            return self._call(n, env)
        if isinstance(n, ast.Compare) or isinstance(n, ast.BoolOp):
            return TOP
        return TOP

    def _absstr(self, v):
        if isinstance(v, str):
            return S.const(v)
        return v

    def _format(self, fmt, items):
        import re
        parts = re.split(r'(%s|%\.?0?\d*d)', fmt)
        lo = hi = 0
        chars = set()
        it = iter(items)
        for p in parts:
            if p == '%s':
                v = self._absstr(next(it, TOP))
                if not isinstance(v, S):
                    return TOP
                lo += v.lo
                hi += v.hi
                chars |= v.chars
            elif p.startswith('%') and p.endswith('d'):
                next(it, None)
                m = re.search(r'(\d+)d', p)
                w = int(m.group(1)) if m else 1
                lo += w
                hi = INF if hi == INF else hi + max(w, 10)
                chars.add('D')
            else:
                lo += len(p)
                hi += len(p)
                chars |= set(classify(c) for c in p)
        return S(lo, hi, chars)

    def _call(self, n, env):
        f = n.func
        fn = norm(f)
        if fn == 'len' and len(n.args) == 1:
            v = self._eval(n.args[0], env)
            nm = n.args[0].id if isinstance(n.args[0], ast.Name) else None
            if isinstance(v, str):
                return len(v)
            if isinstance(v, S):
                if v.lo == v.hi:
                    return v.lo
                return I(v.lo, v.hi, nm)
            if isinstance(v, L):
                if v.nlo == v.nhi:
                    return v.nlo
                return I(v.nlo, v.nhi, nm)
            return TOP
        if fn in ('re.sub', 're.subn') and len(n.args) >= 3:
            pat, rep, s = (self._eval(a, env) for a in n.args[:3])
            s = self._absstr(s)
            # count / flags (positional 4th/5th or keyword): only IGNORECASE is modelled, anything else is unknown
            extra = list(n.args[3:]) + [k.value for k in n.keywords]
            names = [k.arg for k in n.keywords]
            ignorecase = False
            unknown_extra = False
            for i_, e_ in enumerate(extra):
                isflags = (i_ >= len(n.args[3:]) and names[i_ - len(n.args[3:])] == 'flags') or (i_ == 1 and i_ < len(n.args[3:]))
                txt = norm(e_)
                if isflags and set(t.strip() for t in txt.split('|')) <= {'re.IGNORECASE', 're.I'}:
                    ignorecase = True
                else:
                    unknown_extra = True
            if isinstance(pat, str) and isinstance(rep, str) and isinstance(s, S) and len(rep) == 1 and not unknown_extra:
                rc = regex_single_class(pat)
                if rc is not None:
                    negated, ranges = rc
                    if ignorecase:
                        # a letter range matches both cases - and, for str patterns, the handful of non-ASCII characters that
                        # case-fold to ASCII letters (U+0130, U+0131, U+017F, U+212A): part of class 'x' is inside the set
                        ranges = list(ranges)
                        for a_, b_ in list(ranges):
                            for c_ in range(a_, min(b_, 127) + 1):
                                ch = chr(c_)
                                if ch.isalpha():
                                    o_ = ord(ch.swapcase())
                                    ranges.append((o_, o_))
                        if any(chr(c_).isalpha() for a_, b_ in ranges for c_ in range(a_, min(b_, 127) + 1)):
                            ranges.append((0x130, 0x131))
                            ranges.append((0x17f, 0x17f))
                            ranges.append((0x212a, 0x212a))
                    keep = set()
                    changed = False
                    for c in s.chars:
                        inside = class_inside(c, ranges)
                        outside = class_disjoint(c, ranges)
                        matched_all = (not inside) if negated else inside      # every char of class is replaced?
                        matched_none = inside if negated else outside
                        if negated:
                            matched_all = outside
                            matched_none = inside
                        if matched_none:
                            keep.add(c)
                        elif matched_all:
                            keep.add(classify(rep))
                            changed = True
                        else:
                            keep.add(c)
                            keep.add(classify(rep))
                            changed = True
                    res = S(s.lo, s.hi, keep, None if changed else s.same)
                    if fn == 're.subn':
                        cnt = I(0, s.hi if changed else 0)
                        t = T([res, cnt])
                        # remember the un-substituted alternative for refinement on `numsub > 0`
                        t.items[1].len_of = None
                        self._subn_src = (res, S(s.lo, s.hi, s.chars & keep if changed else s.chars, s.same), changed)
                        return t
                    return res
            return top_str() if fn == 're.sub' else T([top_str(), I(0, INF)])
        if isinstance(f, ast.Attribute):
            recv = self._eval(f.value, env)
            m = f.attr
            rs = self._absstr(recv)
            if isinstance(recv, str) and m == 'join':
                rs = None
            if isinstance(rs, S):
                if m == 'upper':
                    chars = set()
                    for c in rs.chars:
                        if c == 'L':
                            chars.add('U')
                        elif c == 'x':
                            chars |= {'x', 'U', 'o'}
                        else:
                            chars.add(c)
                    hi = rs.hi * UPPER_EXPANSION if 'x' in rs.chars else rs.hi
                    same = rs.same if not (rs.chars & {'L', 'x'}) else None
                    return S(rs.lo, hi, chars, same)
                if m == 'split' and len(n.args) == 1:
                    sep = self._eval(n.args[0], env)
                    if isinstance(sep, str) and len(sep) == 1:
                        sc = classify(sep)
                        nm = f.value.id if isinstance(f.value, ast.Name) else None
                        nhi = 1 if sc not in rs.chars else INF
                        return L(S(0, rs.hi, rs.chars - {sc}), 1, nhi, (nm, sc) if nm else None)
                if m == 'decode' or m == 'encode':
                    return S(rs.lo, rs.hi, rs.chars, rs.same)
                if m == 'replace' and len(n.args) == 2:
                    a, b = self._eval(n.args[0], env), self._eval(n.args[1], env)
                    if isinstance(a, str) and isinstance(b, str) and len(a) == 1 and len(b) == 1:
                        ca = classify(a)
                        if ca not in rs.chars:
                            return S(rs.lo, rs.hi, rs.chars, rs.same)
                        # the class disappears only if `a` is its sole member ('.', ';', '_')
                        chars = set(rs.chars) | {classify(b)}
                        if ca in ('.', ';', '_') and classify(b) != ca:
                            chars.discard(ca)
                        return S(rs.lo, rs.hi, chars, None)
                    return S(0, INF, ALL, None)
                return TOP
            if isinstance(recv, str) and m == 'join' and len(n.args) == 1:
                lst = self._eval(n.args[0], env)
                if isinstance(lst, list) and all(isinstance(self._absstr(x), S) for x in lst):
                    xs = [self._absstr(x) for x in lst]
                    seps = S.const(recv)
                    lo = sum(x.lo for x in xs) + len(recv) * (len(xs) - 1)
                    hi = sum(x.hi for x in xs) + len(recv) * (len(xs) - 1)
                    ch = set(seps.chars) if len(xs) > 1 else set()
                    for x in xs:
                        ch |= x.chars
                    return S(lo, hi, ch)
                return TOP
            # module.function(...) of an analysable helper
        name = f.attr if isinstance(f, ast.Attribute) else (f.id if isinstance(f, ast.Name) else None)
        if name in self.funcs and self.depth < 4:
            args = [self._eval(a, env) for a in n.args]
            sub = Interp(self.ctx, self.funcs, depth=self.depth + 1)
            r = sub.run(self.funcs[name], args)
            self.notes.extend(sub.notes)
            return r
        return TOP
