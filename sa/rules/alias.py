"""SA-ALIAS.restore: "save, change, put back" needs a copy (C14).

A roll-back that saves a container attribute in a local (`saved = obj.links`), lets other code append to or remove
from it, and later assigns the local back (`obj.links = saved`) restores nothing: the local is the same list object
that was changed in place.  For every assignment `R.a = v` whose right-hand side is a local with a single reaching
definition `v = R.a` (same receiver expression, same attribute) and whose attribute is a list / dict / set / deque
by its type comment, the definition has to take a copy (`list(R.a)`, `R.a[:]`, `R.a.copy()`, `dict(R.a)`,
`copy.copy(...)`); a plain alias is reported.  (Assigning an attribute back to itself through an alias is at best a
no-op, so the rule has no legitimate instances to exempt.)
"""
import ast

from ..registry import rule, props
from ..report import Ob
from ..model import norm, AnalysisError
from .. import expand as ex

CONTAINERS = ('list', 'dict', 'set', 'deque')


@rule('SA-ALIAS.restore')
@props('C14', 'C07', 'C11')
def alias_restore(ctx):
    obs = []
    nassign = 0
    for fi in ctx.m.pkg_functions():
        cands = [n for n in ctx.own_nodes(fi) if isinstance(n, ast.Assign) and len(n.targets) == 1 and isinstance(n.targets[0], ast.Attribute)
                 and isinstance(n.value, ast.Name)]
        if not cands:
            continue
        g, RD = ex._rd(ctx, fi)
        for a in cands:
            nassign += 1
            t = ctx.t.expr_type(a.targets[0], fi)
            if t is None or t[0] not in CONTAINERS:
                continue
            node = g.node_of(a)
            reach = RD.get(node.id) if node is not None else None
            if reach is None:
                # inside an exception handler (the statement CFG has no edges into handlers): every binding of the local
                # in the function counts
                stmts = [x for x in ctx.own_nodes(fi) if isinstance(x, (ast.Assign, ast.AugAssign, ast.For, ast.With)) and
                         any(isinstance(y, ast.Name) and y.id == a.value.id and isinstance(y.ctx, ast.Store) for y in ast.walk(x))]
                if len(stmts) != 1 or not isinstance(stmts[0], ast.Assign) or len(stmts[0].targets) != 1 or not isinstance(stmts[0].targets[0], ast.Name):
                    continue
                d = stmts[0]
            else:
                defs = [g.nodes[dd] for nm, dd in reach if nm == a.value.id]
                if len(defs) != 1 or defs[0].kind != 'stmt' or not isinstance(defs[0].stmt, ast.Assign):
                    continue
                d = defs[0].stmt
            if norm(d.value) != norm(a.targets[0]):
                continue
            obs.append(Ob('SA-ALIAS.restore', '%s|%s' % (fi.qual, norm(a)), False, ctx.loc(fi, a),
                          '`%s` (line %d) puts back the value saved by `%s` (line %d), but the local is the same %s object as the attribute, not a copy: '
                          'whatever was appended to or removed from it in between is still there - the roll-back restores nothing'
                          % (norm(a), a.lineno, norm(d), d.lineno, t[0])))
    obs.append(Ob('SA-ALIAS.restore', 'attribute assignments from locals', True, '', '%d assignments of a local to an attribute examined' % nassign))
    if nassign < 20:
        raise AnalysisError('anchor-vanished: attribute assignments from locals (%d)' % nassign)
    return obs
