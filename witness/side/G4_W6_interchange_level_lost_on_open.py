"""
open() always ends up with interchange_level == 3 for level 1/2/3 images:
the '.' and '..' records (identifiers 0x00 and 0x01) are fed to the level
detection and are not d-characters.  After a reopen a name such as
/LONGNAMEX.;1 is accepted on an image that was created as level 1.
"""
import io
import sys

sys.path.insert(0, sys.argv[1])

import pycdlib  # noqa: E402 pylint: disable=wrong-import-position


def main():
    problems = []

    iso = pycdlib.PyCdlib()
    iso.new(interchange_level=1)
    iso.add_fp(io.BytesIO(b'a'), 1, '/A.;1')
    iso.add_directory('/D')
    out = io.BytesIO()
    iso.write_fp(out)
    iso.close()

    chk = pycdlib.PyCdlib()
    chk.open_fp(out)
    if chk.interchange_level != 1:
        problems.append('level 1 image with only level 1 names reopened as level %d' % (chk.interchange_level,))
    try:
        chk.add_fp(io.BytesIO(b'a'), 1, '/LONGNAMEX.;1')
        problems.append('/LONGNAMEX.;1 accepted on the reopened level 1 image')
    except pycdlib.pycdlibexception.PyCdlibInvalidInput:
        pass
    chk.close()

    # An image that does contain a long name must still be detected as level 3.
    iso = pycdlib.PyCdlib()
    iso.new(interchange_level=3)
    iso.add_fp(io.BytesIO(b'a'), 1, '/LONGNAMEX.;1')
    out = io.BytesIO()
    iso.write_fp(out)
    iso.close()
    chk = pycdlib.PyCdlib()
    chk.open_fp(out)
    if chk.interchange_level != 3:
        problems.append('image with a 9 character name reopened as level %d' % (chk.interchange_level,))
    chk.close()

    if problems:
        for problem in problems:
            print(problem)
        return 1
    print('OK')
    return 0


if __name__ == '__main__':
    sys.exit(main())
