"""F-02.2: a Rock Ridge PN (device node) entry is parsed but never recorded: re-mastering an image
with a device node yields a directory record shorter than its length byte."""
import io, sys, struct
sys.path.insert(0, '/repo')
import pycdlib
from pycdlib import rockridge

# build an RR image, then patch a PN record in by hand in the parsed object model
iso = pycdlib.PyCdlib()
iso.new(rock_ridge='1.09')
iso.add_fp(io.BytesIO(b'x'), 1, '/DEV.;1', rr_name='dev')
rec = iso.get_record(iso_path='/DEV.;1')
pn = rockridge.RRPNRecord()
pn.new(1, 2)
rec.rock_ridge.dr_entries.pn_record = pn
rec.dr_len += rockridge.RRPNRecord.length()
rec.parent._recalculate_extents_and_offsets(0, 2048)
raw = rec.record()
print('dr_len', rec.dr_len, 'bytes emitted', len(raw))
ok = len(raw) == rec.dr_len
print('OK' if ok else 'DEFECT')
sys.exit(0 if ok else 1)
