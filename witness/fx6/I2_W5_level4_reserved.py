#!/usr/bin/env python
"""
Observation E: the identifiers b'\\x00' and b'\\x01' are reserved for the
'dot' and 'dotdot' records (ECMA-119 7.6.2).  At interchange levels 1-3 the
mangling helpers turn such a source name into '_', at level 4 they return it
unchanged, and the library then refuses the name it was given by its own
helper: the Rock Ridge facade and pycdlib-genisoimage -iso-level 4 fail.

usage: W5_level4_reserved.py <path-to-checkout>
"""
import io
import os
import shutil
import subprocess
import sys
import tempfile

sys.path.insert(0, sys.argv[1])

import pycdlib
from pycdlib import utils

problems = []

# The helpers themselves.
for name in ('\x00', '\x01'):
    for level in (1, 2, 3, 4):
        base, ext = utils.mangle_file_for_iso9660(name, level)
        full = base if ext == '' else base + '.' + ext
        if full.split(';')[0] in ('\x00', '\x01'):
            problems.append('mangle_file_for_iso9660(%r, %d) returns the reserved identifier %r' % (name, level, full))
        dname = utils.mangle_dir_for_iso9660(name, level)
        if dname in ('\x00', '\x01'):
            problems.append('mangle_dir_for_iso9660(%r, %d) returns the reserved identifier %r' % (name, level, dname))
# Legal level 4 names are left alone.
for name in ('a', 'a.b', '\x02', '\x00\x00', 'a\x01', '\x01.x', 'x.\x01', 'Mixed Case.tar.gz'):
    base, ext = utils.mangle_file_for_iso9660(name, 4)
    full = base if ext == '' else base + '.' + ext
    if full != name:
        problems.append('mangle_file_for_iso9660(%r, 4) changed a legal name to %r' % (name, full))
    if utils.mangle_dir_for_iso9660(name, 4) != name:
        problems.append('mangle_dir_for_iso9660(%r, 4) changed a legal name' % (name))

# The facade.
for level in (1, 2, 3, 4):
    for isdir in (False, True):
        iso = pycdlib.PyCdlib()
        iso.new(interchange_level=level, rock_ridge='1.09')
        facade = iso.get_rock_ridge_facade()
        try:
            for name in ('\x00', '\x01', '_'):
                if isdir:
                    facade.add_directory('/' + name, 0o040555)
                else:
                    facade.add_fp(io.BytesIO(name.encode('ascii')), 1, '/' + name, 0o100444)
        except Exception as e:  # pylint: disable=broad-except
            problems.append('facade level %d %s: adding %r raised %s(%s)' % (level, 'add_directory' if isdir else 'add_fp', name, type(e).__name__, e))
            iso.close()
            continue
        out = io.BytesIO()
        iso.write_fp(out)
        iso.close()
        iso = pycdlib.PyCdlib()
        iso.open_fp(out)
        recs = [c for c in iso.list_children(iso_path='/')]
        idents = [c.file_identifier() for c in recs[2:]]
        if len(set(idents)) != 3 or [i for i in idents if i.split(b';')[0] in (b'\x00', b'\x01', b'.', b'..')]:
            problems.append('facade level %d: identifiers %r' % (level, idents))
        if sorted(c.rock_ridge.name() for c in recs[2:]) != [b'\x00', b'\x01', b'_']:
            problems.append('facade level %d: Rock Ridge names %r' % (level, [c.rock_ridge.name() for c in recs[2:]]))
        if not isdir:
            facade = iso.get_rock_ridge_facade()
            for name in ('\x00', '\x01', '_'):
                got = io.BytesIO()
                facade.get_file_from_iso_fp(got, '/' + name)
                if got.getvalue() != name.encode('ascii'):
                    problems.append('facade level %d: %r addresses a different entry' % (level, name))
        iso.close()

# pycdlib-genisoimage ('\x00' cannot be a file name on disk).
tmpdir = tempfile.mkdtemp()
try:
    srcdir = os.path.join(tmpdir, 'src')
    os.mkdir(srcdir)
    os.mkdir(os.path.join(srcdir, 'sub'))
    try:
        with open(os.path.join(srcdir, '\x01'), 'wb') as outfp:
            outfp.write(b'x')
        os.mkdir(os.path.join(srcdir, 'sub', '\x01'))
        usable = True
    except OSError:
        usable = False
    if usable:
        isoname = os.path.join(tmpdir, 'out.iso')
        env = dict(os.environ)
        env['PYTHONPATH'] = sys.argv[1]
        proc = subprocess.run([sys.executable, os.path.join(sys.argv[1], 'tools', 'pycdlib-genisoimage'),
                               '-quiet', '-iso-level', '4', '-R', '-o', isoname, srcdir],
                              env=env, stdout=subprocess.PIPE, stderr=subprocess.STDOUT, check=False)
        if proc.returncode != 0:
            problems.append('pycdlib-genisoimage -iso-level 4 failed: %s' % (proc.stdout.decode('utf-8', 'replace').strip().split('\n')[-1]))
        else:
            iso = pycdlib.PyCdlib()
            iso.open(isoname)
            for path in ('/\x01', '/sub/\x01'):
                try:
                    iso.get_record(rr_path=path)
                except Exception as e:  # pylint: disable=broad-except
                    problems.append('pycdlib-genisoimage -iso-level 4: %r is not in the image (%s)' % (path, e))
            iso.close()
finally:
    shutil.rmtree(tmpdir)

if problems:
    print('\n'.join(problems))
    sys.exit(1)
print('OK')
