#!/usr/bin/env python
"""
Observation H (3): the loop over the File Identifier Descriptors of a UDF
directory in _walk_udf_directories() hands parse_file_ident() a copy of the
directory data from the current offset to the end for every descriptor, so
open() takes time quadratic in the size of a directory.  The image is a
pycdlib UDF image whose root directory is replaced by one with N 'parent'
File Identifier Descriptors (40 bytes each, no File Entry needed) in front of
the entry for /foo.  Opening four times as many descriptors must take about
four times as long (sixteen times when quadratic); the limit used is eight
times.

usage: W10_udf_file_idents.py <path-to-checkout>
"""
import binascii
import io
import struct
import sys
import time

sys.path.insert(0, sys.argv[1])

import pycdlib

problems = []

BS = 2048


def fix_tag(desc):
    # Recompute the CRC and the checksum of the descriptor tag at the start of desc.
    crclen, = struct.unpack_from('<H', desc, 10)
    struct.pack_into('<H', desc, 8, binascii.crc_hqx(bytes(desc[16:16 + crclen]), 0))
    desc[4] = 0
    desc[4] = sum(desc[:16]) % 256


def tag_ok(block, ident):
    if struct.unpack_from('<H', block, 0)[0] != ident:
        return False
    return (sum(block[:16]) - block[4]) % 256 == block[4]


def build(numparents):
    iso = pycdlib.PyCdlib()
    iso.new(udf='2.60')
    iso.add_fp(io.BytesIO(b'x' * 10), 10, '/FOO.;1', udf_path='/foo')
    out = io.BytesIO()
    iso.write_fp(out)
    iso.close()
    img = bytearray(out.getvalue())

    part_start = None
    rootfe = None
    for blk in range(len(img) // BS):
        block = img[blk * BS:(blk + 1) * BS]
        if part_start is None and tag_ok(block, 5):
            part_start, = struct.unpack_from('<L', block, 188)
        # A File Entry whose ICB tag says 'directory'.
        if rootfe is None and tag_ok(block, 261) and block[27] == 4:
            rootfe = blk
    fe_off = rootfe * BS
    l_ea, l_ad = struct.unpack_from('<LL', img, fe_off + 168)
    dirlen, dirpos = struct.unpack_from('<LL', img, fe_off + 176 + l_ea)
    olddir = img[(part_start + dirpos) * BS:(part_start + dirpos) * BS + dirlen]
    # The first File Identifier Descriptor is the parent entry.
    if not olddir[18] & 0x8:
        raise Exception('unexpected directory layout')
    parentlen = (38 + struct.unpack_from('<H', olddir, 36)[0] + olddir[19] + 3) & ~3
    newdir = bytes(olddir[:parentlen]) * numparents + bytes(olddir[parentlen:])

    new_blk = len(img) // BS
    img += newdir + b'\x00' * (-len(newdir) % BS)

    fe = bytearray(img[fe_off:fe_off + 176 + l_ea + l_ad])
    struct.pack_into('<Q', fe, 56, len(newdir))                      # information length
    struct.pack_into('<Q', fe, 64, (len(newdir) + BS - 1) // BS)     # logical blocks recorded
    struct.pack_into('<LL', fe, 176 + l_ea, len(newdir), new_blk - part_start)
    fix_tag(fe)
    img[fe_off:fe_off + len(fe)] = fe
    return bytes(img)


def timed_open(img):
    best = None
    for attempt_unused in range(2):
        iso = pycdlib.PyCdlib()
        start = time.time()
        iso.open_fp(io.BytesIO(img))
        elapsed = time.time() - start
        got = io.BytesIO()
        iso.get_file_from_iso_fp(got, udf_path='/foo')
        if got.getvalue() != b'x' * 10:
            problems.append('/foo does not read back')
        iso.close()
        if best is None or elapsed < best:
            best = elapsed
    return best


small = 6 * 1024
large = 4 * small
tsmall = timed_open(build(small))
tlarge = timed_open(build(large))
if tlarge > 8 * tsmall and tlarge > 0.5:
    problems.append('open() of a UDF directory with %d File Identifier Descriptors: %.2f s, with %d: %.2f s (%.1f times as long for 4 times the descriptors)' % (small, tsmall, large, tlarge, tlarge / tsmall))

if problems:
    print('\n'.join(problems))
    sys.exit(1)
print('OK')
