"""SA-PARSE.header_fits: a loop that walks records with a fixed-size header consumes every record whose header fits
(C20; the UDF path components read by pycdlib-extract-files).

        while off + c OP len(data):            # OP is <= or <
            ... data[off + k] ...               # header fields
            off += H + <variable part>

The test guarantees g bytes from `off` on (g = c for <=, c + 1 for <).  Two necessary conditions are decided:
  completeness   g <= H: the loop must not ask for more than the fixed header before it looks at a record - a record that
                 consists of the header alone (a `..`, `.` or root component has no identifier) and ends the buffer is
                 otherwise dropped, and a symbolic link `lib/current/..` is extracted as `lib/current`;
  safety         every constant header index k read in the body is below g (no IndexError on a truncated buffer).
Loops whose advance has no constant part (the record parser returns the length) are not instances.
"""
import ast

from ..registry import rule, props
from ..report import Ob
from ..model import norm


def _const_plus(e):
    """(constant part, has variable part) of an additive expression"""
    if isinstance(e, ast.Constant) and isinstance(e.value, int):
        return e.value, False
    if isinstance(e, ast.BinOp) and isinstance(e.op, ast.Add):
        a, av = _const_plus(e.left)
        b, bv = _const_plus(e.right)
        return (a or 0) + (b or 0) if (a is not None or b is not None) else None, av or bv or a is None or b is None
    return None, True


@rule('SA-PARSE.header_fits')
@props('C20')
def header_fits(ctx):
    obs = []
    n = 0
    funcs = list(ctx.m.pkg_functions()) + [f for f in ctx.m.functions.values() if f.module.startswith('tool_')]
    for fi in funcs:
        for loop in ctx.own_nodes(fi):
            if not isinstance(loop, ast.While):
                continue
            t = loop.test
            if not (isinstance(t, ast.Compare) and len(t.ops) == 1 and isinstance(t.ops[0], (ast.Lt, ast.LtE)) and
                    isinstance(t.comparators[0], ast.Call) and norm(t.comparators[0].func) == 'len' and len(t.comparators[0].args) == 1):
                continue
            buf = norm(t.comparators[0].args[0])
            left = t.left
            if isinstance(left, ast.Name):
                off, c = left.id, 0
            elif isinstance(left, ast.BinOp) and isinstance(left.op, ast.Add) and isinstance(left.left, ast.Name) and \
                    isinstance(left.right, ast.Constant) and isinstance(left.right.value, int):
                off, c = left.left.id, left.right.value
            else:
                continue
            adv = [st for st in ast.walk(loop) if isinstance(st, ast.AugAssign) and isinstance(st.op, ast.Add) and isinstance(st.target, ast.Name) and st.target.id == off]
            if len(adv) != 1:
                continue
            H, _var = _const_plus(adv[0].value)
            if not H:
                continue
            n += 1
            g = c if isinstance(t.ops[0], ast.LtE) else c + 1
            ks = []
            for x in ast.walk(loop):
                if isinstance(x, ast.Subscript) and norm(x.value) == buf and not isinstance(x.slice, ast.Slice):
                    s = x.slice
                    if isinstance(s, ast.Name) and s.id == off:
                        ks.append(0)
                    elif isinstance(s, ast.BinOp) and isinstance(s.op, ast.Add) and isinstance(s.left, ast.Name) and s.left.id == off and \
                            isinstance(s.right, ast.Constant) and isinstance(s.right.value, int):
                        ks.append(s.right.value)
            why = ''
            if g > H:
                why = ('the loop runs only while %d bytes are left (`%s`), but a record is %d bytes plus a variable part that may be empty: a record that consists of its '
                       'header alone and ends the buffer is never looked at (the last `..`, `.` or `/` component of a symbolic link target is dropped)' % (g, norm(t), H))
            elif ks and max(ks) >= g:
                why = 'the body reads %s[%s + %d] although the test `%s` guarantees only %d bytes' % (buf, off, max(ks), norm(t), g)
            obs.append(Ob('SA-PARSE.header_fits', '%s|while %s' % (fi.qual, norm(t)), not why, ctx.loc(fi, loop), why))
    obs.append(Ob('SA-PARSE.header_fits', 'record loops with a fixed header examined', True, '', '%d' % n))
    return obs


@rule('SA-PAIR.cwd')
@props('C20')
def cwd_pair(ctx):
    """The working directory a tool restores is the one it started from: `old = os.getcwd()` that feeds a later
    `os.chdir(old)` is taken before the `os.chdir(<somewhere else>)` it is meant to undo.  Taken after it, the
    "restore" keeps the process in the other directory, and every relative path used afterwards (an -extract-to given
    relative to where the user started) resolves in the wrong place from the first symbolic link on."""
    obs = []
    n = 0
    funcs = [f for f in ctx.m.functions.values() if f.module.startswith('tool_')]
    for fi in funcs:
        par = ctx.parents(fi)
        for st in ctx.own_nodes(fi):
            if not (isinstance(st, ast.Assign) and len(st.targets) == 1 and isinstance(st.targets[0], ast.Name) and
                    isinstance(st.value, ast.Call) and norm(st.value.func) == 'os.getcwd'):
                continue
            v = st.targets[0].id
            restores = [c for c in ctx.own_nodes(fi) if isinstance(c, ast.Call) and norm(c.func) == 'os.chdir' and len(c.args) == 1 and
                        isinstance(c.args[0], ast.Name) and c.args[0].id == v]
            if not restores:
                continue
            n += 1
            blk = None
            p = par.get(id(st))
            for fld in ('body', 'orelse', 'finalbody'):
                b = getattr(p, fld, None)
                if isinstance(b, list) and any(x is st for x in b):
                    blk = b
            bad = None
            for x in (blk or []):
                if x is st:
                    break
                for c in ast.walk(x):
                    if isinstance(c, ast.Call) and norm(c.func) == 'os.chdir' and not (c.args and isinstance(c.args[0], ast.Name) and c.args[0].id == v):
                        bad = c
            obs.append(Ob('SA-PAIR.cwd', '%s|%s = os.getcwd()' % (fi.qual, v), bad is None, ctx.loc(fi, st),
                          '' if bad is None else '`%s = os.getcwd()` (line %d) is taken after `%s` (line %d): the directory that `os.chdir(%s)` goes back to is the one just '
                          'entered, not the one the tool was started in, so everything extracted afterwards through a relative path lands in the wrong place'
                          % (v, st.lineno, norm(bad)[:60], bad.lineno, v)))
    obs.append(Ob('SA-PAIR.cwd', 'saved working directories examined', True, '', '%d' % n))
    return obs


@rule('SA-TERM.range')
@props('C15')
def term_range(ctx):
    """While an image is opened, a counting loop that reads nothing from the image in its body (it only fills a set or a
    list) runs a number of times that is bounded by what was actually read - `len(<bytes>)` - and not by a length field
    taken from the image: a 32-bit field in a 50 KB file otherwise buys millions of iterations and hundreds of megabytes
    (with a block size of 1, billions), and the MemoryError that ends it is not a documented exception.  For every
    `for ... in range(start, stop)` of this kind in the functions reachable from open(): every term of `stop - start` is a
    constant or is computed from `len(...)`."""
    from .. import expand as ex
    obs = []
    n = 0
    roots = [ctx.func('pycdlib.PyCdlib._open_fp')]
    reach = ctx.reachable_from(roots)
    for q in sorted(reach):
        fi = ctx.m.functions.get(q)
        if fi is None or fi.module != 'pycdlib':
            continue
        for loop in ctx.own_nodes(fi):
            if not (isinstance(loop, ast.For) and isinstance(loop.iter, ast.Call) and isinstance(loop.iter.func, ast.Name) and loop.iter.func.id == 'range' and
                    1 <= len(loop.iter.args) <= 2):
                continue
            consumes = False
            for x in ast.walk(ast.Module(body=loop.body, type_ignores=[])):
                if isinstance(x, ast.Subscript) and isinstance(x.slice, ast.Slice):
                    consumes = True
                if isinstance(x, ast.Call) and isinstance(x.func, ast.Attribute) and x.func.attr in ('parse', 'read', 'unpack', 'unpack_from', 'seek'):
                    consumes = True
            if consumes:
                continue
            n += 1
            args = loop.iter.args
            start = args[0] if len(args) == 2 else ast.Constant(value=0)
            stop = args[-1]

            def atoms(e, sign, acc):
                if isinstance(e, ast.BinOp) and isinstance(e.op, ast.Add):
                    atoms(e.left, sign, acc)
                    atoms(e.right, sign, acc)
                elif isinstance(e, ast.BinOp) and isinstance(e.op, ast.Sub):
                    atoms(e.left, sign, acc)
                    atoms(e.right, -sign, acc)
                else:
                    k = norm(e)
                    acc[k] = acc.get(k, 0) + sign
                    acc.setdefault('#' + k, e)
            acc = {}
            atoms(stop, 1, acc)
            atoms(start, -1, acc)
            bad = []
            for k, c in acc.items():
                if k.startswith('#') or c == 0:
                    continue
                e = ex.expand(ctx, fi, acc['#' + k], loop, only='pure')
                if isinstance(e, ast.Constant):
                    continue
                names = [y for y in ast.walk(e) if isinstance(y, (ast.Name, ast.Attribute)) and not (isinstance(y, ast.Name) and y.id in ('utils', 'self', 'len'))]
                lens = [y for y in ast.walk(e) if isinstance(y, ast.Call) and isinstance(y.func, ast.Name) and y.func.id == 'len']
                inside_len = set(id(z) for l in lens for z in ast.walk(l))
                free = [y for y in names if id(y) not in inside_len and not norm(y).endswith('logical_block_size') and not norm(y).endswith('ceiling_div')]
                if free or not lens:
                    bad.append(norm(e))
            obs.append(Ob('SA-TERM.range', '%s|for %s in %s' % (fi.qual, norm(loop.target), norm(loop.iter)[:80]), not bad, ctx.loc(fi, loop),
                          '' if not bad else 'the loop reads nothing from the image in its body, and the number of its iterations is `%s`, which comes from a field of the image '
                          'and not from the length of what was read: a small hostile image makes open() spin and allocate without bound before any of the checks in the '
                          'record loop can notice that the data is short' % ', '.join(bad)))
    obs.append(Ob('SA-TERM.range', 'counting loops of open() that consume no data examined', True, '', '%d' % n))
    return obs
