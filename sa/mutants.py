"""Sensitivity self-test: seeded faults must be reported (and the report must name the edited
construct), behaviour-preserving twins must stay silent.  Mutants are in-memory overlays of the
current /repo sources (no copies on disk); each is analysed in a worker process.

A mutant whose anchor text is not present exactly once in the current tree is *skipped* (the tree
under analysis may itself have been edited there); that is reported in the evidence, not an error.
A fault that is not reported, or a twin that raises an alarm, is a checker fault: SELFTEST-FAILED,
exit code 2 - never a VIOLATION.
"""
import os
import random
import sys
import time
from concurrent.futures import ProcessPoolExecutor

from .model import REPO

# (name, kind, properties, rules expected to fire / all rules checked for twins, [(file, old, new)], expected substring of a new key or '')
CATALOGUE = []


def M(name, kind, props, rules, edits, expect=''):
    CATALOGUE.append({'name': name, 'kind': kind, 'props': props, 'rules': rules, 'edits': edits, 'expect': expect})


PY = 'pycdlib/pycdlib.py'
DR = 'pycdlib/dr.py'
RR = 'pycdlib/rockridge.py'
UDF = 'pycdlib/udf.py'
HVD = 'pycdlib/headervd.py'
IOF = 'pycdlib/pycdlibio.py'
ISOH = 'pycdlib/isohybrid.py'
ELT = 'pycdlib/eltorito.py'
UT = 'pycdlib/utils.py'
DT = 'pycdlib/dates.py'
INO = 'pycdlib/inode.py'
PTR = 'pycdlib/path_table_record.py'
GEN = 'tools/pycdlib-genisoimage'
EXT = 'tools/pycdlib-extract-files'

# ---------------------------------------------------------------- C16 stream
M('readinto-forgets-offset', 'fault', ['C16'], ['SA-PAIR.stream'],
  [(IOF, "            m[:n] = data\n            self._offset += n\n", "            m[:n] = data\n")], 'readinto')
M('read-without-seek', 'fault', ['C16'], ['SA-SEEK.position'],
  [(IOF, "            fp, thislen = self._seek_part(offset)\n            data = fp.read(min(thislen, readsize))\n", "            fp, thislen = self._parts[0][0], readsize\n            data = fp.read(min(thislen, readsize))\n")], '_read_parts')
M('read-unbounded-size', 'fault', ['C16'], ['SA-SEEK.bound'],
  [(IOF, "            readsize = min(self._length - self._offset, size)\n", "            readsize = size\n")], 'PyCdlibIO.read|')
M('seek-end-wrong-offset', 'fault', ['C16'], ['SA-SEEK.seekmethod'],
  [(IOF, "            self._offset = self._length + offset\n", "            self._offset = self._length - offset\n")], 'seek')
M('opendata-skips-seek-for-external', 'fault', ['C16'], ['SA-SEEK.opendata'],
  [(INO, "        else:\n            self.data_fp.seek(self.ino.fp_offset)\n", "        else:\n            pass\n")], '')
M('copy-reads-blocksize', 'fault', ['C16'], ['SA-SEEK.copy'],
  [(UT, "        readsize = min(blocksize, left)\n", "        readsize = blocksize\n")], 'copy_data_yield')
M('twin-read-temp', 'twin', ['C16'], [],
  [(IOF, "            data = self._read_parts(readsize)\n            self._offset += readsize\n\n        return data\n", "            chunk = self._read_parts(readsize)\n            self._offset += readsize\n            data = chunk\n\n        return data\n")])

# ---------------------------------------------------------------- C12
M('stale-loop-var-back', 'fault', ['C12'], ['SA-STALEVAR'],
  [(PY, "                                                          enc.entry.sector_count,\n                                                          self.pvd.space_size", "                                                          entry.sector_count,\n                                                          self.pvd.space_size")], 'entry')
M('gpt-mirror-dropped', 'fault', ['C12'], ['SA-SIB.gpt_mirror'],
  [(ISOH, "        self.secondary_gpt.parts[1].first_lba = current_extent * 4\n", "")], 'parts[1].first_lba')
M('gpt-header-crc-offset', 'fault', ['C12'], ['SA-SPEC.hybrid'],
  [(ISOH, "    FMT = '<8s4s4sLLQQQQ16sQLLL420s'", "    FMT = '<8s4s4sLQLQQQ16sQLLL420s'")], 'GPTHeader')
M('isohybrid-parse-swaps-counts', 'fault', ['C12', 'C05'], ['SA-SYM'],
  [(ISOH, "                (efi_lba, self.efi_count) = struct.unpack_from('<LL', instr[:offset + 16], offset + 8)", "                (self.efi_count, efi_lba) = struct.unpack_from('<LL', instr[:offset + 16], offset + 8)")], 'IsoHybrid')
M('twin-stalevar-rename', 'twin', ['C12'], [],
  [(PY, "            for enc in enc_to_update:\n                if id(enc.entry.inode) not in linked_inodes:\n",
    "            for enc in enc_to_update:\n                this_entry = enc.entry\n                if id(this_entry.inode) not in linked_inodes:\n")])

# ---------------------------------------------------------------- codec: C03 C05 C08 C10 C11 C19
M('dr-parse-swaps-unit-gap', 'fault', ['C05', 'C02'], ['SA-SYM'],
  [(DR, "         self.file_unit_size, self.interleave_gap_size, seqnum_le, seqnum_be,", "         self.interleave_gap_size, self.file_unit_size, seqnum_le, seqnum_be,")], 'DirectoryRecord')
M('dr-fmt-reordered-consistently', 'fault', ['C03'], ['SA-SPEC.iso9660'],
  [(DR, "    FMT = '<BBLLLL7sBBBHHB'", "    FMT = '<BBLLLLB7sBBHHB'")], 'DirectoryRecord')
M('pvd-space-size-not-swabbed', 'fault', ['C03'], ['SA-ENDIAN', 'SA-SPEC.iso9660'],
  [(HVD, "                           self.space_size,\n                           utils.swab_32bit(self.space_size),", "                           self.space_size,\n                           self.space_size,")], '')
M('ptr-be-forgets-swab', 'fault', ['C03'], ['SA-ENDIAN'],
  [(PTR, "                            utils.swab_16bit(self.parent_directory_num))", "                            self.parent_directory_num)")], 'PathTableRecord')
M('pvd-seqnum-be-swaps-wrong-field', 'fault', ['C03'], ['SA-ENDIAN', 'SA-SPEC.iso9660'],
  [(HVD, "                           self.seqnum,\n                           utils.swab_16bit(self.seqnum),", "                           self.seqnum,\n                           utils.swab_16bit(self.set_size),")], '')
M('rr-ce-record-wrong-len', 'fault', ['C08'], ['SA-SPEC.susp'],
  [(RR, "        return 28\n", "        return 26\n")], 'RRCERecord')
M('rr-px-le-be-swapped', 'fault', ['C08'], ['SA-ENDIAN', 'SA-SPEC.susp'],
  [(RR, "                                      SU_ENTRY_VERSION, self.posix_file_mode,\n                                      utils.swab_32bit(self.posix_file_mode),", "                                      SU_ENTRY_VERSION, utils.swab_32bit(self.posix_file_mode),\n                                      self.posix_file_mode,")], 'RRPXRecord')
M('udf-tag-fmt-crc-widened', 'fault', ['C10'], ['SA-SPEC.udf'],
  [(UDF, "    FMT = '<HHBBHHHL'", "    FMT = '<HHBBHLHH'")], 'UDFTag')
M('udf-fe-parse-swaps-uid-gid', 'fault', ['C10', 'C05'], ['SA-SYM'],
  [(UDF, "        (tag_unused, icb_tag, self.uid, self.gid, self.perms, self.file_link_count,\n", "        (tag_unused, icb_tag, self.gid, self.uid, self.perms, self.file_link_count,\n")], 'UDFFileEntry')
M('eltorito-validation-key-bytes', 'fault', ['C11'], ['SA-SPEC.eltorito'],
  [(ELT, "                           self.checksum, 0x55, 0xaa)", "                           self.checksum, 0xaa, 0x55)")], 'EltoritoValidationEntry')
M('udf-timestamp-minute-second-swapped', 'fault', ['C19'], ['SA-DATE'],
  [(UDF, "        self.minute = local.tm_min\n        self.second = local.tm_sec\n        self.centiseconds = 0", "        self.minute = local.tm_sec\n        self.second = local.tm_min\n        self.centiseconds = 0")], 'UDFTimestamp')
M('drdate-gmtoffset-from-gmtime', 'fault', ['C19'], ['SA-DATE'],
  [(DT, "        local = time.localtime(tm)\n        self.years_since_1900 = local.tm_year - 1900", "        local = time.gmtime(tm)\n        self.years_since_1900 = local.tm_year - 1900")], 'DirectoryRecordDate')
M('udf-tz-units-back', 'fault', ['C19'], ['SA-UNITS'],
  [(UDF, "        self.tz = utils.gmtoffset_from_tm(date_seconds, local) * 15", "        self.tz = utils.gmtoffset_from_tm(date_seconds, local)")], 'UDFTimestamp.tz')
M('vddate-digit-layout', 'fault', ['C19'], ['SA-SPEC.dates'],
  [(DT, "    TIME_FMT = '%Y%m%d%H%M%S'", "    TIME_FMT = '%Y%d%m%H%M%S'")], 'TIME_FMT')
M('twin-dr-record-temp', 'twin', ['C03', 'C05'], [],
  [(DR, "        extent_loc = self._extent_location()\n", "        extent_loc = self._extent_location()\n        flags = self.file_flags\n"),
   (DR, "                               self.date.record(), self.file_flags,\n", "                               self.date.record(), flags,\n")])

# ---------------------------------------------------------------- pairing / ownership
M('remove-child-forgets-rr-index', 'fault', ['C02', 'C13'], ['SA-PAIR.rr_children'],
  [(DR, "        for rr_index, rr_child in enumerate(self.rr_children):\n            if rr_child is child:\n                del self.rr_children[rr_index]\n                break\n", "")], 'remove_child')
M('remove-child-forgets-recalc', 'fault', ['C17', 'C03'], ['SA-PAIR.offset_cache'],
  [(DR, "        num_extents, dirrecord_offset = self._recalculate_extents_and_offsets(index,\n                                                                              logical_block_size)\n\n        underflow = False\n        total_size = (num_extents - 1) * logical_block_size + dirrecord_offset",
    "        num_extents = self.children[-1].extents_to_here\n        dirrecord_offset = self.children[-1].offset_to_here\n\n        underflow = False\n        total_size = (num_extents - 1) * logical_block_size + dirrecord_offset")], 'remove_child')
M('remove-forgets-cache-clear', 'fault', ['C01', 'C02', 'C03', 'C06', 'C07', 'C09', 'C13'], ['SA-PAIR.removal_cache'],
  [(PY, "        self._find_iso_record.cache_clear()  # pylint: disable=no-member\n        self._find_rr_record.cache_clear()  # pylint: disable=no-member\n        self._find_joliet_record.cache_clear()  # pylint: disable=no-member\n\n        # The remove_child() method returns True",
    "        self._find_iso_record.cache_clear()  # pylint: disable=no-member\n        self._find_joliet_record.cache_clear()  # pylint: disable=no-member\n\n        # The remove_child() method returns True")], '_find_rr_record')
M('parse-link-forgets-num-udf', 'fault', ['C10', 'C04'], ['SA-PAIR.udf_link_count'],
  [(PY, "                            ino.linked_records.append((next_entry, False))\n                            ino.num_udf += 1\n", "                            ino.linked_records.append((next_entry, False))\n")], '_walk_udf_directories')
M('rm-eltorito-forgets-release', 'fault', ['C07', 'C11'], ['SA-PAIR.unlink_release'],
  [(PY, "                if not entry.inode.linked_records:\n                    for index, ino in enumerate(self.inodes):\n                        if id(ino) == id(entry.inode):\n                            del self.inodes[index]", "                if False:\n                    for index, ino in enumerate(self.inodes):\n                        if id(ino) == id(entry.inode):\n                            del self.inodes[index]")], 'rm_eltorito')
M('symlink-inode-not-registered', 'fault', ['C07'], ['SA-PAIR.link_inode'],
  [(PY, "            ino.linked_records.append((file_entry, False))\n            ino.num_udf += 1\n            file_entry.inode = ino\n", "            ino.num_udf += 1\n            file_entry.inode = ino\n")], 'add_symlink')
M('rr-placement-forgets-dr-len', 'fault', ['C08'], ['SA-PAIR.rr_placement'],
  [(RR, "        else:\n            curr_dr_len += thislen\n            self.dr_entries.tf_record = new_tf\n", "        else:\n            self.dr_entries.tf_record = new_tf\n")], 'tf_record')
M('rr-placement-wrong-class-length', 'fault', ['C08'], ['SA-PAIR.rr_placement'],
  [(RR, "            new_cl = RRCLRecord()\n            new_cl.new()\n            thislen = RRCLRecord.length()", "            new_cl = RRCLRecord()\n            new_cl.new()\n            thislen = RRRERecord.length()")], 'cl_record')
M('second-writer-of-image', 'fault', ['C02', 'C17'], ['SA-OWN.image'],
  [(PY, "        self._cdfp.seek(extent * self.logical_block_size)\n\n    @functools.lru_cache(maxsize=256)\n    def _find_iso_record", "        self._cdfp.seek(extent * self.logical_block_size)\n        self._cdfp.write(b'')\n\n    @functools.lru_cache(maxsize=256)\n    def _find_iso_record")], '_seek_to_extent')
M('edit-sets-extent-directly', 'fault', ['C04', 'C06'], ['SA-OWN.derived', 'SA-OWN.inode-set-extent'],
  [(PY, "            if ino is not None:\n                self.inodes.append(ino)\n            if offset == 0:", "            if ino is not None:\n                ino.set_extent_location(0)\n                self.inodes.append(ino)\n            if offset == 0:")], '_add_fp')
M('stale-flag-cleared-by-query', 'fault', ['C06'], ['SA-OWN.needs_reshuffle'],
  [(PY, "    def force_consistency(self):", "    def _mark_clean(self):\n        self._needs_reshuffle = False\n\n    def force_consistency(self):")], '_mark_clean')
M('space-size-written-by-edit', 'fault', ['C04', 'C01'], ['SA-OWN.space_size'],
  [(PY, "        self._finish_remove(num_bytes_to_remove, True)\n\n    def add_symlink", "        self.pvd.space_size -= 0\n        self._finish_remove(num_bytes_to_remove, True)\n\n    def add_symlink")], 'rm_eltorito')
M('pn-record-dropped', 'fault', ['C02', 'C08', 'C05'], ['SA-SIB.rr_kinds'],
  [(RR, "        if entries.pn_record is not None:\n            outlist.append(entries.pn_record.record())\n\n", "")], 'pn_record')
M('standalone-entries-forgotten', 'fault', ['C11', 'C07'], ['SA-SIB.eltorito_entries'],
  [(PY, "            for entry in self.eltorito_boot_catalog.standalone_entries:\n                eltorito_entries.add(id(entry.inode))\n", "")], '_check_inode_against_eltorito')
M('modify-in-place-dispatch-narrowed', 'fault', ['C17', 'C07'], ['SA-SIB.linked_dispatch'],
  [(PY, "            elif isinstance(record, eltorito.EltoritoEntry):\n                # An El Torito entry only holds the load address and load size\n                # of the boot file, neither of which changes here.\n                continue\n", "")], 'modify_file_in_place')
M('rm-file-without-eltorito-gate', 'fault', ['C07'], ['SA-GATE.eltorito'],
  [(PY, "        else:\n            self._check_inode_against_eltorito(child.inode)\n            while child.inode.linked_records:", "        else:\n            while child.inode.linked_records:")], '_rm_file_inodes')
M('twin-pair-reorder', 'twin', ['C07', 'C02'], [],
  [(PY, "            ino.linked_records.append((entry, False))\n            entry.set_inode(ino)\n", "            entry.set_inode(ino)\n            ino.linked_records.append((entry, False))\n")])

# ---------------------------------------------------------------- C13 / C09 gates
M('symlink-name-unchecked', 'fault', ['C13'], ['SA-GATE.iso_name'],
  [(PY, "            (name, parent) = self._iso_name_and_parent_from_path(symlink_path_bytes)\n            _check_iso9660_filename(name, self.interchange_level)\n", "            (name, parent) = self._iso_name_and_parent_from_path(symlink_path_bytes)\n")], 'add_symlink')
M('directory-checked-as-file', 'fault', ['C13'], ['SA-GATE.iso_name'],
  [(PY, "            _check_iso9660_directory(name, self.interchange_level)\n\n            # Creating the record for a Rock Ridge directory", "            _check_iso9660_filename(name, self.interchange_level)\n\n            # Creating the record for a Rock Ridge directory")], 'add_directory')
M('joliet-limit-raised', 'fault', ['C09', 'C13'], ['SA-GATE.joliet'],
  [(PY, "        if len(joliet_name) > 2 * 64:\n", "        if len(joliet_name) > 2 * 128:\n")], 'limit')
M('joliet-limit-on-path-not-name', 'fault', ['C09'], ['SA-GATE.joliet'],
  [(PY, "        if len(joliet_name) > 2 * 64:\n", "        if len(splitpath) > 2 * 64:\n")], '')
M('udf-dup-guard-removed', 'fault', ['C13'], ['SA-DUPGUARD'],
  [(UDF, "        self.check_file_ident_desc(new_fi_desc)\n\n        self.fi_descs.append(new_fi_desc)", "        self.fi_descs.append(new_fi_desc)")], 'add_file_ident_desc')
M('dup-guard-bypassed-always', 'fault', ['C13'], ['SA-DUPGUARD.bypass'],
  [(PY, "                                                                 rr_name=rr_name,\n                                                                 continuation=offset > 0)", "                                                                 rr_name=rr_name,\n                                                                 continuation=True)")], '')
M('dr-len-guard-removed', 'fault', ['C13'], ['SA-LENBOUND'],
  [(DR, "        if self.dr_len > 255:\n            raise pycdlibexception.PyCdlibInvalidInput('Name is too long to fit in a directory record')\n\n", "")], 'dr_len')
M('depth-check-dropped', 'fault', ['C13'], ['SA-GATE.depth'],
  [(PY, "            if not self.rock_ridge and self.enhanced_vd is None:\n                _check_path_depth(iso_path_bytes)\n", "")], 'add_directory')
M('twin-gate-alias', 'twin', ['C13'], [],
  [(PY, "            _check_iso9660_directory(name, self.interchange_level)\n\n            # Creating the record for a Rock Ridge directory", "            level = self.interchange_level\n            _check_iso9660_directory(name, level)\n\n            # Creating the record for a Rock Ridge directory")])

# ---------------------------------------------------------------- C14
M('set-hidden-mutates-before-check', 'fault', ['C14'], ['SA-VBM'],
  [(PY, "            raise pycdlibexception.PyCdlibInvalidInput('Must provide exactly one of iso_path, rr_path, or joliet_path')\n\n        if iso_path is not None:\n            rec = self._find_iso_record(utils.normpath(iso_path))\n        elif rr_path is not None:\n            rec = self._find_rr_record(utils.normpath(rr_path))\n        elif joliet_path is not None:\n            joliet_path_bytes = self._normalize_joliet_path(joliet_path)\n            rec = self._find_joliet_record(joliet_path_bytes)\n        else:\n            raise pycdlibexception.PyCdlibInvalidInput('Must provide exactly one of iso_path, rr_path, or joliet_path')\n\n        rec.change_existence(True)",
    "            raise pycdlibexception.PyCdlibInvalidInput('Must provide exactly one of iso_path, rr_path, or joliet_path')\n\n        self.inodes.append(inode.Inode())\n        if iso_path is not None:\n            rec = self._find_iso_record(utils.normpath(iso_path))\n        elif rr_path is not None:\n            rec = self._find_rr_record(utils.normpath(rr_path))\n        elif joliet_path is not None:\n            joliet_path_bytes = self._normalize_joliet_path(joliet_path)\n            rec = self._find_joliet_record(joliet_path_bytes)\n        else:\n            raise pycdlibexception.PyCdlibInvalidInput('Must provide exactly one of iso_path, rr_path, or joliet_path')\n\n        rec.change_existence(True)")], 'set_hidden')
M('new-without-reset', 'fault', ['C14'], ['SA-VBM.reset'],
  [(PY, "        # Start from a clean slate, even if an earlier new() or open() on this\n        # object failed part of the way through.\n        self._initialize()\n\n        if interchange_level < 1 or interchange_level > 4:", "        if interchange_level < 1 or interchange_level > 4:")], 'new')
M('isohybrid-installed-before-validation', 'fault', ['C14'], ['SA-VBM'],
  [(PY, "        isohybrid_mbr = isohybrid.IsoHybrid()\n        isohybrid_mbr.new(efi, mac, part_entry, mbr_id, part_offset,\n                          geometry_sectors, geometry_heads, part_type)\n        self.isohybrid_mbr = isohybrid_mbr\n",
    "        isohybrid_mbr = isohybrid.IsoHybrid()\n        self.isohybrid_mbr = isohybrid_mbr\n        isohybrid_mbr.new(efi, mac, part_entry, mbr_id, part_offset,\n                          geometry_sectors, geometry_heads, part_type)\n")], 'add_isohybrid')

# ---------------------------------------------------------------- C15
M('rr-parse-zero-length-guard-removed', 'fault', ['C15'], ['SA-TERM'],
  [(RR, "            if su_len == 0:\n                raise pycdlibexception.PyCdlibInvalidISO('Zero size for Rock Ridge entry length')\n", "")], 'RockRidge.parse')
M('walk-without-visited-set', 'fault', ['C15'], ['SA-TERM'],
  [(PY, "                        if new_extent_loc in seen_dir_extents:\n                            raise pycdlibexception.PyCdlibInvalidISO('More than one directory record points at the directory at extent %d' % (new_extent_loc))\n                        seen_dir_extents.add(new_extent_loc)\n", "")], '_walk_directories')
M('path-table-loop-no-advance', 'fault', ['C15'], ['SA-TERM'],
  [(PY, "            extent_to_ptr[ptr.extent_location] = ptr\n            offset += read_len\n", "            extent_to_ptr[ptr.extent_location] = ptr\n")], '_parse_path_table')
M('open-raises-runtime-error', 'fault', ['C15'], ['SA-EXC.explicit'],
  [(PY, "                raise pycdlibexception.PyCdlibInvalidISO('Failed to read entire volume descriptor')", "                raise RuntimeError('Failed to read entire volume descriptor')")], '_parse_volume_descriptors')
M('open-fp-drops-conversion-kind', 'fault', ['C15'], ['SA-EXC.implicit'],
  [(PY, "        except (struct.error, IndexError, KeyError, ValueError, ZeroDivisionError, OverflowError) as e:\n            # The data on the ISO led the parser astray.\n            raise pycdlibexception",
    "        except (struct.error, KeyError, ValueError, ZeroDivisionError, OverflowError) as e:\n            # The data on the ISO led the parser astray.\n            raise pycdlibexception")], 'IndexError')
M('twin-loop-step-temp', 'twin', ['C15'], [],
  [(PY, "            extent_to_ptr[ptr.extent_location] = ptr\n            offset += read_len\n", "            extent_to_ptr[ptr.extent_location] = ptr\n            offset += read_len\n            last = ptr\n")])

# ---------------------------------------------------------------- C18 / C20
M('truncate-before-upper-again', 'fault', ['C18'], ['SA-STR'],
  [(UT, "    valid_base = basename.upper()[:maxlen]", "    valid_base = basename[:maxlen].upper()")], 'truncate_basename')
M('mangle-keeps-dots', 'fault', ['C18'], ['SA-STR'],
  [(UT, "    return re.sub('[^A-Z0-9_]{1}', r'_', valid_base)", "    return re.sub('[^A-Z0-9_.]{1}', r'_', valid_base)")], 'truncate_basename')
M('twin-mangle-regex-with-lowercase', 'twin', ['C18'], [],
  [(UT, "    return re.sub('[^A-Z0-9_]{1}', r'_', valid_base)", "    return re.sub('[^A-Za-z0-9_]{1}', r'_', valid_base).upper()")])
M('mangle-dir-too-long-level1', 'fault', ['C18'], ['SA-STR'],
  [(UT, "    if iso_level == 1:\n        maxlen = 8\n    else:\n        maxlen = 31 if is_dir else 30", "    if iso_level == 1:\n        maxlen = 9\n    else:\n        maxlen = 31 if is_dir else 30")], 'level 1')
M('tool-continue-dropped', 'fault', ['C20'], ['SA-SIB.tool_none'],
  [(GEN, "                    print('Could not find free ISO9660 name for path %s; skipping' % (localpath),\n                          file=logfp)\n                    continue\n\n                # Without Rock Ridge the library counts the name of a file as", "                    print('Could not find free ISO9660 name for path %s; skipping' % (localpath),\n                          file=logfp)\n\n                # Without Rock Ridge the library counts the name of a file as")], 'build_iso_path')
M('tool-dedup-no-compare', 'fault', ['C20'], ['SA-DEDUP'],
  [(GEN, "                            if thishash == oldhash and filecmp.cmp(oldlocal, localpath, shallow=False):", "                            if thishash == oldhash:")], 'duplicate_name')
M('tool-option-synonym-ignored', 'fault', ['C20'], ['SA-SIB.tool_options'],
  [(GEN, "            if args.udf or args.UDF:\n                udf_path = build_udf_path(parent_level.udf_path, basename)", "            if args.udf:\n                udf_path = build_udf_path(parent_level.udf_path, basename)")], 'args.udf')
M('tool-unknown-keyword', 'fault', ['C20'], ['SA-ATTR'],
  [(GEN, "                    iso.add_directory(iso_path, rr_name=rr_name,\n                                      joliet_path=joliet_path,", "                    iso.add_directory(iso_path, rr_name=rr_name,\n                                      joliet=joliet_path,")], 'add_directory')
M('tool-prefix-from-joined-name', 'fault', ['C20', 'C18'], ['SA-STR.tool'],
  [(GEN, "            basename = filename\n        numdigits = 3\n", "            basename = filemangle\n        numdigits = 3\n")], 'collision prefix')
M('twin-tool-reformat', 'twin', ['C20'], [],
  [(GEN, "            rr_name = None\n            if args.rational_rock or args.rock:\n                rr_name = basename\n", "            rr_name = None\n            want_rr = args.rational_rock or args.rock\n            if want_rr:\n                rr_name = basename\n")])

# ---------------------------------------------------------------- packing / fit / accounting / identity (from the sub-agent seeds)
M('writer-breaks-sector-one-early', 'fault', ['C01', 'C03', 'C04', 'C09', 'C17', 'C20'], ['SA-SIB.packing.iso'],
  [(PY, "                if (curr_dirrecord_offset + len(recstr)) > self.logical_block_size:", "                if (curr_dirrecord_offset + len(recstr)) >= self.logical_block_size:")], '_write_directory_records')
M('accounting-breaks-sector-one-early', 'fault', ['C01', 'C03', 'C04', 'C09', 'C17', 'C20'], ['SA-SIB.packing.iso'],
  [(DR, "            if (dirrecord_offset + dirrecord_len) > logical_block_size:", "            if (dirrecord_offset + dirrecord_len) >= logical_block_size:")], '_recalculate_extents_and_offsets')
M('twin-packing-flipped-operands', 'twin', ['C01', 'C03', 'C04', 'C09', 'C17', 'C20'], [],
  [(PY, "                if (curr_dirrecord_offset + len(recstr)) > self.logical_block_size:", "                if self.logical_block_size < len(recstr) + curr_dirrecord_offset:")])
M('twin-packing-negated-temp', 'twin', ['C01', 'C03', 'C04', 'C09', 'C17', 'C20'], [],
  [(DR, "            if (dirrecord_offset + dirrecord_len) > logical_block_size:", "            end_of_record = dirrecord_offset + dirrecord_len\n            if not end_of_record <= logical_block_size:")])
M('udf-fid-block-step-late', 'fault', ['C01', 'C04', 'C05', 'C10'], ['SA-SIB.packing.udf'],
  [(PY, "                if offset >= self.logical_block_size:\n", "                if offset > self.logical_block_size:\n")], '_udf_assign_extents')
M('udf-fid-tail-block-early', 'fault', ['C04', 'C05', 'C10'], ['SA-SIB.packing.udf'],
  [(PY, "            if offset > self.logical_block_size:\n                current_extent += 1", "            if offset >= self.logical_block_size:\n                current_extent += 1")], 'after')
M('twin-udf-fid-flipped', 'twin', ['C04', 'C05', 'C10'], [],
  [(PY, "                if offset >= self.logical_block_size:\n", "                if not offset < self.logical_block_size:\n")])
M('ce-gap-off-by-one', 'fault', ['C01', 'C02', 'C04', 'C08'], ['SA-FIT.ce_block'],
  [(RR, "                gapsize = entry.offset - lastend - 1\n", "                gapsize = entry.offset - lastend\n")], 'gapsize')
M('ce-tail-allows-overflow', 'fault', ['C01', 'C02', 'C04', 'C08'], ['SA-FIT.ce_block'],
  [(RR, "                left = self._max_block_size - lastend - 1\n", "                left = self._max_block_size - lastend\n")], 'left >= length')
M('ce-placement-overlaps-previous', 'fault', ['C01', 'C02', 'C04', 'C08'], ['SA-FIT.ce_block'],
  [(RR, "                if gapsize >= length:\n                    # We found a spot for it!\n                    offset = lastend + 1\n", "                if gapsize >= length:\n                    # We found a spot for it!\n                    offset = lastend\n")], 'lower')
M('ce-track-bound-dropped', 'fault', ['C01', 'C02', 'C04', 'C08'], ['SA-FIT.ce_block'],
  [(RR, "        if offset + length > self._max_block_size:\n            raise pycdlibexception.PyCdlibInvalidISO('No room in continuation block to track entry')\n", "")], 'track_entry')
M('twin-ce-gap-rewritten', 'twin', ['C01', 'C02', 'C04', 'C08'], [],
  [(RR, "                lastend = lastentry.offset + lastentry.length - 1\n                gapsize = entry.offset - lastend - 1\n", "                lastend = lastentry.offset + lastentry.length - 1\n                gapsize = entry.offset - (lastentry.offset + lastentry.length)\n")])
M('link-search-by-equality', 'fault', ['C02', 'C07', 'C16'], ['SA-IDENT'],
  [(PY, "                    link = reclink[0]\n                    if id(link) == id(rec):\n                        found_index = index\n                        break\n                else:\n                    # This should never happen.\n                    raise pycdlibexception.PyCdlibInternalError('Could not find inode corresponding to record')",
    "                    link = reclink[0]\n                    if link == rec:\n                        found_index = index\n                        break\n                else:\n                    # This should never happen.\n                    raise pycdlibexception.PyCdlibInternalError('Could not find inode corresponding to record')")], 'link == rec')
M('bootcat-check-by-membership', 'fault', ['C02', 'C07', 'C16'], ['SA-IDENT'],
  [(PY, "            if any(id(child) == id(rec) for rec in self.eltorito_boot_catalog.dirrecords):\n                raise pycdlibexception.PyCdlibInvalidInput(\"Cannot remove a file that is referenced by El Torito; use 'rm_eltorito' to remove El Torito, or use 'rm_hard_link' to hide the entry\")\n\n        num_bytes_to_remove = 0",
    "            if child in self.eltorito_boot_catalog.dirrecords:\n                raise pycdlibexception.PyCdlibInvalidInput(\"Cannot remove a file that is referenced by El Torito; use 'rm_eltorito' to remove El Torito, or use 'rm_hard_link' to hide the entry\")\n\n        num_bytes_to_remove = 0")], 'child in')
M('twin-identity-with-is', 'twin', ['C02', 'C07', 'C16'], [],
  [(PY, "                if id(rec) == id(found_record):", "                if rec is found_record:")])
M('dir-shrink-overwrites-length', 'fault', ['C03', 'C04', 'C05', 'C10'], ['SA-ACCT.inverse'],
  [(DR, "            self.data_length -= logical_block_size\n", "            self.data_length = logical_block_size\n")], 'self.data_length')
M('space-size-remove-floor', 'fault', ['C03', 'C04', 'C05', 'C10'], ['SA-ACCT.inverse'],
  [(HVD, "        self.space_size -= utils.ceiling_div(removal_bytes, self.log_block_size)", "        self.space_size -= removal_bytes // self.log_block_size")], 'space_size')
M('udf-remove-forgets-blocks-recorded', 'fault', ['C03', 'C04', 'C05', 'C10'], ['SA-ACCT.inverse'],
  [(UDF, "        new_num_extents = utils.ceiling_div(self.info_len, logical_block_size)\n        self.log_block_recorded = new_num_extents\n        self.alloc_descs[0].extent_length = self.info_len\n\n        del self.fi_descs[desc_index]", "        new_num_extents = utils.ceiling_div(self.info_len, logical_block_size)\n        self.alloc_descs[0].extent_length = self.info_len\n\n        del self.fi_descs[desc_index]")], 'log_block_recorded')
M('udf-add-old-extents-from-cache', 'fault', ['C04', 'C05', 'C10'], ['SA-ACCT.delta'],
  [(UDF, "        if self.info_len > 0:\n            old_num_extents = utils.ceiling_div(self.info_len, logical_block_size)\n", "        if self.info_len > 0:\n            old_num_extents = self.log_block_recorded\n")], 'add_file_ident_desc')
M('delta-of-joliet-child-dropped', 'fault', ['C04', 'C05'], ['SA-ACCT.dropped'],
  [(PY, "        num_bytes_to_remove += self._remove_child_from_dr(joliet_child,\n                                                          joliet_child.index_in_parent)", "        self._remove_child_from_dr(joliet_child,\n                                   joliet_child.index_in_parent)")], '_rm_joliet_dir')
M('twin-acct-temp-for-unit', 'twin', ['C03', 'C04', 'C05', 'C10'], [],
  [(HVD, "        self.space_size -= utils.ceiling_div(removal_bytes, self.log_block_size)", "        removed_blocks = utils.ceiling_div(removal_bytes, self.log_block_size)\n        self.space_size -= removed_blocks")])
M('eltorito-link-lists-inode-again', 'fault', ['C04', 'C07'], ['SA-FRESH.inodes'],
  [(PY, '            if entry_extent in extent_to_inode:\n                ino = extent_to_inode[entry_extent]\n            else:\n                ino = inode.Inode()\n                ino.parse(entry_extent, entry.length(), self._cdfp,\n                          self.logical_block_size)\n', '            ino = extent_to_inode.get(entry_extent)\n            if ino is None:\n                ino = inode.Inode()\n                ino.parse(entry_extent, entry.length(), self._cdfp,\n                          self.logical_block_size)\n'), (PY, '                self._cdfp.seek(orig)\n\n                extent_to_inode[entry_extent] = ino\n                self.inodes.append(ino)\n\n            ino.linked_records.append((entry, False))', '                self._cdfp.seek(orig)\n\n                extent_to_inode[entry_extent] = ino\n            self.inodes.append(ino)\n\n            ino.linked_records.append((entry, False))')], '_link_eltorito')
M('twin-eltorito-link-get', 'twin', ['C04', 'C07'], [],
  [(PY, '            if entry_extent in extent_to_inode:\n                ino = extent_to_inode[entry_extent]\n            else:\n                ino = inode.Inode()\n                ino.parse(entry_extent, entry.length(), self._cdfp,\n                          self.logical_block_size)\n', '            known = extent_to_inode.get(entry_extent)\n            if known is not None:\n                ino = known\n            else:\n                ino = inode.Inode()\n                ino.parse(entry_extent, entry.length(), self._cdfp,\n                          self.logical_block_size)\n')])
M('modify-in-place-mixes-records', 'fault', ['C02', 'C09', 'C17'], ['SA-COORD'],
  [(PY, "                abs_offset = record.orig_offset\n", "                abs_offset = child.orig_offset\n")], 'modify_file_in_place')
M('remove-child-index-of-other-record', 'fault', ['C02', 'C09', 'C17'], ['SA-COORD'],
  [(PY, "        num_bytes_to_remove += self._remove_child_from_dr(joliet_child,\n                                                          joliet_child.index_in_parent)", "        num_bytes_to_remove += self._remove_child_from_dr(joliet_child,\n                                                          joliet_child.parent.index_in_parent)" )], '_rm_joliet_dir')
M('twin-coord-alias-free', 'twin', ['C02', 'C09', 'C17'], [],
  [(PY, "                abs_offset = record.orig_offset\n", "                found_at = record.orig_offset\n                abs_offset = found_at\n")])
M('xa-added-after-length-check', 'fault', ['C13'], ['SA-LENBOUND'],
  [(DR, "            self.xa_record.new()\n            self.dr_len += XARecord.length()\n\n        self.dr_len += (self.dr_len % 2)\n\n        if self.dr_len > 255:\n            raise pycdlibexception.PyCdlibInvalidInput('Name is too long to fit in a directory record')\n",
    "            self.xa_record.new()\n\n        self.dr_len += (self.dr_len % 2)\n\n        if self.dr_len > 255:\n            raise pycdlibexception.PyCdlibInvalidInput('Name is too long to fit in a directory record')\n        if xa:\n            self.dr_len += XARecord.length()\n")], 'dr_len')
M('walk-uses-unbound-ino', 'fault', ['C15'], ['SA-EXC.unbound'],
  [(PY, "                            new_record.inode.data_length = truncated_len\n",
    "                            ino.data_length = truncated_len\n")], '_walk_directories|ino')
M('twin-unbound-correlated', 'twin', ['C15'], [],
  [(DR, "        else:\n            record_offset = 33\n", "        else:\n            record_offset = 32\n            record_offset += 1\n")])
M('tool-unbound-after-skip', 'fault', ['C20'], ['SA-EXC.unbound_tool'],
  [(GEN, "                    print('Symlink %s ignored - continuing.' % (localpath),\n                          file=logfp)\n                    continue\n", "                    print('Symlink %s ignored - continuing.' % (localpath),\n                          file=logfp)\n")], 'iso_path')
M('efi-update-skipped-when-unmoved', 'fault', ['C06', 'C11', 'C12'], ['SA-RESHUFFLE.mustwrite'],
  [(ISOH, "        self.efi_lba = current_extent\n        self.efi_count = sector_count\n", "        if current_extent == self.efi_lba and sector_count == self.efi_count:\n            return\n\n        self.efi_lba = current_extent\n        self.efi_count = sector_count\n")], 'update_efi')
M('twin-mac-update-skipped-when-unmoved', 'twin', ['C06', 'C11', 'C12'], [],
  [(ISOH, "        self.mac_lba = current_extent\n        self.mac_count = sector_count\n", "        if current_extent == self.mac_lba and sector_count == self.mac_count:\n            return\n\n        self.mac_lba = current_extent\n        self.mac_count = sector_count\n")])
M('second-section-skips-finish', 'fault', ['C06', 'C11', 'C12'], ['SA-RESHUFFLE.flag'],
  [(PY, "        if bi_table is not None:\n            boot_dirrecord.inode.add_boot_info_table(bi_table)\n\n        self._finish_add(0, num_bytes_to_add)\n", "        if bi_table is not None:\n            boot_dirrecord.inode.add_boot_info_table(bi_table)\n\n            self._finish_add(0, num_bytes_to_add)\n")], 'add_eltorito')
M('edit-reads-ce-block-extent', 'fault', ['C06'], ['SA-RESHUFFLE.isolation'],
  [(HVD, "        for block in self.rr_ce_blocks:\n            offset = block.add_entry(length)\n", "        for block in self.rr_ce_blocks:\n            if block.extent_location() == 0:\n                continue\n            offset = block.add_entry(length)\n")], 'add_rr_ce_entry')
M('pass-accumulates', 'fault', ['C06'], ['SA-RESHUFFLE.pure'],
  [(ISOH, "        self.efi_lba = current_extent\n", "        self.efi_lba += current_extent\n")], 'update_efi')

M('empty-files-share-inode-iso', 'fault', ['C02', 'C07'], ['SA-IDENT.key'],
  [(PY, "                        if len_to_use > 0 and extent_to_use in extent_to_inode:\n", "                        if extent_to_use in extent_to_inode:\n")], '_walk_directories')
M('empty-files-registered-in-map', 'fault', ['C02', 'C07'], ['SA-IDENT.key'],
  [(PY, "                            if len_to_use > 0:\n                                extent_to_inode[extent_to_use] = ino\n", "                            extent_to_inode[extent_to_use] = ino\n")], '_walk_directories')
M('empty-files-share-inode-udf', 'fault', ['C02', 'C07'], ['SA-IDENT.key'],
  [(PY, "                            if next_entry.get_data_length() > 0 and abs_file_data_extent in extent_to_inode:\n", "                            if abs_file_data_extent in extent_to_inode:\n")], '_walk_udf_directories')
M('twin-empty-guard-rewritten', 'twin', ['C02', 'C07'], [],
  [(PY, "                        if len_to_use > 0 and extent_to_use in extent_to_inode:\n", "                        if len_to_use != 0 and extent_to_use in extent_to_inode:\n")])

M('eltorito-zero-indicator-shadowed', 'fault', ['C01', 'C05', 'C08', 'C10', 'C11'], ['SA-DISPATCH.shadow'],
  [(ELT, "            if val == b'\\x00' and not section_open:\n", "            if val == b'\\x00':\n")], "val: b'\\x00'")
M('twin-eltorito-dispatch-reordered', 'twin', ['C01', 'C05', 'C08', 'C10', 'C11'], [],
  [(ELT, "            if val == b'\\x00' and not section_open:\n", "            if not section_open and val == b'\\x00':\n")])

M('nm-length-short-by-one', 'fault', ['C05', 'C08'], ['SA-LEN.susp'],
  [(RR, "        return 5 + len(rr_name)\n", "        return 4 + len(rr_name)\n")], 'RRNMRecord')
M('pn-length-constant-wrong', 'fault', ['C05', 'C08'], ['SA-LEN.susp'],
  [(RR, "         The length of this record in bytes.\n        \"\"\"\n        return 20\n", "         The length of this record in bytes.\n        \"\"\"\n        return 16\n")], 'RRPNRecord')
M('twin-nm-record-as-join', 'twin', ['C05', 'C08'], [],
  [(RR, "        return b'NM' + struct.pack(self.FMT,\n                                   RRNMRecord.length(self.posix_name),\n                                   SU_ENTRY_VERSION,\n                                   self.posix_name_flags) + self.posix_name\n",
    "        head = struct.pack(self.FMT,\n                           RRNMRecord.length(self.posix_name),\n                           SU_ENTRY_VERSION,\n                           self.posix_name_flags)\n        return b''.join([b'NM', head, self.posix_name])\n")])

M('coordinate-refresh-stops-early', 'fault', ['C01', 'C02', 'C07', 'C17'], ['SA-COORD.refresh'],
  [(DR, "            dirrecord_offset += dirrecord_len\n            c.extents_to_here = num_extents\n", "            dirrecord_offset += dirrecord_len\n            if c.extents_to_here == num_extents and c.offset_to_here == dirrecord_offset:\n                last = self.children[-1]\n                return last.extents_to_here, last.offset_to_here\n            c.extents_to_here = num_extents\n")], '_recalculate_extents_and_offsets')
M('coordinate-refresh-index-conditional', 'fault', ['C01', 'C02', 'C07', 'C17'], ['SA-COORD.refresh'],
  [(DR, "            c.index_in_parent = i\n", "            if c.index_in_parent < 0:\n                c.index_in_parent = i\n")], '_recalculate_extents_and_offsets')
M('twin-coordinate-refresh-enumerate', 'twin', ['C02', 'C07', 'C17'], [],
  [(DR, "            c.offset_to_here = dirrecord_offset\n            c.index_in_parent = i\n", "            c.index_in_parent = i\n            c.offset_to_here = dirrecord_offset\n")])

M('udf-file-entry-wrong-tag-ident', 'fault', ['C05', 'C10'], ['SA-TAG'],
  [(UDF, "        self.desc_tag.new(261)  # FIXME: let the user set serial_number", "        self.desc_tag.new(266)  # FIXME: let the user set serial_number")], 'UDFFileEntry')
M('udf-fid-crc-over-wrong-bytes', 'fault', ['C05', 'C10'], ['SA-TAG'],
  [(UDF, "        return self.desc_tag.record(rec[16:]) + rec[16:]\n", "        return self.desc_tag.record(rec) + rec[16:]\n")], 'UDFFileIdentifierDescriptor|record')
M('udf-file-entry-tag-does-not-move', 'fault', ['C05', 'C10'], ['SA-TAG'],
  [(UDF, "            raise pycdlibexception.PyCdlibInternalError('UDF File Entry not initialized')\n\n        self.new_extent_loc = new_location\n        self.desc_tag.tag_location = tag_location\n", "            raise pycdlibexception.PyCdlibInternalError('UDF File Entry not initialized')\n\n        self.new_extent_loc = new_location\n")], 'moves')
M('twin-udf-record-temp', 'twin', ['C05', 'C10'], [],
  [(UDF, "                          self.reserve_vd.record(), b'\\x00' * 480)[16:]\n\n        return self.desc_tag.record(rec) + rec\n", "                          self.reserve_vd.record(), b'\\x00' * 480)[16:]\n\n        body = rec\n        return self.desc_tag.record(body) + body\n")])

M('symlink-joliet-guard-truthiness', 'fault', ['C14'], ['SA-VBM.assert'],
  [(PY, "        if joliet_path is not None and self.joliet_vd is None:\n            # Rule 9\n", "        if joliet_path and self.joliet_vd is None:\n            # Rule 9\n")], 'add_symlink')
M('twin-symlink-joliet-guard-reordered', 'twin', ['C14'], [],
  [(PY, "        if joliet_path is not None and self.joliet_vd is None:\n            # Rule 9\n", "        if self.joliet_vd is None and joliet_path is not None:\n            # Rule 9\n")])

M('finish-remove-skips-when-nothing-freed', 'fault', ['C06', 'C11', 'C12'], ['SA-RESHUFFLE.flag'],
  [(PY, "         Nothing.\n        \"\"\"\n        for pvd in self.pvds:\n            pvd.remove_from_space_size(num_bytes_to_remove)\n", "         Nothing.\n        \"\"\"\n        if num_bytes_to_remove == 0:\n            return\n\n        for pvd in self.pvds:\n            pvd.remove_from_space_size(num_bytes_to_remove)\n")], '_finish_remove')

M('joliet-length-in-code-points', 'fault', ['C09', 'C13'], ['SA-GATE.joliet'],
  [(PY, "        joliet_name = name.decode('utf-8').encode('utf-16_be')\n        if len(joliet_name) > 2 * 64:\n", "        joliet_name = name.decode('utf-8').encode('utf-16_be')\n        if len(name.decode('utf-8')) > 64:\n")], '')
M('twin-joliet-length-in-utf16-bytes', 'twin', ['C09', 'C13'], [],
  [(PY, "        joliet_name = name.decode('utf-8').encode('utf-16_be')\n        if len(joliet_name) > 2 * 64:\n", "        joliet_name = name.decode('utf-8').encode('utf-16_be')\n        if len(joliet_name) > 128:\n")])
M('file-links-helper-forgets-delta', 'fault', ['C03', 'C04', 'C05', 'C08', 'C10'], ['SA-ACCT.inverse'],
  [(RR, "        if not self._initialized:\n            raise pycdlibexception.PyCdlibInternalError('Rock Ridge extension not initialized')\n\n        if self.dr_entries.px_record is None:\n            if self.ce_entries.px_record is None:\n                raise pycdlibexception.PyCdlibInvalidInput('No Rock Ridge file links')\n            self.ce_entries.px_record.posix_file_links += 1\n        else:\n            self.dr_entries.px_record.posix_file_links += 1\n", '        self._adjust_file_links(1)\n'), (RR, "        if not self._initialized:\n            raise pycdlibexception.PyCdlibInternalError('Rock Ridge extension not initialized')\n\n        if self.dr_entries.px_record is None:\n            if self.ce_entries.px_record is None:\n                raise pycdlibexception.PyCdlibInvalidInput('No Rock Ridge file links')\n            self.ce_entries.px_record.posix_file_links -= 1\n        else:\n            self.dr_entries.px_record.posix_file_links -= 1\n", '        self._adjust_file_links(-1)\n'), (RR, '    def add_to_file_links(self):\n', "    def _adjust_file_links(self, delta):\n        # type: (int) -> None\n        if not self._initialized:\n            raise pycdlibexception.PyCdlibInternalError('Rock Ridge extension not initialized')\n\n        if self.dr_entries.px_record is None:\n            if self.ce_entries.px_record is None:\n                raise pycdlibexception.PyCdlibInvalidInput('No Rock Ridge file links')\n            self.ce_entries.px_record.posix_file_links += 1\n        else:\n            self.dr_entries.px_record.posix_file_links += delta\n\n    def add_to_file_links(self):\n")], 'posix_file_links')
M('twin-file-links-helper', 'twin', ['C03', 'C04', 'C05', 'C08', 'C10'], [],
  [(RR, "        if not self._initialized:\n            raise pycdlibexception.PyCdlibInternalError('Rock Ridge extension not initialized')\n\n        if self.dr_entries.px_record is None:\n            if self.ce_entries.px_record is None:\n                raise pycdlibexception.PyCdlibInvalidInput('No Rock Ridge file links')\n            self.ce_entries.px_record.posix_file_links += 1\n        else:\n            self.dr_entries.px_record.posix_file_links += 1\n", '        self._adjust_file_links(1)\n'), (RR, "        if not self._initialized:\n            raise pycdlibexception.PyCdlibInternalError('Rock Ridge extension not initialized')\n\n        if self.dr_entries.px_record is None:\n            if self.ce_entries.px_record is None:\n                raise pycdlibexception.PyCdlibInvalidInput('No Rock Ridge file links')\n            self.ce_entries.px_record.posix_file_links -= 1\n        else:\n            self.dr_entries.px_record.posix_file_links -= 1\n", '        self._adjust_file_links(-1)\n'), (RR, '    def add_to_file_links(self):\n', "    def _adjust_file_links(self, delta):\n        # type: (int) -> None\n        if not self._initialized:\n            raise pycdlibexception.PyCdlibInternalError('Rock Ridge extension not initialized')\n\n        if self.dr_entries.px_record is None:\n            if self.ce_entries.px_record is None:\n                raise pycdlibexception.PyCdlibInvalidInput('No Rock Ridge file links')\n            self.ce_entries.px_record.posix_file_links += delta\n        else:\n            self.dr_entries.px_record.posix_file_links += delta\n\n    def add_to_file_links(self):\n")])

M('num-udf-once-per-file-entry-sector', 'fault', ['C02', 'C04', 'C10'], ['SA-PAIR.udf_link_count'],
  [(PY, "                            ino.linked_records.append((next_entry, False))\n                            ino.num_udf += 1\n", "                            ino.linked_records.append((next_entry, False))\n                            if abs_file_entry_extent not in seen_dir_extents:\n                                ino.num_udf += 1\n")], '_walk_udf_directories')
M('udf-walk-guard-remembers-other-extent', 'fault', ['C15'], ['SA-TERM'],
  [(PY, "                        seen_dir_extents.add(abs_file_entry_extent)\n                        udf_file_entries.append(next_entry)", "                        seen_dir_extents.add(abs_file_ident_extent)\n                        udf_file_entries.append(next_entry)")], '_walk_udf_directories')

M('dr-date-offset-from-process-timezone', 'fault', ['C19'], ['SA-DATE.instant'],
  [(DT, "        self.second = local.tm_sec\n        self.gmtoffset = utils.gmtoffset_from_tm(tm, local)\n", "        self.second = local.tm_sec\n        self.gmtoffset = -(time.altzone if local.tm_isdst > 0 else time.timezone) // 900\n")], 'gmtoffset')
M('twin-dr-date-offset-via-temp', 'twin', ['C19'], [],
  [(DT, "        self.second = local.tm_sec\n        self.gmtoffset = utils.gmtoffset_from_tm(tm, local)\n", "        self.second = local.tm_sec\n        quarter_hours = utils.gmtoffset_from_tm(tm, local)\n        self.gmtoffset = quarter_hours\n")])

M('tool-collision-counter-outgrows-its-padding', 'fault', ['C20', 'C18'], ['SA-STR.tool'],
  [(GEN, "            if currnum == 10 ** numdigits:\n                if numdigits == 8:\n                    return None\n                numdigits += 1\n                currnum = 0\n", "            if currnum == 10 ** 8:\n                return None\n")], 'renumbered length')
M('tool-prefix-ignores-the-padding-width', 'fault', ['C20', 'C18'], ['SA-STR.tool'],
  [(GEN, "            prefix = basename[:8 - numdigits]\n", "            prefix = basename[:5]\n")], 'renumbered length')
M('twin-tool-collision-gives-up-at-greater-equal', 'twin', ['C20', 'C18'], [],
  [(GEN, "            if currnum == 10 ** numdigits:\n", "            if currnum >= 10 ** numdigits:\n")])

M('twin-new-bounded-counter-loop-in-parser', 'twin', ['C15'], [],
  [(PY, "        offset = 0\n        out = []\n        extent_to_ptr = {}\n", "        offset = 0\n        out = []\n        extent_to_ptr = {}\n        tries = 0\n        while tries < 3:\n            tries += 1\n")])

M('rr-moved-without-ce-slot', 'fault', ['C01', 'C04', 'C08'], ['SA-PAIR.rr_ce_slot'],
  [(PY, "        num_bytes_to_add = self._add_child_to_dr(rec)\n        num_bytes_to_add += self._update_rr_ce_entry(rec)\n\n        # Only now that the directory exists", "        num_bytes_to_add = self._add_child_to_dr(rec)\n\n        # Only now that the directory exists")], '_find_or_create_rr_moved')
M('relocation-placeholder-without-ce-slot', 'fault', ['C01', 'C04', 'C08'], ['SA-PAIR.rr_ce_slot'],
  [(PY, "                num_bytes_to_add += self._add_child_to_dr(fake_dir_rec)\n                num_bytes_to_add += self._update_rr_ce_entry(fake_dir_rec)\n", "                num_bytes_to_add += self._add_child_to_dr(fake_dir_rec)\n")], 'fake_dir_rec')
M('gpt-part-guid-mixed-endian-on-parse-only', 'fault', ['C05', 'C12'], ['SA-SYM.conv'],
  [(ISOH, "        self.part_guid = uuid.UUID(bytes=part_guid)\n", "        self.part_guid = uuid.UUID(bytes_le=part_guid)\n")], 'part_guid')
M('twin-gpt-disk-guid-mixed-endian-both-ways', 'twin', ['C05', 'C12'], [],
  [(ISOH, "        self.disk_guid = uuid.UUID(bytes=disk_guid)\n", "        self.disk_guid = uuid.UUID(bytes_le=disk_guid)\n"),
   (ISOH, "                          self.disk_guid.bytes, self.partition_entries_lba,", "                          self.disk_guid.bytes_le, self.partition_entries_lba,")])
M('cache-clear-after-early-return', 'fault', ['C01', 'C02', 'C03', 'C06', 'C07', 'C09', 'C13'], ['SA-PAIR.removal_cache'],
  [(PY, "        self._find_iso_record.cache_clear()  # pylint: disable=no-member\n        self._find_rr_record.cache_clear()  # pylint: disable=no-member\n        self._find_joliet_record.cache_clear()  # pylint: disable=no-member\n\n", "\n"),
   (PY, "        if child.parent.remove_child(child, index, self.logical_block_size):\n            return self.logical_block_size\n\n        return 0\n", "        if child.parent.remove_child(child, index, self.logical_block_size):\n            return self.logical_block_size\n\n        self._find_iso_record.cache_clear()  # pylint: disable=no-member\n        self._find_rr_record.cache_clear()  # pylint: disable=no-member\n        self._find_joliet_record.cache_clear()  # pylint: disable=no-member\n        return 0\n")], '_remove_child_from_dr')


# ---- round 3 of the seeded regressions: rules added for the ones that were missed
D1_OLD = "    for char in bytearray(name):\n        if char not in _allowed_d1_characters:\n            raise pycdlibexception.PyCdlibInvalidInput('ISO9660 filenames must consist of characters A-Z, 0-9, and _')\n"
D1_RAISE = "        raise pycdlibexception.PyCdlibInvalidInput('ISO9660 filenames must consist of characters A-Z, 0-9, and _')\n"
D1_SET = "_allowed_d1_characters = set(tuple(range(65, 91)) + tuple(range(48, 58)) + tuple((ord(b'_'),)))\n"
M('d1-regex-dollar-accepts-trailing-newline', 'fault', ['C13'], ['SA-GATE.d1'],
  [(PY, "import os\nimport struct\n", "import os\nimport re\nimport struct\n"), (PY, D1_SET, "_d1_re = re.compile(br'^[A-Z0-9_]*$')\n"),
   (PY, D1_OLD, "    if not _d1_re.match(name):\n" + D1_RAISE)], 'trailing newline')
M('d1-regex-plus-refuses-empty-extension', 'fault', ['C13', 'C18'], ['SA-GATE.d1', 'SA-GATE.d1.total'],
  [(PY, "import os\nimport struct\n", "import os\nimport re\nimport struct\n"), (PY, D1_SET, "_d1_re = re.compile(br'[A-Z0-9_]+')\n"),
   (PY, D1_OLD, "    if _d1_re.fullmatch(name) is None:\n" + D1_RAISE)], 'at least 1 character')
M('d1-set-lacks-underscore', 'fault', ['C13', 'C18'], ['SA-GATE.d1', 'SA-GATE.d1.total'],
  [(PY, D1_SET, "_allowed_d1_characters = set(tuple(range(65, 91)) + tuple(range(48, 58)))\n")], 'refuses the d-characters _')
M('d1-set-admits-lower-case', 'fault', ['C13'], ['SA-GATE.d1'],
  [(PY, D1_SET, "_allowed_d1_characters = set(tuple(range(65, 91)) + tuple(range(97, 123)) + tuple(range(48, 58)) + tuple((ord(b'_'),)))\n")], 'not d-characters')
M('d1-check-skipped-for-extension', 'fault', ['C13'], ['SA-GATE.d1'],
  [(PY, "    if interchange_level < 4:\n        _check_d1_characters(name)\n        _check_d1_characters(extension)\n\n\ndef _check_iso9660_directory", "    if interchange_level < 4:\n        _check_d1_characters(name)\n\n\ndef _check_iso9660_directory")], 'extension')
M('d1-check-only-at-level-one', 'fault', ['C13'], ['SA-GATE.d1'],
  [(PY, "    if interchange_level < 4:\n        _check_d1_characters(fullname)\n", "    if interchange_level < 2:\n        _check_d1_characters(fullname)\n")], 'interchange_level < 2')
M('twin-d1-regex-exact', 'twin', ['C13', 'C18', 'C20'], [],
  [(PY, "import os\nimport struct\n", "import os\nimport re\nimport struct\n"), (PY, D1_SET, "_d1_re = re.compile(br'^[A-Z0-9_]*\\Z')\n"),
   (PY, D1_OLD, "    if not _d1_re.match(name):\n" + D1_RAISE)])
M('twin-d1-fullmatch', 'twin', ['C13', 'C18', 'C20'], [],
  [(PY, "import os\nimport struct\n", "import os\nimport re\nimport struct\n"), (PY, D1_SET, "_d1_re = re.compile(br'[\\d_A-Z]*')\n"),
   (PY, D1_OLD, "    if _d1_re.fullmatch(name) is None:\n" + D1_RAISE)])
M('twin-d1-all-generator', 'twin', ['C13', 'C18', 'C20'], [],
  [(PY, D1_OLD, "    if not all(char in _allowed_d1_characters for char in bytearray(name)):\n" + D1_RAISE)])
M('twin-d1-set-difference', 'twin', ['C13', 'C18', 'C20'], [],
  [(PY, D1_SET, "_allowed_d1_characters = frozenset(b'ABCDEFGHIJKLMNOPQRSTUVWXYZ0123456789_')\n"),
   (PY, D1_OLD, "    if set(bytearray(name)) - _allowed_d1_characters:\n" + D1_RAISE)])

M('eltorito-entry-registered-on-one-branch-only', 'fault', ['C11', 'C07', 'C02'], ['SA-PAIR.link_inode'],
  [(PY, "                self.inodes.append(ino)\n\n            ino.linked_records.append((entry, False))\n            entry.set_inode(ino)\n", "                self.inodes.append(ino)\n                ino.linked_records.append((entry, False))\n\n            entry.set_inode(ino)\n")], 'only on some')
M('twin-eltorito-entry-registered-after-set-inode', 'twin', ['C11', 'C07', 'C02'], [],
  [(PY, "            ino.linked_records.append((entry, False))\n            entry.set_inode(ino)\n", "            entry.set_inode(ino)\n            ino.linked_records.append((entry, False))\n")])

GPT_SLOTS = "    __slots__ = ('_initialized', 'is_primary', 'header', 'parts', 'apm_parts')\n"
M('gpt-partition-crc-memoised', 'fault', ['C12'], ['SA-CSUM.fresh.hybrid'],
  [(ISOH, GPT_SLOTS, "    __slots__ = ('_initialized', 'is_primary', 'header', 'parts', 'apm_parts', '_parts_crc')\n"),
   (ISOH, "        self.apm_parts = []  # type: List[APMPartHeader]\n        self._initialized = False\n", "        self.apm_parts = []  # type: List[APMPartHeader]\n        self._parts_crc = None  # type: Optional[int]\n        self._initialized = False\n"),
   (ISOH, "        part_data = b''.join(tmplist)\n\n        if self.is_primary:\n            outlist = [self.header.record(crc32(part_data))]", "        part_data = b''.join(tmplist)\n        if self._parts_crc is None:\n            self._parts_crc = crc32(part_data)\n\n        if self.is_primary:\n            outlist = [self.header.record(self._parts_crc)]"),
   (ISOH, "            outlist.append(self.header.record(crc32(part_data)))\n", "            outlist.append(self.header.record(self._parts_crc))\n")], 'without having computed it in this call')
M('twin-gpt-partition-crc-stored-fresh-each-call', 'twin', ['C12'], [],
  [(ISOH, GPT_SLOTS, "    __slots__ = ('_initialized', 'is_primary', 'header', 'parts', 'apm_parts', '_parts_crc')\n"),
   (ISOH, "        self.apm_parts = []  # type: List[APMPartHeader]\n        self._initialized = False\n", "        self.apm_parts = []  # type: List[APMPartHeader]\n        self._parts_crc = 0\n        self._initialized = False\n"),
   (ISOH, "        part_data = b''.join(tmplist)\n\n        if self.is_primary:\n            outlist = [self.header.record(crc32(part_data))]", "        part_data = b''.join(tmplist)\n        self._parts_crc = crc32(part_data)\n\n        if self.is_primary:\n            outlist = [self.header.record(self._parts_crc)]"),
   (ISOH, "            outlist.append(self.header.record(crc32(part_data)))\n", "            outlist.append(self.header.record(self._parts_crc))\n")])
M('twin-gpt-partition-crc-in-a-local', 'twin', ['C12'], [],
  [(ISOH, "        part_data = b''.join(tmplist)\n\n        if self.is_primary:\n            outlist = [self.header.record(crc32(part_data))]", "        part_data = b''.join(tmplist)\n        parts_crc = crc32(part_data)\n\n        if self.is_primary:\n            outlist = [self.header.record(parts_crc)]"),
   (ISOH, "            outlist.append(self.header.record(crc32(part_data)))\n", "            outlist.append(self.header.record(parts_crc))\n")])
M('validation-entry-platform-settable-after-checksum', 'fault', ['C11'], ['SA-CSUM.fresh.eltorito'],
  [(ELT, "    def _record(self):\n        # type: () -> bytes\n        \"\"\"\n        An internal method to generate a string representing this El Torito\n        Validation Entry.", "    def set_platform(self, platform_id):\n        # type: (int) -> None\n        self.platform_id = platform_id\n\n    def _record(self):\n        # type: () -> bytes\n        \"\"\"\n        An internal method to generate a string representing this El Torito\n        Validation Entry.")], 'platform_id')

M('facade-snapshots-interchange-level', 'fault', ['C18'], ['SA-SNAPSHOT.facade'],
  [("pycdlib/facade.py", "    __slots__ = ('pycdlib_obj',)\n\n    def __init__(self, pycdlib_obj):\n        # type: (pycdlib.PyCdlib) -> None\n        self.pycdlib_obj = pycdlib_obj\n\n    def get_file_from_iso(self, local_path, iso_path):", "    __slots__ = ('pycdlib_obj', 'level')\n\n    def __init__(self, pycdlib_obj):\n        # type: (pycdlib.PyCdlib) -> None\n        self.pycdlib_obj = pycdlib_obj\n        self.level = pycdlib_obj.interchange_level\n\n    def get_file_from_iso(self, local_path, iso_path):")], 'interchange_level')
M('facade-snapshots-has-rock-ridge', 'fault', ['C18'], ['SA-SNAPSHOT.facade'],
  [("pycdlib/facade.py", "    __slots__ = ('pycdlib_obj',)\n\n    def __init__(self, pycdlib_obj):\n        # type: (pycdlib.PyCdlib) -> None\n        self.pycdlib_obj = pycdlib_obj\n\n    def get_file_from_iso(self, local_path, iso_path):", "    __slots__ = ('pycdlib_obj', 'rr')\n\n    def __init__(self, pycdlib_obj):\n        # type: (pycdlib.PyCdlib) -> None\n        self.pycdlib_obj = pycdlib_obj\n        rr = pycdlib_obj.has_rock_ridge()\n        self.rr = rr\n\n    def get_file_from_iso(self, local_path, iso_path):")], 'has_rock_ridge')
M('twin-facade-second-reference-to-the-object', 'twin', ['C18'], [],
  [("pycdlib/facade.py", "    __slots__ = ('pycdlib_obj',)\n\n    def __init__(self, pycdlib_obj):\n        # type: (pycdlib.PyCdlib) -> None\n        self.pycdlib_obj = pycdlib_obj\n\n    def get_file_from_iso(self, local_path, iso_path):", "    __slots__ = ('pycdlib_obj', 'iso')\n\n    def __init__(self, pycdlib_obj):\n        # type: (pycdlib.PyCdlib) -> None\n        self.pycdlib_obj = pycdlib_obj\n        self.iso = pycdlib_obj\n\n    def get_file_from_iso(self, local_path, iso_path):")])

M('gmtoffset-memoised-per-hour', 'fault', ['C19'], ['SA-DATE.instant'],
  [(DT, "class DirectoryRecordDate:\n", "_OFFSETS = {}  # type: ignore\n\n\ndef gmtoffset_for(tm, local):\n    # type: (float, time.struct_time) -> int\n    key = int(tm) // 3600\n    if key not in _OFFSETS:\n        _OFFSETS[key] = utils.gmtoffset_from_tm(tm, local)\n    return _OFFSETS[key]\n\n\nclass DirectoryRecordDate:\n"),
   (DT, "        self.second = local.tm_sec\n        self.gmtoffset = utils.gmtoffset_from_tm(tm, local)\n        self._initialized = True\n", "        self.second = local.tm_sec\n        self.gmtoffset = gmtoffset_for(tm, local)\n        self._initialized = True\n")], 'gmtoffset_for')
M('twin-gmtoffset-through-a-forwarder', 'twin', ['C19'], [],
  [(DT, "class DirectoryRecordDate:\n", "def gmtoffset_for(tm, local):\n    # type: (float, time.struct_time) -> int\n    \"\"\"Forwarder.\"\"\"\n    return utils.gmtoffset_from_tm(tm, local)\n\n\nclass DirectoryRecordDate:\n"),
   (DT, "        self.gmtoffset = utils.gmtoffset_from_tm(tm, local)\n        self._initialized = True\n", "        self.gmtoffset = gmtoffset_for(tm, local)\n        self._initialized = True\n"),
   (DT, "            self.gmtoffset = utils.gmtoffset_from_tm(tm, local)\n", "            self.gmtoffset = gmtoffset_for(tm, local)\n")])

M('prevalidation-of-udf-path-under-elif', 'fault', ['C14'], ['SA-VBM.prevalidate', 'SA-VBM'],
  [(PY, "            self._check_joliet_destination(self._normalize_joliet_path(joliet_path))\n        if udf_path:\n            self._check_udf_destination(utils.normpath(udf_path), False)", "            self._check_joliet_destination(self._normalize_joliet_path(joliet_path))\n        elif udf_path:\n            self._check_udf_destination(utils.normpath(udf_path), False)")], 'only runs when')
M('prevalidation-of-directory-paths-skips-empty-string', 'fault', ['C14'], ['SA-VBM.prevalidate', 'SA-VBM'],
  [(PY, "        if joliet_path is not None:\n            self._check_joliet_destination(self._normalize_joliet_path(joliet_path))\n        if udf_path is not None:\n            self._check_udf_destination(utils.normpath(udf_path), True)", "        if joliet_path:\n            self._check_joliet_destination(self._normalize_joliet_path(joliet_path))\n        if udf_path:\n            self._check_udf_destination(utils.normpath(udf_path), True)")], 'only runs when')
M('twin-prevalidation-result-checked', 'twin', ['C14'], [],
  [(PY, "            self._check_joliet_destination(self._normalize_joliet_path(joliet_path))\n        if udf_path:\n            self._check_udf_destination(utils.normpath(udf_path), False)", "            self._check_joliet_destination(self._normalize_joliet_path(joliet_path))\n        if not udf_path:\n            pass\n        else:\n            self._check_udf_destination(utils.normpath(udf_path), False)")])

M('parse-error-message-from-exception-args', 'fault', ['C15'], ['SA-EXC.format'],
  [(PY, "            fp.close()\n            raise pycdlibexception.PyCdlibInvalidISO('Failed to parse ISO: %s' % (str(e)))\n", "            fp.close()\n            raise pycdlibexception.PyCdlibInvalidISO('Failed to parse ISO: %s' % (e.args))\n")], 'args tuple')
M('message-with-one-argument-too-few', 'fault', ['C15'], ['SA-EXC.format'],
  [(PY, "'ISO9660 directory names at interchange level %d cannot exceed %d characters' % (interchange_level, maxlen)", "'ISO9660 directory names at interchange level %d cannot exceed %d characters' % (maxlen)")], 'directives but a single argument')
M('twin-parse-error-message-from-one-tuple', 'twin', ['C15'], [],
  [(PY, "            fp.close()\n            raise pycdlibexception.PyCdlibInvalidISO('Failed to parse ISO: %s' % (str(e)))\n", "            fp.close()\n            raise pycdlibexception.PyCdlibInvalidISO('Failed to parse ISO: %s' % (e.args,))\n")])

M('boot-catalog-test-on-raw-extent', 'fault', ['C16', 'C07'], ['SA-IDENT.sanitized'],
  [(PY, "if self.eltorito_boot_catalog is not None and extent_to_use == self.eltorito_boot_catalog.extent_location():", "if self.eltorito_boot_catalog is not None and new_extent_loc == self.eltorito_boot_catalog.extent_location():")], 'raw `new_extent_loc`')
M('inode-map-lookup-on-raw-extent', 'fault', ['C16', 'C07'], ['SA-IDENT.sanitized'],
  [(PY, "                        if len_to_use > 0 and extent_to_use in extent_to_inode:\n                            ino = extent_to_inode[extent_to_use]", "                        if len_to_use > 0 and extent_to_use in extent_to_inode:\n                            ino = extent_to_inode[new_extent_loc]")], 'raw `new_extent_loc`')

M('layout-guard-only-when-bytes-were-added', 'fault', ['C17'], ['SA-GUARD.layout'],
  [(PY, "                self.udf_logical_volume_integrity.size_tables[0] += num_extents_to_add\n\n        self._layout_changed = True\n", "                self.udf_logical_volume_integrity.size_tables[0] += num_extents_to_add\n\n        if num_bytes_to_add + num_partition_bytes_to_add > 0:\n            self._layout_changed = True\n")], 'stays False')
M('layout-guard-only-in-lazy-mode', 'fault', ['C17'], ['SA-GUARD.layout'],
  [(PY, "                self.udf_logical_volume_integrity.size_tables[0] += num_extents_to_add\n\n        self._layout_changed = True\n", "                self.udf_logical_volume_integrity.size_tables[0] += num_extents_to_add\n\n        if not self._always_consistent:\n            self._layout_changed = True\n")], 'stays False')
M('layout-guard-lowered-by-force-consistency', 'fault', ['C17'], ['SA-GUARD.layout'],
  [(PY, "    def force_consistency(self):", "    def _forget_changes(self):\n        # type: () -> None\n        self._layout_changed = False\n\n    def force_consistency(self):")], 'outside re-initialisation')
M('twin-layout-guard-raised-first', 'twin', ['C17'], [],
  [(PY, "                self.udf_logical_volume_integrity.size_tables[0] += num_extents_to_add\n\n        self._layout_changed = True\n\n        if self._always_consistent:", "                self.udf_logical_volume_integrity.size_tables[0] += num_extents_to_add\n\n        if self._always_consistent:"),
   (PY, "        for pvd in self.pvds:\n            pvd.add_to_space_size(num_bytes_to_add + num_partition_bytes_to_add)\n", "        self._layout_changed = True\n        for pvd in self.pvds:\n            pvd.add_to_space_size(num_bytes_to_add + num_partition_bytes_to_add)\n")])

M('tool-normalises-udf-symlink-target', 'fault', ['C20'], ['SA-SIB.tool_symlink'],
  [(GEN, "                        udf_target = os.readlink(localpath)\n", "                        udf_target = os.path.normpath(os.readlink(localpath))\n")], 'verbatim')
M('twin-tool-reads-link-once', 'twin', ['C20'], [],
  [(GEN, "                    rr_target = None\n                    if args.rational_rock or args.rock:\n                        rr_target = os.readlink(localpath)\n", "                    target = os.readlink(localpath)\n                    rr_target = None\n                    if args.rational_rock or args.rock:\n                        rr_target = target\n"),
   (GEN, "                        udf_target = os.readlink(localpath)\n", "                        udf_target = target\n")])


# ---- cache coherence (the same mistake, five times in three seeding rounds)
M('cache-memo-key-loses-a-parameter', 'fault', ['C18'], ['SA-CACHE.coherent.utils'],
  [(UT, "def ceiling_div(numer, denom):", "_CDIV = {}  # type: ignore\n\n\ndef padded_len(length, blocksize):\n    # type: (int, int) -> int\n    if length not in _CDIV:\n        _CDIV[length] = ((length + blocksize - 1) // blocksize) * blocksize\n    return _CDIV[length]\n\n\ndef ceiling_div(numer, denom):")], 'blocksize')
M('twin-cache-memo-keyed-on-all-parameters', 'twin', ['C18'], [],
  [(UT, "def ceiling_div(numer, denom):", "_CDIV = {}  # type: ignore\n\n\ndef padded_len(length, blocksize):\n    # type: (int, int) -> int\n    key = (length, blocksize)\n    if key not in _CDIV:\n        _CDIV[key] = ((length + blocksize - 1) // blocksize) * blocksize\n    return _CDIV[key]\n\n\ndef ceiling_div(numer, denom):")])
M('cache-lru-on-method-reading-state', 'fault', ['C02'], ['SA-CACHE.coherent.pycdlib'],
  [(PY, "    def has_rock_ridge(self):\n", "    @functools.lru_cache(maxsize=None)\n    def has_rock_ridge(self):\n")], 'never cache_clear')
M('twin-cache-lru-on-pure-function', 'twin', ['C18', 'C02'], [],
  [(UT, "def ceiling_div(numer, denom):", "@functools.lru_cache(maxsize=64)\ndef ceiling_div(numer, denom):"), (UT, "import io\n", "import functools\nimport io\n")])
M('cache-gmtoffset-per-hour-and-zone-name', 'fault', ['C19'], ['SA-CACHE.coherent.dates', 'SA-DATE.instant'],
  [(DT, "class DirectoryRecordDate:\n", "_OFFSETS = {}  # type: ignore\n\n\ndef gmtoffset_for(tm, local):\n    # type: (float, time.struct_time) -> int\n    key = (time.tzname, int(tm) // 3600)\n    if key not in _OFFSETS:\n        _OFFSETS[key] = utils.gmtoffset_from_tm(tm, local)\n    return _OFFSETS[key]\n\n\nclass DirectoryRecordDate:\n"),
   (DT, "        self.second = local.tm_sec\n        self.gmtoffset = utils.gmtoffset_from_tm(tm, local)\n        self._initialized = True\n", "        self.second = local.tm_sec\n        self.gmtoffset = gmtoffset_for(tm, local)\n        self._initialized = True\n")], 'does not contain unmodified')
M('cache-lazy-header-size-from-constants', 'twin', ['C12'], [],
  [(ISOH, GPT_SLOTS, "    __slots__ = ('_initialized', 'is_primary', 'header', 'parts', 'apm_parts', '_hsize')\n"),
   (ISOH, "        self.apm_parts = []  # type: List[APMPartHeader]\n        self._initialized = False\n", "        self.apm_parts = []  # type: List[APMPartHeader]\n        self._hsize = None  # type: Optional[int]\n        self._initialized = False\n"),
   (ISOH, "        part_data = b''.join(tmplist)\n\n        if self.is_primary:", "        part_data = b''.join(tmplist)\n        if self._hsize is None:\n            self._hsize = struct.calcsize(GPTHeader.FMT)\n\n        if self.is_primary:")])


# ---- fourth fix round: pre-validation made structural (tables/vbm_prevalidated.json, query twins, stream parts)
M('prevalidation-call-deleted', 'fault', ['C14'], ['SA-VBM'],
  [(PY, "        if udf_path:\n            self._check_udf_destination(utils.normpath(udf_path), False)\n\n        left = length", "        left = length")], 'can refuse after')
M('prevalidation-after-first-entry', 'fault', ['C14'], ['SA-VBM'],
  [(PY, "        if joliet_path is not None:\n            self._check_joliet_destination(self._normalize_joliet_path(joliet_path))\n        if udf_path is not None:\n            self._check_udf_destination(utils.normpath(udf_path), True)\n\n        num_bytes_to_add = 0\n        if iso_path is not None:", "        if udf_path is not None:\n            self._check_udf_destination(utils.normpath(udf_path), True)\n\n        num_bytes_to_add = 0\n        if iso_path is not None:")], 'can refuse after')
M('eltorito-rollback-removed', 'fault', ['C14'], ['SA-VBM'],
  [(PY, "            except Exception:\n                # The name for the Boot Catalog file was refused; the ISO\n                # stays without a Boot Catalog, and the boot file is no longer\n                # referenced by its Initial Entry.\n                self.eltorito_boot_catalog = None\n", "            except pycdlibexception.PyCdlibInternalError:\n                # The name for the Boot Catalog file was refused; the ISO\n                # stays without a Boot Catalog, and the boot file is no longer\n                # referenced by its Initial Entry.\n                self.eltorito_boot_catalog = None\n")], 'can refuse after')
M('query-twin-forgets-a-refusal', 'fault', ['C14'], ['SA-SIB.query_twin'],
  [(DR, "                if rr_child.rock_ridge is not None and rr_child.rock_ridge.name() == rr_name and not rr_child.rock_ridge.relocated_record():\n                    raise pycdlibexception.PyCdlibInvalidInput('Failed adding duplicate Rock Ridge name to parent')\n", "                if rr_child.rock_ridge is not None and rr_child.rock_ridge.name() == rr_name and not rr_child.rock_ridge.relocated_record():\n                    return\n")], 'duplicate Rock Ridge name')
M('stream-part-seek-ignores-part-start', 'fault', ['C16'], ['SA-SEEK.position'],
  [(IOF, "                fp.seek(startpos + offset - partstart)\n", "                fp.seek(startpos + offset)\n")], 'positioned')
M('stream-parts-not-cumulative', 'fault', ['C16'], ['SA-SEEK.position'],
  [(IOF, "            self._parts.append((fp, fp.tell(), self._length, length))\n            self._length += length\n", "            self._parts.append((fp, fp.tell(), 0, length))\n            self._length += length\n")], 'back to back')
M('stream-offset-not-advanced-by-piece', 'fault', ['C16'], ['SA-SEEK.position'],
  [(IOF, "            offset += len(data)\n            readsize -= len(data)\n", "            offset += readsize\n            readsize -= len(data)\n")], 'advance')
M('twin-stream-helper-renamed-local', 'twin', ['C16'], [],
  [(IOF, "            fp, thislen = self._seek_part(offset)\n            data = fp.read(min(thislen, readsize))\n", "            handle, left = self._seek_part(offset)\n            data = handle.read(min(left, readsize))\n")])
M('chain-walk-never-advances', 'fault', ['C15'], ['SA-TERM'],
  [(DR, "                last_part = last_part.data_continuation\n                index += 1\n", "                index += 1\n")], 'walk')


# ---- round 4 of the seeded regressions
M('dotdot-arguments-exchanged', 'fault', ['C01'], ['SA-ARGS.swap.pycdlib'],
  [(PY, "        self._create_dotdot(self.pvd, rec, self.rock_ridge, False, self.xa,\n                            0o040555)", "        self._create_dotdot(self.pvd, rec, self.rock_ridge, self.xa, False,\n                            0o040555)")], 'is passed as parameter')
M('twin-dotdot-arguments-by-keyword', 'twin', ['C01'], [],
  [(PY, "        self._create_dotdot(self.pvd, rec, self.rock_ridge, False, self.xa,\n                            0o040555)", "        self._create_dotdot(self.pvd, rec, self.rock_ridge, relocated=False, xa=self.xa,\n                            file_mode=0o040555)")])
M('dotdot-length-mirrored-from-insertion-point-only', 'fault', ['C01', 'C03'], ['SA-MIRROR.total'],
  [(DR, "                self.children[1].data_length = self.data_length\n\n            for c in self.children:\n                if not c.is_dir():\n                    continue\n                if len(c.children) > 1:\n                    c.children[1].data_length = self.data_length\n\n        return overflowed", "                self.children[1].data_length = self.data_length\n\n            for c in self.children[index:]:\n                if not c.is_dir():\n                    continue\n                if len(c.children) > 1:\n                    c.children[1].data_length = self.data_length\n\n        return overflowed")], 'slice')
M('rollback-filters-on-the-tuple', 'fault', ['C04', 'C14', 'C02', 'C07'], ['SA-IDENT.operands'],
  [(PY, "                                                       if id(link[0]) != id(boot_catalog.initial_entry)]", "                                                       if id(link) != id(boot_catalog.initial_entry)]")], 'never the same object')
M('rollback-restores-an-alias', 'fault', ['C14'], ['SA-ALIAS.restore'],
  [(PY, "            boot_catalog = eltorito.EltoritoBootCatalog(br)\n", "            saved_links = boot_dirrecord.inode.linked_records\n            boot_catalog = eltorito.EltoritoBootCatalog(br)\n"),
   (PY, "                boot_dirrecord.inode.linked_records = [link for link in boot_dirrecord.inode.linked_records\n                                                       if id(link[0]) != id(boot_catalog.initial_entry)]\n", "                boot_dirrecord.inode.linked_records = saved_links\n")], 'puts back the value')
M('twin-rollback-restores-a-copy', 'twin', ['C14', 'C04', 'C02', 'C07', 'C11'], [],
  [(PY, "            boot_catalog = eltorito.EltoritoBootCatalog(br)\n", "            saved_links = list(boot_dirrecord.inode.linked_records)\n            boot_catalog = eltorito.EltoritoBootCatalog(br)\n"),
   (PY, "                boot_dirrecord.inode.linked_records = [link for link in boot_dirrecord.inode.linked_records\n                                                       if id(link[0]) != id(boot_catalog.initial_entry)]\n", "                boot_dirrecord.inode.linked_records = saved_links\n")])
M('checksum-after-header-read-without-reseek', 'fault', ['C05', 'C11', 'C16'], ['SA-SEEK.consumer'],
  [(PY, "                    self._seek_to_extent(entry_extent)\n                    if self._calculate_eltorito_boot_info_table_csum(self._cdfp, bi_table.orig_len) == bi_table.csum:", "                    if self._calculate_eltorito_boot_info_table_csum(self._cdfp, bi_table.orig_len) == bi_table.csum:")], 'current position')
M('checksum-of-callers-file-object', 'fault', ['C11', 'C05', 'C16'], ['SA-SEEK.consumer'],
  [(PY, "            with inode.InodeOpenData(child.inode, self.logical_block_size) as (data_fp, data_len):\n                bi_table.new(self.pvd, child.inode, length,\n                             self._calculate_eltorito_boot_info_table_csum(data_fp, data_len))\n            child.inode.add_boot_info_table(bi_table)", "            bi_table.new(self.pvd, child.inode, length,\n                         self._calculate_eltorito_boot_info_table_csum(fp, length))\n            child.inode.add_boot_info_table(bi_table)")], 'current position')
M('hybrid-mbr-attached-after-the-mark', 'fault', ['C06', 'C12'], ['SA-RESHUFFLE.flag'],
  [(PY, "        self.isohybrid_mbr = isohybrid_mbr\n\n        # The boot file address (and the EFI/Mac partitions) in the hybrid MBR\n        # are filled in when the extents are assigned.\n        self._finish_add(0, 0)\n", "        # The boot file address (and the EFI/Mac partitions) in the hybrid MBR\n        # are filled in when the extents are assigned.\n        self._finish_add(0, 0)\n        self.isohybrid_mbr = isohybrid_mbr\n")], 'follows any more')
M('query-twin-stops-at-first-other-name', 'fault', ['C08', 'C13', 'C14'], ['SA-SIB.query_twin'],
  [(DR, "                if rr_child.rock_ridge is not None and rr_child.rock_ridge.name() == rr_name and not rr_child.rock_ridge.relocated_record():\n                    raise pycdlibexception.PyCdlibInvalidInput('Failed adding duplicate Rock Ridge name to parent')\n", "                other_rr = rr_child.rock_ridge\n                if other_rr is None or other_rr.name() != rr_name:\n                    break\n                if not other_rr.relocated_record():\n                    raise pycdlibexception.PyCdlibInvalidInput('Failed adding duplicate Rock Ridge name to parent')\n")], 'before it has seen every entry')
M('continuation-flag-true-for-first-part', 'fault', ['C13'], ['SA-DUPGUARD.bypass'],
  [(PY, "                                                                 rr_name=rr_name,\n                                                                 continuation=offset > 0)", "                                                                 rr_name=rr_name,\n                                                                 continuation=thislen < length)")], 'cannot tie')
M('standalone-entries-dropped-from-linking', 'fault', ['C15', 'C11', 'C07', 'C02'], ['SA-SIB.eltorito_entries'],
  [(PY, "            for entry in sec.section_entries:\n                entries_to_assign.append(entry)\n        for entry in self.eltorito_boot_catalog.standalone_entries:\n            entries_to_assign.append(entry)\n", "            entries_to_assign.extend(sec.section_entries)\n")], 'standalone_entries')
M('twin-section-entries-collected-with-extend', 'twin', ['C15', 'C11', 'C07', 'C02'], [],
  [(PY, "            for entry in sec.section_entries:\n                entries_to_assign.append(entry)\n        for entry in self.eltorito_boot_catalog.standalone_entries:\n            entries_to_assign.append(entry)\n", "            entries_to_assign.extend(sec.section_entries)\n        entries_to_assign.extend(self.eltorito_boot_catalog.standalone_entries)\n")])
M('pvd-copies-written-at-the-first-pvd', 'fault', ['C17', 'C01', 'C03'], ['SA-COORD.seekwrite'],
  [(PY, "            self._seek_to_extent(pvd.extent_location())\n            rec = pvd.record(now)\n            self._cdfp.write(rec)\n", "            self._seek_to_extent(self.pvd.extent_location())\n            self._cdfp.write(pvd.record(now))\n")], 'lands on the')
M('basename-sanitised-case-insensitively-before-upper', 'fault', ['C18'], ['SA-STR'],
  [(UT, "    valid_base = basename.upper()[:maxlen]\n", "    valid_base = re.sub('[^A-Z0-9_]{1}', r'_', basename, flags=re.IGNORECASE).upper()[:maxlen]\n    return valid_base\n")], 'non-ASCII')
M('tool-udf-link-guarded-by-joliet-switch', 'fault', ['C20'], ['SA-SIB.tool_views'],
  [(GEN, "                    if udf_path is not None and not hide_udf:\n", "                    if udf_path is not None and not hide_joliet:\n")], 'another view')


M('force-consistency-recomputes-unconditionally', 'fault', ['C17'], ['SA-GUARD.layout'],
  [(PY, "        if self._needs_reshuffle:\n            self._reshuffle_extents()\n\n    def set_relocated_name(self, name, rr_name):", "        self._reshuffle_extents()\n\n    def set_relocated_name(self, name, rr_name):")], 'unconditionally')
M('twin-force-consistency-raises-the-guard-instead', 'twin', ['C17', 'C06'], [],
  [(PY, "        if self._needs_reshuffle:\n            self._reshuffle_extents()\n\n    def set_relocated_name(self, name, rr_name):", "        self._layout_changed = True\n        self._reshuffle_extents()\n\n    def set_relocated_name(self, name, rr_name):")])


M('mangler-level-one-extension-limit-at-every-level', 'fault', ['C18'], ['SA-STR.ext'],
  [(UT, "        maxextlen = 3 if iso_level == 1 else 30\n", "        maxextlen = 3\n")], 'folded into the base name')
M('twin-mangler-extension-limit-as-statement', 'twin', ['C18', 'C20'], [],
  [(UT, "        maxextlen = 3 if iso_level == 1 else 30\n", "        maxextlen = 30\n        if iso_level == 1:\n            maxextlen = 3\n")])


RESOLVE_EFI = "        if efi is not None:\n            if not efi and mac:\n                raise pycdlibexception.PyCdlibInvalidInput('If mac is True, efi must also be True')\n        else:\n            efi = False\n            if mac:\n                efi = True\n\n"
SLOT_CHECK = "        if (efi and part_entry == 2) or (mac and part_entry == 3):\n            raise pycdlibexception.PyCdlibInvalidInput('Partition entry 2 is used by the EFI partition and 3 by the Mac partition')\n"
M('slot-check-before-efi-default-is-resolved', 'fault', ['C12', 'C13'], ['SA-DEFAULT.resolve.pycdlib'],
  [(PY, RESOLVE_EFI, SLOT_CHECK + "\n" + RESOLVE_EFI), (PY, "            raise pycdlibexception.PyCdlibInvalidInput('The partition entry must be between 1 and 4, inclusive')\n" + SLOT_CHECK, "            raise pycdlibexception.PyCdlibInvalidInput('The partition entry must be between 1 and 4, inclusive')\n")], 'before `efi is not None`')
M('twin-given-test-before-efi-default-is-resolved', 'twin', ['C12', 'C13'], [],
  [(PY, RESOLVE_EFI, "        efi_given = efi is not None\n" + RESOLVE_EFI)])


def applicable(m, sources):
    for rel, old, new in m['edits']:
        src = sources.get(rel)
        if src is None or src.count(old) != 1:
            return False
    return True


def _sources():
    out = {}
    for m in CATALOGUE:
        for rel, _, _ in m['edits']:
            if rel not in out:
                try:
                    with open(os.path.join(REPO, rel), encoding='utf-8') as f:
                        out[rel] = f.read()
                except OSError:
                    out[rel] = None
    return out


def _run_one(args):
    """worker: analyse one mutant; returns dict"""
    m, rids, base_bad = args
    from .engine import Ctx
    from . import registry
    registry.load_rules()
    t0 = time.time()
    try:
        overlay = {}
        if m.get('reformat'):
            import ast as _ast
            from .model import Model
            for mi in Model().modules.values():
                rel = os.path.relpath(mi.path, REPO) if os.path.isabs(mi.path) else mi.path
                with open(os.path.join(REPO, rel), encoding='utf-8') as f:
                    src = f.read()
                txt = _ast.unparse(_ast.parse(src, type_comments=True)) + '\n'
                if src.startswith('#!'):
                    txt = src.split('\n', 1)[0] + '\n' + txt
                overlay[rel] = txt
        for rel, old, new in m['edits']:
            src = overlay.get(rel)
            if src is None:
                with open(os.path.join(REPO, rel), encoding='utf-8') as f:
                    src = f.read()
            overlay[rel] = src.replace(old, new, 1)
        ctx = Ctx(overlay=overlay)
        new_bad = []
        for rid in rids:
            for ob in registry.RULES[rid](ctx):
                if not ob.ok and not ob.advisory and ob.fullkey() not in base_bad:
                    new_bad.append((ob.rule, ob.key, ob.detail[:160]))
        return {'name': m['name'], 'new': new_bad, 'error': None, 'wall': round(time.time() - t0, 2)}
    except Exception as e:     # noqa
        return {'name': m['name'], 'new': [], 'error': '%s: %s' % (type(e).__name__, e), 'wall': round(time.time() - t0, 2)}


def tree_digests():
    """sha256 of every source file a mutant edits"""
    import hashlib
    out = {}
    for rel, src in sorted(_sources().items()):
        if src is not None:
            out[rel] = hashlib.sha256(src.encode('utf-8')).hexdigest()
    return out


def validated_tree():
    """digests recorded by tools/selftest_all.py when the whole catalogue last passed"""
    import json
    p = os.path.join(os.path.dirname(os.path.dirname(os.path.abspath(__file__))), 'tables', 'selftest_validated.json')
    try:
        with open(p) as f:
            return json.load(f).get('digests', {})
    except (OSError, ValueError):
        return {}


def run(prop, rids, tier, seed, base_obs=None):
    from . import registry
    sources = _sources()
    mine = [m for m in CATALOGUE if prop in m['props']]
    skipped = [m['name'] for m in mine if not applicable(m, sources)]
    mine = [m for m in mine if applicable(m, sources)]
    if tier != 'quick':
        # every source file re-emitted by ast.unparse: all formatting, comments and line numbers change
        mine.append({'name': 'twin-reformat-every-file', 'kind': 'twin', 'props': [prop], 'rules': [], 'edits': [], 'expect': '', 'reformat': True})
    if tier == 'quick':
        rnd = random.Random(seed)
        faults = [m for m in mine if m['kind'] == 'fault']
        twins = [m for m in mine if m['kind'] == 'twin']
        rnd.shuffle(faults)
        rnd.shuffle(twins)
        mine = faults[:2] + twins[:1]
    if not mine:
        return {'mutants_run': 0, 'skipped_not_applicable': skipped, 'failed': []}
    base_bad = set()
    if base_obs is not None:
        base_bad = set(o.fullkey() for o in base_obs if not o.ok)
    jobs = []
    for m in mine:
        if m['kind'] == 'fault':
            rr = [r for r in m['rules'] if r in registry.RULES]
        else:
            rr = list(rids)
        jobs.append((m, rr, base_bad))
    results = []
    workers = min(len(jobs), int(os.environ.get('VERIF_JOBS', '8')))
    if workers <= 1:
        results = [_run_one(j) for j in jobs]
    else:
        with ProcessPoolExecutor(max_workers=workers) as ex:
            results = list(ex.map(_run_one, jobs))
    failed = []
    detail = []
    nf = nt = 0
    for m, r in zip(mine, results):
        if r['error']:
            failed.append('%s: analyser error %s' % (m['name'], r['error']))
            continue
        if m['kind'] == 'fault':
            hits = [x for x in r['new'] if (not m['expect'] or m['expect'] in x[1] or m['expect'] in x[2])]
            if hits:
                nf += 1
                detail.append({'mutant': m['name'], 'kind': 'fault', 'reported_by': hits[0][0], 'key': hits[0][1][:120], 'wall_s': r['wall']})
            else:
                failed.append('%s: seeded fault not reported by %s%s' % (m['name'], m['rules'], ' (new findings elsewhere: %s)' % r['new'][:2] if r['new'] else ''))
        else:
            if r['new']:
                failed.append('%s: behaviour-preserving twin raised %s' % (m['name'], r['new'][:2]))
            else:
                nt += 1
                detail.append({'mutant': m['name'], 'kind': 'twin', 'silent': True, 'wall_s': r['wall']})
    # The catalogue is validated against one particular tree (tools/selftest_all.py records its digests).  On a tree
    # that differs from it in a file some mutant edits, an unexpected mutant result says nothing reliable about
    # the checker (the edit may interact with the local change): it is reported, but it is not a checker fault.
    val = validated_tree()
    cur = tree_digests()
    same_tree = bool(val) and all(val.get(k) == v for k, v in cur.items())
    inconclusive = []
    if failed and not same_tree:
        inconclusive, failed = failed, []
    return {'mutants_run': len(mine), 'faults_detected': nf, 'twins_silent': nt, 'skipped_not_applicable': skipped,
            'failed': failed, 'inconclusive_on_modified_tree': inconclusive, 'tree_is_the_validated_one': same_tree, 'detail': detail}


# ---------------------------------------------------------------- seeding round 5
M('inplace-skips-further-joliet-names', 'fault', ['C17', 'C07'], ['SA-LINKS.every'],
  [(PY, "                if self.joliet_vd is not None and id(record.vd) == id(self.joliet_vd) and first_joliet:\n                    first_joliet = False\n",
    "                if self.joliet_vd is not None and id(record.vd) == id(self.joliet_vd):\n                    if not first_joliet:\n                        continue\n                    first_joliet = False\n")], 'modify_file_in_place')
M('inplace-writes-each-udf-entry-once', 'fault', ['C10', 'C17'], ['SA-LINKS.every'],
  [(PY, "                abs_offset = record.extent_location() * self.logical_block_size\n            elif isinstance(record, eltorito.EltoritoEntry):\n",
    "                abs_offset = record.extent_location() * self.logical_block_size\n                if abs_offset == child.extent_location() * self.logical_block_size:\n                    continue\n            elif isinstance(record, eltorito.EltoritoEntry):\n")], 'modify_file_in_place')
M('twin-inplace-skips-eltorito-entries-first', 'twin', ['C17', 'C10', 'C07'], [],
  [(PY, "        for record, is_pvd_unused in child.inode.linked_records:\n            if isinstance(record, dr.DirectoryRecord):\n                if self.joliet_vd is not None",
    "        for record, is_pvd_unused in child.inode.linked_records:\n            if isinstance(record, eltorito.EltoritoEntry):\n                continue\n            if isinstance(record, dr.DirectoryRecord):\n                if self.joliet_vd is not None")])
M('long-ad-offset-only-set-by-builder', 'fault', ['C15'], ['SA-EXC.slot_init'],
  [(UDF, "    FMT = '<LLH6s'\n\n    def __init__(self):\n        # type: () -> None\n        self.offset = 0\n        self._initialized = False\n",
    "    FMT = '<LLH6s'\n\n    def __init__(self):\n        # type: () -> None\n        self._initialized = False\n"),
   (UDF, "        self.part_ref_num = 0  # FIXME: let the user set this\n        self.impl_use = b'\\x00' * 6\n\n        self._initialized = True\n",
    "        self.part_ref_num = 0  # FIXME: let the user set this\n        self.impl_use = b'\\x00' * 6\n        self.offset = 0\n\n        self._initialized = True\n")], 'UDFLongAD')
M('root-record-shared-with-last-pvd-copy-only', 'fault', ['C03', 'C02'], ['SA-MIRROR.loopvar'],
  [(PY, "                raise pycdlibexception.PyCdlibInvalidISO('Multiple occurrences of PVD did not agree!')\n\n            pvd.root_dir_record = self.pvd.root_dir_record\n",
    "                raise pycdlibexception.PyCdlibInvalidISO('Multiple occurrences of PVD did not agree!')\n\n        pvd.root_dir_record = self.pvd.root_dir_record\n")], '_parse_volume_descriptors')
M('section-remarks-first-header', 'fault', ['C11', 'C01'], ['SA-COORD.last_mark'],
  [(ELT, "            self.sections[-1].set_record_not_last()\n", "            self.sections[0].set_record_not_last()\n")], 'add_section')
M('twin-section-remarks-last-header-through-a-local', 'twin', ['C11', 'C01'], [],
  [(ELT, "            self.sections[-1].set_record_not_last()\n", "            previous = self.sections[-1]\n            previous.set_record_not_last()\n")])
M('relocated-entry-remembered-as-relocation-directory', 'fault', ['C02', 'C08'], ['SA-COORD.rr_moved_holder'],
  [(PY, "                        self._rr_moved_record = dir_record\n", "                        self._rr_moved_record = new_record\n")], '_walk_directories')
M('twin-relocation-directory-through-a-local', 'twin', ['C02', 'C08'], [],
  [(PY, "                        self._rr_moved_record = dir_record\n", "                        holder = dir_record\n                        self._rr_moved_record = holder\n")])
M('continuation-areas-of-the-root-not-registered', 'fault', ['C04', 'C08', 'C02'], ['SA-COORD.ce_tracked'],
  [(PY, "                    if not (dir_record.is_root and new_record.is_dot()):\n", "                    if not dir_record.is_root and not new_record.is_dot():\n")], '_walk_directories')
M('twin-root-dot-test-through-a-local', 'twin', ['C04', 'C08', 'C02'], [],
  [(PY, "                    if not (dir_record.is_root and new_record.is_dot()):\n", "                    holds_er = dir_record.is_root and new_record.is_dot()\n                    if not holds_er:\n")])
M('twin-root-dot-test-de-morgan', 'twin', ['C04', 'C08', 'C02'], [],
  [(PY, "                    if not (dir_record.is_root and new_record.is_dot()):\n", "                    if not dir_record.is_root or not new_record.is_dot():\n")])
M('relocation-name-asked-before-default', 'fault', ['C14'], ['SA-DEFAULT.attr'],
  [(PY, "        self.pvd.root_directory_record().check_new_child(rr_moved_name,\n                                                         rr_moved_rr_name)\n",
    "        self.pvd.root_directory_record().check_new_child(rr_moved_name,\n                                                         self._rr_moved_rr_name)\n")], '_find_or_create_rr_moved')
M('level4-extension-split-before-semicolon-replaced', 'fault', ['C18'], ['SA-STR'],
  [(UT, "    valid_ext = ''\n    if iso_level == 4:\n", "    valid_ext = ''\n    splitter = orig.split('.')\n    if iso_level == 4:\n"),
   (UT, "            orig = '_'\n    splitter = orig.split('.')\n    if iso_level == 4:\n", "            orig = '_'\n    if iso_level == 4:\n")], 'level 4')
M('cylinder-count-before-gpt-padding', 'fault', ['C12'], ['SA-FRESH.derived_pair'],
  [(ISOH, "        if self.efi:\n            # The backup GPT (the partition array and then the header) lives\n", "        cc = min((iso_size + padding) // cylsize, 1024)\n        if self.efi:\n            # The backup GPT (the partition array and then the header) lives\n"),
   (ISOH, "                padding += cylsize\n        cc = min((iso_size + padding) // cylsize, 1024)\n", "                padding += cylsize\n")], '_calc_cc')
M('read-past-end-pulls-position-back', 'fault', ['C16'], ['SA-SEEK.advance'],
  [(IOF, "        if self._offset >= self._length:\n            return b''\n\n        if size is None or size < 0:\n", "        if size is None or size < 0:\n")], 'PyCdlibIO.read|')
M('twin-read-eof-test-operands-exchanged', 'twin', ['C16'], [],
  [(IOF, "        if self._offset >= self._length:\n            return b''\n\n        if size is None or size < 0:\n", "        if self._length <= self._offset:\n            return b''\n\n        if size is None or size < 0:\n")])
M('timezone-sign-extension-off-by-one', 'fault', ['C19'], ['SA-DATE.signext'],
  [(UDF, "                val = val - (1 << bits)         # compute negative value\n", "                val = val - ((1 << bits) - 1)   # compute negative value\n")], 'twos_comp')
M('symlink-components-need-one-byte-more', 'fault', ['C20'], ['SA-PARSE.header_fits'],
  [(EXT, "    while offset + 4 <= len(data):\n", "    while offset + 4 < len(data):\n")], 'udf_symlink_target')
M('parser-never-finishes-deferred-layout', 'fault', ['C03', 'C02'], ['SA-PAIR.offset_cache'],
  [(PY, "            dir_record.finish_tracking(self.logical_block_size)\n", "            pass\n")], '_add_child')
M('rm-directory-does-not-ask-the-pvds-first', 'fault', ['C14'], ['SA-VBM'],
  [(PY, "            for pvd in self.pvds:\n                pvd.check_remove_from_ptr_size(ptr_sizes)\n", "            pass\n")], '_remove_from_ptr_size')
M('insertion-tests-only-first-rock-ridge-name', 'fault', ['C13', 'C14'], ['SA-SIB.query_twin'],
  [(DR, "                for other_index in range(rr_index, len(self.rr_children)):\n                    other_rr = self.rr_children[other_index].rock_ridge\n                    if other_rr is None or other_rr.name() != child.rock_ridge.name():\n                        break\n                    if not other_rr.relocated_record():\n                        raise pycdlibexception.PyCdlibInvalidInput('Failed adding duplicate Rock Ridge name to parent')\n",
    "                if rr_index != len(self.rr_children):\n                    other_rr = self.rr_children[rr_index].rock_ridge\n                    if other_rr is not None and other_rr.name() == child.rock_ridge.name() and not other_rr.relocated_record():\n                        raise pycdlibexception.PyCdlibInvalidInput('Failed adding duplicate Rock Ridge name to parent')\n")], 'found by scanning')

# ---------------------------------------------------------------- seeding round 6
M('joliet-size-reduced-by-sectors', 'fault', ['C17', 'C04'], ['SA-UNITS.bytes'],
  [(PY, "                    self.joliet_vd.remove_from_space_size(record.get_data_length())\n", "                    self.joliet_vd.remove_from_space_size(old_num_extents)\n")], 'modify_file_in_place')
M('udf-symlink-accounted-in-blocks', 'fault', ['C04', 'C10'], ['SA-UNITS.bytes'],
  [(PY, "            num_bytes_to_add += file_entry.info_len\n", "            num_bytes_to_add += file_entry.log_block_recorded\n")], 'add_symlink')
M('twin-symlink-accounting-through-a-local', 'twin', ['C04', 'C10', 'C17', 'C01'], [],
  [(PY, "            num_bytes_to_add += file_entry.info_len\n", "            target_bytes = file_entry.info_len\n            num_bytes_to_add += target_bytes\n")])
M('relocation-rename-single-pass', 'fault', ['C18', 'C13'], ['SA-GATE.rescan'],
  [(PY, "                            iso9660_name = name[:maxlen - len(suffix)] + suffix\n                            index += 1\n                            break\n                    else:\n                        break\n",
    "                            iso9660_name = name[:maxlen - len(suffix)] + suffix\n                            index += 1\n                    break\n")], 'add_directory')
M('symlink-entry-flag-only-on-split-component', 'fault', ['C08'], ['SA-SIB.continued'],
  [(RR, "                    curr_sl.set_continued()\n                    if offset != 0:\n                        # If we need to continue this particular\n                        # *component* in the next SL record, then we\n                        # also need to mark the curr_sl's last component\n                        # header as continued.\n                        curr_sl.set_last_component_continued()\n",
    "                    if offset != 0:\n                        # If we need to continue this particular\n                        # *component* in the next SL record, then we\n                        # also need to mark the curr_sl's last component\n                        # header as continued.\n                        curr_sl.set_continued()\n                        curr_sl.set_last_component_continued()\n")], '_new_symlink')
M('boot-images-placed-only-until-first-without-hybrid', 'fault', ['C11', 'C12', 'C01'], ['SA-MIRROR.invariant_break'],
  [(PY, "                if self.isohybrid_mbr is None or id(enc.entry) in hybrid_entries:\n                    continue\n",
    "                if self.isohybrid_mbr is None:\n                    break\n                if id(enc.entry) in hybrid_entries:\n                    continue\n")], '_reshuffle_extents')
M('backup-gpt-placed-with-capped-cylinders', 'fault', ['C12'], ['SA-FRESH.clamped'],
  [(ISOH, "        padlen = self._calc_cc(iso_size)[1]\n        size_and_padlen = iso_size + padlen\n        secondary_lba = (size_and_padlen - 512) // 512\n",
    "        cc = self._calc_cc(iso_size)[0]\n        size_and_padlen = cc * self.geometry_heads * self.geometry_sectors * 512\n        secondary_lba = (size_and_padlen - 512) // 512\n")], 'update_efi')
M('extract-saves-cwd-after-leaving-it', 'fault', ['C20'], ['SA-PAIR.cwd'],
  [(EXT, "                old_dir = os.getcwd()\n                os.chdir(local_dir)\n", "                os.chdir(local_dir)\n                old_dir = os.getcwd()\n")], 'old_dir')
M('hundredths-rounded-into-three-digits', 'fault', ['C19'], ['SA-DATE.width'],
  [(DT, "            self.second = local.tm_sec\n            self.hundredthsofsecond = 0\n            self.gmtoffset = utils.gmtoffset_from_tm(tm, local)\n",
    "            self.second = local.tm_sec\n            self.hundredthsofsecond = int(round((tm - int(tm)) * 100))\n            self.gmtoffset = utils.gmtoffset_from_tm(tm, local)\n")], 'VolumeDescriptorDate.new')
M('twin-hundredths-truncated-modulo', 'twin', ['C19'], [],
  [(DT, "            self.second = local.tm_sec\n            self.hundredthsofsecond = 0\n            self.gmtoffset = utils.gmtoffset_from_tm(tm, local)\n",
    "            self.second = local.tm_sec\n            self.hundredthsofsecond = int((tm - int(tm)) * 100) % 100\n            self.gmtoffset = utils.gmtoffset_from_tm(tm, local)\n")])
M('part-start-sampled-after-all-parts-entered', 'fault', ['C16'], ['SA-SEEK.position'],
  [(IOF, "        for ctxt in self._ctxts:\n            (fp, length) = ctxt.__enter__()\n            self._parts.append((fp, fp.tell(), self._length, length))\n",
    "        opened = [ctxt.__enter__() for ctxt in self._ctxts]\n        for (fp, length) in opened:\n            self._parts.append((fp, fp.tell(), self._length, length))\n")], 'start of a part')
M('dotdot-length-copied-from-the-subdirectory', 'fault', ['C09', 'C03', 'C01'], ['SA-MIRROR.total'],
  [(DR, "                if len(c.children) > 1:\n                    c.children[1].data_length = self.data_length\n            underflow = True\n",
    "                if len(c.children) > 1:\n                    c.children[1].data_length = c.data_length\n            underflow = True\n")], 'remove_child')
M('read-recomputes-when-boot-info-table', 'fault', ['C06', 'C17'], ['SA-GUARD.layout'],
  [(PY, "        if rec.inode.boot_info_table is not None and self._needs_reshuffle:\n", "        if self._needs_reshuffle or rec.inode.boot_info_table is not None:\n")], 'open_file_from_iso')
M('end-cylinder-mask-shifted-first', 'fault', ['C12', 'C05'], ['SA-SYM.mask'],
  [(ISOH, "                ecyle |= (esect & 0xc0) << 2\n", "                ecyle |= esect & 0xc0 << 2\n")], 'IsoHybrid.parse')
M('directory-blocks-counted-from-the-length-field', 'fault', ['C15'], ['SA-TERM.range'],
  [(PY, "                               dir_record.extent_location() + utils.ceiling_div(len(data), self.logical_block_size)):\n",
    "                               dir_record.extent_location() + utils.ceiling_div(length, self.logical_block_size)):\n")], '_walk_directories')
M('inplace-length-set-on-the-addressed-record-only', 'fault', ['C03', 'C17', 'C07'], ['SA-LINKS.every'],
  [(PY, "            record.set_data_length(length)\n            self._cdfp.seek(abs_offset)\n", "            child.set_data_length(length)\n            self._cdfp.seek(abs_offset)\n")], 'on a fixed record')
M('layout-guard-only-in-lazy-mode', 'fault', ['C14', 'C17'], ['SA-GUARD.layout'],
  [(PY, "        self._layout_changed = True\n\n        if self._always_consistent:\n            self._reshuffle_extents()\n        else:\n            self._needs_reshuffle = True\n\n    def _finish_remove(",
    "        if self._always_consistent:\n            self._reshuffle_extents()\n        else:\n            self._layout_changed = True\n            self._needs_reshuffle = True\n\n    def _finish_remove(")], '_finish_add')

M('relocation-records-not-asked-first', 'fault', ['C14'], ['SA-VBM'],
  [(PY, '                dr.DirectoryRecord().check_new_dir(self.pvd, name, parent,\n                                                   self.pvd.sequence_number(),\n                                                   self.rock_ridge, new_rr_name,\n                                                   self.logical_block_size,\n                                                   True, False, self.xa,\n                                                   file_mode, time.time())\n                dr.DirectoryRecord().check_new_dir(self.pvd, iso9660_name,\n                                                   parent,\n                                                   self.pvd.sequence_number(),\n                                                   self.rock_ridge, new_rr_name,\n                                                   self.logical_block_size,\n                                                   False, True, self.xa,\n                                                   file_mode, time.time())\n\n', "                pass\n\n")], 'add_directory')

# seeding round 7
M('partition-size-divided-without-the-offset', 'fault', ['C05', 'C12'], ['SA-SYM.rebase'],
  [(ISOH, "        self.geometry_sectors = min((psize + self.part_offset) // ((ecyle + 1) * self.geometry_heads), 63)\n",
    "        self.geometry_sectors = min(psize // ((ecyle + 1) * self.geometry_heads), 63)\n")], 'IsoHybrid.parse')
M('twin-partition-size-offset-first', 'twin', ['C05', 'C12'], [],
  [(ISOH, "        self.geometry_sectors = min((psize + self.part_offset) // ((ecyle + 1) * self.geometry_heads), 63)\n",
    "        total = self.part_offset + psize\n        self.geometry_sectors = min(total // ((ecyle + 1) * self.geometry_heads), 63)\n")])
M('seek-skipped-when-position-remembered', 'fault', ['C16'], ['SA-SEEK.position'],
  [(IOF, "                fp.seek(startpos + offset - partstart)\n                return fp, partstart + partlen - offset\n",
    "                if getattr(self, '_synced', None) != (fp, offset):\n                    fp.seek(startpos + offset - partstart)\n                    self._synced = (fp, offset)\n                return fp, partstart + partlen - offset\n")], 'only under a condition')
M('twin-seek-operands-reordered', 'twin', ['C16'], [],
  [(IOF, "                fp.seek(startpos + offset - partstart)\n", "                fp.seek(startpos - partstart + offset)\n")])
