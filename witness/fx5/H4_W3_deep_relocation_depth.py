#!/usr/bin/env python
"""
Observation C: Rock Ridge relocation happens at logical depth 8, 16, ...
only, so directories at logical depth 14 and 15 end up nine and ten levels
deep in the ISO9660 hierarchy (ECMA-119 6.8.2.1 allows eight, the root
being level one).

usage: W3_deep_relocation_depth.py <path-to-checkout>
"""
import io
import struct
import sys

sys.path.insert(0, sys.argv[1])

import pycdlib  # noqa: E402 pylint: disable=wrong-import-position

SECTOR = 2048


def records(img, extent, length):
    """Yield (ident, flags, extent, length, system_use) for a directory."""
    data = img[extent * SECTOR:extent * SECTOR + length]
    pos = 0
    while pos < len(data):
        reclen = data[pos]
        if reclen == 0:
            pos = (pos // SECTOR + 1) * SECTOR
            continue
        rec = data[pos:pos + reclen]
        ext, = struct.unpack_from('<L', rec, 2)
        dlen, = struct.unpack_from('<L', rec, 10)
        idlen = rec[32]
        ident = rec[33:33 + idlen]
        su = 33 + idlen + (1 - idlen % 2)
        yield ident, rec[25], ext, dlen, rec[su:]
        pos += reclen


def susp(img, area):
    """Yield (signature, payload) of all SUSP entries, following CE."""
    while area is not None:
        nxt = None
        pos = 0
        while pos + 4 <= len(area):
            sig = area[pos:pos + 2]
            elen = area[pos + 2]
            if elen < 4:
                break
            body = area[pos + 4:pos + elen]
            if sig == b'CE':
                blk, = struct.unpack_from('<L', body, 0)
                off, = struct.unpack_from('<L', body, 8)
                clen, = struct.unpack_from('<L', body, 16)
                nxt = img[blk * SECTOR + off:blk * SECTOR + off + clen]
            elif sig == b'ST':
                break
            else:
                yield sig, body
            pos += elen
        area = nxt


def rr_info(img, su):
    """Return (name, cl_extent, has_re) from a system use area."""
    name = b''
    cl = None
    has_re = False
    for sig, body in susp(img, su):
        if sig == b'NM':
            name += body[1:]
        elif sig == b'CL':
            cl, = struct.unpack_from('<L', body, 0)
        elif sig == b'RE':
            has_re = True
    return name, cl, has_re


def physical_dirs(img):
    """All directories of the plain ISO9660 hierarchy as (level, path); the root is level 1."""
    root_ext, = struct.unpack_from('<L', img, 16 * SECTOR + 156 + 2)
    root_len, = struct.unpack_from('<L', img, 16 * SECTOR + 156 + 10)
    result = []
    todo = [(1, b'', root_ext, root_len)]
    while todo:
        level, path, ext, length = todo.pop()
        result.append((level, path or b'/'))
        for ident, flags, cext, clen, _su in list(records(img, ext, length))[2:]:
            if flags & 2:
                todo.append((level + 1, path + b'/' + ident, cext, clen))
    return result


def logical_dirs(img):
    """All directories of the Rock Ridge tree (following CL, skipping RE) as paths."""
    root_ext, = struct.unpack_from('<L', img, 16 * SECTOR + 156 + 2)
    root_len, = struct.unpack_from('<L', img, 16 * SECTOR + 156 + 10)
    result = set()
    todo = [(b'', root_ext, root_len)]
    while todo:
        path, ext, length = todo.pop()
        result.add(path or b'/')
        for _ident, flags, cext, clen, su in list(records(img, ext, length))[2:]:
            name, cl, has_re = rr_info(img, su)
            if has_re:
                continue
            if cl is not None:
                tlen = next(records(img, cl, SECTOR))[3]
                todo.append((path + b'/' + name, cl, tlen))
            elif flags & 2:
                todo.append((path + b'/' + name, cext, clen))
    return result


def main():
    problems = []
    depth = 18

    iso = pycdlib.PyCdlib()
    iso.new(rock_ridge='1.09')
    path = ''
    rr_path = ''
    expected = set([b'/'])
    for level in range(1, depth + 1):
        path += '/D%d' % level
        rr_path += '/d%d' % level
        iso.add_directory(path, rr_name='d%d' % level)
        expected.add(rr_path.encode())
    iso.add_fp(io.BytesIO(b'deep\n'), 5, path + '/F.;1', rr_name='f')
    out = io.BytesIO()
    iso.write_fp(out)
    iso.close()
    img = out.getvalue()

    for level, ppath in sorted(physical_dirs(img)):
        if level > 8:
            problems.append('directory %s is at level %d of the ISO9660 hierarchy (maximum is 8)' % (ppath.decode(), level))

    # The logical tree has to be the one that was built.
    logical = logical_dirs(img)
    rr_moved = set(p for p in logical if p.split(b'/')[1:2] == [b'rr_moved'])
    if logical - rr_moved != expected:
        problems.append('Rock Ridge tree differs: missing %s, unexpected %s' % (sorted(expected - logical), sorted(logical - rr_moved - expected)))

    # And the library reads it back the same way.
    iso = pycdlib.PyCdlib()
    iso.open_fp(io.BytesIO(img))
    got = io.BytesIO()
    try:
        iso.get_file_from_iso_fp(got, rr_path=rr_path + '/f')
        if got.getvalue() != b'deep\n':
            problems.append('file at depth %d reads %r' % (depth + 1, got.getvalue()))
    except pycdlib.pycdlibexception.PyCdlibException as exc:
        problems.append('file at depth %d: %s' % (depth + 1, exc))
    iso.close()

    if problems:
        for problem in problems:
            print(problem)
        return 1
    print('OK')
    return 0


if __name__ == '__main__':
    sys.exit(main())
