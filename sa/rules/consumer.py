"""SA-SEEK.consumer: a function that reads a file object from its current position is handed a positioned one (C05, C11, C16).

Several helpers take a file object and read it from wherever it stands (`_calculate_eltorito_boot_info_table_csum(fp,
length)`, `utils.copy_data(length, blocksize, infp, outfp)`, `copy_data_yield`): the contract that `fp` is at the first byte
to consume is the caller's.  Every caller in the tree meets it in one of three ways: the file object is the one bound by
`with inode.InodeOpenData(...) as (fp, length)` (whose __enter__ seeks, SA-SEEK.opendata); the call is preceded by a
seek on that file object (`fp.seek(...)`, `self._seek_to_extent(...)` for the image handle); or the caller passes on its
own parameter and is itself such a consumer for its callers.  A read on the same file object after the last
positioning moves it: the consumer then starts in the middle of the data (a checksum over a shifted window, a copy
that begins 24 bytes late).

Consumers are found, not listed: a function with a parameter on which the first handle operation on some path is
`read`.  For every call of a consumer the rule runs a forward must-analysis over the caller's CFG for the argument
expression: positioned (True) after a seek / with-binding / creation, not positioned (False) after a read or after it
was handed to another consumer; at the call it has to be True on every path.  A public method's own file-object
parameter counts as not positioned (the user may hand in a BytesIO it has just written to).
"""
import ast

from ..registry import rule, props
from ..report import Ob
from ..model import norm, AnalysisError
from .. import cfg as cfgmod

IMAGE_HANDLE = 'self._cdfp'
IMAGE_SEEKERS = ('_seek_to_extent',)


def _calls(n):
    for e in cfgmod.node_exprs(n):
        for sub in ast.walk(e):
            if isinstance(sub, ast.Call):
                yield sub


def _first_op_is_read(ctx, fi, param):
    """on some path from entry the first operation on `param` is .read()"""
    g = ctx.cfg(fi)

    def transfer(n, st, lab):
        if st != 'none':
            return st
        for c in sorted(_calls(n), key=lambda c: (c.lineno, c.col_offset)):
            f = c.func
            if isinstance(f, ast.Attribute) and isinstance(f.value, ast.Name) and f.value.id == param:
                if f.attr in ('read', 'readinto', 'readline'):
                    return 'read'
                if f.attr in ('seek',):
                    return 'seek'
        return st
    order = {'none': 2, 'read': 1, 'seek': 0}      # may-analysis: a path on which nothing has touched the handle yet survives the join
    IN = g.forward('none', transfer, lambda a, b: a if order[a] >= order[b] else b)
    # any node whose OUT is 'read' while IN was 'none'
    for n in g.nodes:
        st = IN.get(n.id)
        if st == 'none' and transfer(n, st, '') == 'read':
            return True
    return False


def consumers(ctx):
    c = getattr(ctx, '_fp_consumers', None)
    if c is not None:
        return c
    out = {}
    funcs = list(ctx.m.pkg_functions())
    for fi in funcs:
        for i, p in enumerate(fi.params):
            p = p.lstrip('*')
            if p in ('self', 'cls'):
                continue
            if any(isinstance(n, ast.Attribute) and n.attr in ('read', 'readinto') and isinstance(n.value, ast.Name) and n.value.id == p for n in ctx.own_nodes(fi)):
                if _first_op_is_read(ctx, fi, p):
                    out.setdefault(fi.qual, set()).add(p)
    # a function that only passes its parameter on to a consumer (before any seek) is one too
    changed = True
    while changed:
        changed = False
        for fi in funcs:
            for c in ctx.calls(fi):
                for cal in c.callees:
                    if getattr(cal, 'qual', None) in out:
                        for pname, arg in _bind(cal, c.node):
                            if pname in out[cal.qual] and isinstance(arg, ast.Name) and arg.id in [q.lstrip('*') for q in fi.params] and arg.id != 'self':
                                # no seek on it before this call in fi
                                seeks = [n for n in ctx.own_nodes(fi) if isinstance(n, ast.Call) and isinstance(n.func, ast.Attribute) and n.func.attr == 'seek'
                                         and norm(n.func.value) == arg.id and n.lineno < c.node.lineno]
                                if not seeks and arg.id not in out.get(fi.qual, set()):
                                    out.setdefault(fi.qual, set()).add(arg.id)
                                    changed = True
    ctx._fp_consumers = out
    return out


def _bind(callee, call):
    ps = [p.lstrip('*') for p in callee.params]
    if ps and ps[0] in ('self', 'cls') and callee.cls is not None and not callee.is_static:
        ps = ps[1:]
    out = list(zip(ps, call.args))
    for k in call.keywords:
        if k.arg in ps:
            out.append((k.arg, k.value))
    return out


@rule('SA-SEEK.consumer')
@props('C05', 'C11', 'C16')
def seek_consumer(ctx):
    obs = []
    cons = consumers(ctx)
    if len(cons) < 3:
        raise AnalysisError('anchor-vanished: functions that read a file-object parameter from its current position (%d)' % len(cons))
    nsites = 0
    pc = ctx.m.classes.get('pycdlib.PyCdlib')
    for fi in ctx.m.pkg_functions():
        sites = []
        for c in ctx.calls(fi):
            for cal in c.callees:
                if getattr(cal, 'qual', None) in cons:
                    for pname, arg in _bind(cal, c.node):
                        if pname in cons[cal.qual]:
                            sites.append((c, cal, arg))
        if not sites:
            continue
        g = ctx.cfg(fi)
        params = [p.lstrip('*') for p in fi.params]
        is_public_api = fi.cls is pc and not fi.name.startswith('_')
        for c, cal, arg in sites:
            a = norm(arg)
            nsites += 1
            key = '%s|%s(%s)' % (fi.qual, norm(c.node.func), a)
            # bound by `with InodeOpenData(...) as (a, _)` enclosing the call, or created here
            par = ctx.parents(fi)
            st = ctx.enclosing_stmt(fi, c.node)
            target = g.node_of(st)

            def positions(n):
                """does CFG node n position the handle `a`?"""
                if n.kind in ('with', 'stmt') and n.stmt is not None and isinstance(n.stmt, ast.With):
                    for it in n.stmt.items:
                        if it.optional_vars is not None and any(norm(x) == a for x in ast.walk(it.optional_vars) if isinstance(x, (ast.Name, ast.Attribute))):
                            return True
                for cc in _calls(n):
                    f = cc.func
                    if isinstance(f, ast.Attribute) and f.attr == 'seek' and norm(f.value) == a:
                        return True
                    if a == IMAGE_HANDLE and isinstance(f, ast.Attribute) and f.attr in IMAGE_SEEKERS and norm(f.value) == 'self':
                        return True
                if n.kind == 'stmt' and isinstance(n.stmt, ast.Assign) and any(norm(t) == a for t in n.stmt.targets) and isinstance(n.stmt.value, ast.Call):
                    return True          # freshly opened / created file object
                return False

            def moves(n, skip):
                for cc in _calls(n):
                    if cc is skip:
                        continue
                    f = cc.func
                    if isinstance(f, ast.Attribute) and f.attr in ('read', 'readinto', 'readline', 'write') and norm(f.value) == a:
                        return True
                    # handed to another consumer: it comes back somewhere else
                    for cal2 in [x for x in (ctx.t._resolve(cc, fi)[0] or ()) if getattr(x, 'qual', None) in cons]:
                        for pname, arg2 in _bind(cal2, cc):
                            if pname in cons[cal2.qual] and norm(arg2) == a:
                                return True
                return False

            def transfer(n, stt, lab):
                cur = stt
                # order inside one node: positions first if the seek precedes the read textually - statements are small here
                if moves(n, c.node):
                    cur = False
                if positions(n):
                    cur = True
                return cur
            # a parameter of a consumer-caller is positioned by contract; a public method's parameter is not
            init = isinstance(arg, ast.Name) and arg.id in params and arg.id in cons.get(fi.qual, set()) and not is_public_api
            IN = g.forward(init, transfer, lambda x, y: x and y)
            ok = bool(IN.get(target.id)) if target is not None else False
            # with-statement bodies: the with node itself positions; its body nodes inherit through the CFG
            obs.append(Ob('SA-SEEK.consumer', key, ok, ctx.loc(fi, c.node),
                          '' if ok else '%s reads `%s` from its current position, but on some path to this call the last thing done with `%s` was not a positioning '
                          '(a seek, self._seek_to_extent, or the binding of `with inode.InodeOpenData(...) as (...)`): %s - the consumer starts in the middle of the data'
                          % (cal.qual, a, a, 'it was read before' if not (isinstance(arg, ast.Name) and arg.id in params) else
                             'it is a file object supplied by the caller of this %s method, which may stand anywhere' % ('public' if is_public_api else ''))))
    if nsites < 5:
        raise AnalysisError('anchor-vanished: calls of position-dependent consumers (%d)' % nsites)
    return obs
