#!/usr/bin/env python
"""
Observation A: the PX link count in the CL placeholder of a relocated Rock
Ridge directory is not updated when subdirectories are added to (or removed
from) the relocated directory.

usage: W1_cl_placeholder_nlink.py <path-to-checkout>
"""
import io
import struct
import sys

sys.path.insert(0, sys.argv[1])

import pycdlib  # noqa: E402 pylint: disable=wrong-import-position

SECTOR = 2048


def records(img, extent, length):
    """Yield (ident, flags, extent, length, system_use) for a directory."""
    data = img[extent * SECTOR:extent * SECTOR + length]
    pos = 0
    while pos < len(data):
        reclen = data[pos]
        if reclen == 0:
            pos = (pos // SECTOR + 1) * SECTOR
            continue
        rec = data[pos:pos + reclen]
        ext, = struct.unpack_from('<L', rec, 2)
        dlen, = struct.unpack_from('<L', rec, 10)
        flags = rec[25]
        idlen = rec[32]
        ident = rec[33:33 + idlen]
        su = 33 + idlen + (1 - idlen % 2)
        yield ident, flags, ext, dlen, rec[su:]
        pos += reclen


def susp(img, area):
    """Yield (signature, payload) of all SUSP entries, following CE."""
    while area is not None:
        nxt = None
        pos = 0
        while pos + 4 <= len(area):
            sig = area[pos:pos + 2]
            elen = area[pos + 2]
            if elen < 4:
                break
            body = area[pos + 4:pos + elen]
            if sig == b'CE':
                blk, = struct.unpack_from('<L', body, 0)
                off, = struct.unpack_from('<L', body, 8)
                clen, = struct.unpack_from('<L', body, 16)
                nxt = img[blk * SECTOR + off:blk * SECTOR + off + clen]
            elif sig == b'ST':
                break
            else:
                yield sig, body
            pos += elen
        area = nxt


def rr_info(img, su):
    """Return (name, nlink, cl_extent) from a system use area."""
    name = b''
    nlink = None
    cl = None
    for sig, body in susp(img, su):
        if sig == b'NM':
            name += body[1:]
        elif sig == b'PX':
            nlink, = struct.unpack_from('<L', body, 8)
        elif sig == b'CL':
            cl, = struct.unpack_from('<L', body, 0)
    return name, nlink, cl


def check(img, label):
    """
    Walk the logical Rock Ridge tree from the root; for every CL placeholder
    compare its PX link count with the one in the '.' record of the directory
    the CL entry points at, and with the number of subdirectories seen there.
    """
    problems = []
    root_ext, = struct.unpack_from('<L', img, 16 * SECTOR + 156 + 2)
    root_len, = struct.unpack_from('<L', img, 16 * SECTOR + 156 + 10)
    seen_cl = 0
    todo = [(b'', root_ext, root_len, None)]
    while todo:
        path, ext, length, placeholder_nlink = todo.pop()
        recs = list(records(img, ext, length))
        dot_nlink = rr_info(img, recs[0][4])[1]
        subdirs = 0
        for ident, flags, cext, clen, su in recs[2:]:
            name, nlink, cl = rr_info(img, su)
            has_re = any(sig == b'RE' for sig, _ in susp(img, su))
            if has_re:
                # stored here, lives elsewhere
                continue
            if cl is not None:
                seen_cl += 1
                subdirs += 1
                # The length of the target is in its own '.' record.
                tlen = next(records(img, cl, SECTOR))[3]
                todo.append((path + b'/' + name, cl, tlen, nlink))
            elif flags & 2:
                subdirs += 1
                todo.append((path + b'/' + name, cext, clen, None))
        if placeholder_nlink is not None:
            if placeholder_nlink != dot_nlink or placeholder_nlink != 2 + subdirs:
                problems.append("%s: %s: CL placeholder PX link count %d, '.' of the relocated directory %d, expected %d (2 + %d subdirectories)"
                                % (label, path.decode(), placeholder_nlink, dot_nlink, 2 + subdirs, subdirs))
    if not seen_cl:
        problems.append('%s: no relocated directory found, witness is broken' % label)
    return problems


def image(iso):
    out = io.BytesIO()
    iso.write_fp(out)
    return out.getvalue()


def main():
    problems = []

    iso = pycdlib.PyCdlib()
    iso.new(rock_ridge='1.09')
    path = ''
    for level in range(1, 9):
        path += '/D%d' % level
        iso.add_directory(path, rr_name='d%d' % level)
    # /D1/.../D8 is relocated now.
    problems += check(image(iso), 'empty relocated directory')

    iso.add_directory(path + '/D9', rr_name='d9')
    img = image(iso)
    problems += check(img, 'one subdirectory added')

    iso.add_directory(path + '/E9', rr_name='e9')
    iso.add_fp(io.BytesIO(b'x'), 1, path + '/F.;1', rr_name='f')
    problems += check(image(iso), 'two subdirectories and a file added')

    iso.rm_directory(path + '/D9', rr_name='d9')
    problems += check(image(iso), 'one of two subdirectories removed')
    iso.close()

    # The same after a round trip through open().
    iso = pycdlib.PyCdlib()
    iso.open_fp(io.BytesIO(img))
    problems += check(image(iso), 'reopened image')
    iso.add_directory(path + '/G9', rr_name='g9')
    problems += check(image(iso), 'reopened image, subdirectory added')
    iso.rm_directory(path + '/G9', rr_name='g9')
    iso.rm_directory(path + '/D9', rr_name='d9')
    problems += check(image(iso), 'reopened image, subdirectories removed')
    iso.close()

    if problems:
        for problem in problems:
            print(problem)
        return 1
    print('OK')
    return 0


if __name__ == '__main__':
    sys.exit(main())
