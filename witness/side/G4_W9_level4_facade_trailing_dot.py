"""
At interchange level 4 mangle_file_for_iso9660('bbbb', 4) is ('bbbb', '') and
the facades join base and extension with '.', so a file added as '/bbbb'
through the Rock Ridge facade is recorded with the ISO9660 identifier 'bbbb.'
although level 4 is documented as "the original name is used".
"""
import io
import sys

sys.path.insert(0, sys.argv[1])

import pycdlib  # noqa: E402 pylint: disable=wrong-import-position


def main():
    problems = []
    iso = pycdlib.PyCdlib()
    iso.new(interchange_level=4, rock_ridge='1.09')
    facade = iso.get_rock_ridge_facade()
    facade.add_fp(io.BytesIO(b'a'), 1, '/bbbb', 0o100444)
    facade.add_fp(io.BytesIO(b'a'), 1, '/cc.txt', 0o100444)
    idents = [c.file_identifier() for c in iso.list_children(iso_path='/')
              if not c.is_dot() and not c.is_dotdot()]
    iso.close()
    if b'bbbb' not in idents:
        problems.append("'/bbbb' was recorded as %r" % ([i for i in idents if i.startswith(b'bbbb')],))
    if b'cc.txt' not in idents:
        problems.append("'/cc.txt' was recorded as %r" % ([i for i in idents if i.startswith(b'cc')],))

    if problems:
        for problem in problems:
            print(problem)
        return 1
    print('OK')
    return 0


if __name__ == '__main__':
    sys.exit(main())
