#!/venv/bin/python
"""Apply a behaviour-preserving patch to /repo, run all quick checks, undo it.  Any exit 1 is a false alarm of
the machinery, any exit 2 an anchor that is too brittle.  usage: try_refactor.py <patch.diff> [...]"""
import subprocess, sys, json, os
from concurrent.futures import ThreadPoolExecutor


def sh(cmd, **kw):
    return subprocess.run(cmd, shell=True, capture_output=True, text=True, **kw)


man = json.load(open('/verif/MANIFEST.json'))
tot = {'ok': 0, 'alarm': 0, 'broken': 0, 'skipped': 0}
for patch in sys.argv[1:]:
    patch = os.path.abspath(patch)
    st = sh('git -C /repo status --porcelain --untracked-files=no').stdout.strip()
    if st:
        print('repo not clean:', st); sys.exit(2)
    if sh('git -C /repo apply --check %s' % patch).returncode:
        print('%-40s does not apply to the current HEAD (skipped)' % os.path.relpath(patch, '/verif') if patch.startswith('/verif') else os.path.relpath(patch, '/tmp')); tot['skipped'] += 1
        continue
    sh('git -C /repo apply %s' % patch)
    try:
        def run(c):
            return c, sh(c['quick_cmd'], cwd='/verif')
        with ThreadPoolExecutor(8) as ex:
            res = list(ex.map(run, man['checks']))
    finally:
        sh('git -C /repo checkout -- .')
    bad = [(c['property_id'], r) for c, r in res if r.returncode != 0]
    if not bad:
        print('%-40s silent on all 20 checks' % os.path.relpath(patch, '/verif') if patch.startswith('/verif') else os.path.relpath(patch, '/tmp')); tot['ok'] += 1
    for pid, r in bad:
        kind = 'FALSE-ALARM' if r.returncode == 1 else 'BROKEN(exit %d)' % r.returncode
        tot['alarm' if r.returncode == 1 else 'broken'] += 1
        lines = [l.strip() for l in r.stdout.splitlines() if l.startswith('  SA-') or l.startswith('ANALYSIS-ERROR')]
        print('%-40s %s %s' % (os.path.relpath(patch, '/verif') if patch.startswith('/verif') else os.path.relpath(patch, '/tmp'), kind, pid))
        for l in lines[:3]:
            print('        ', l[:230])
print(tot)
