#!/usr/bin/env python
"""
Witness for observation B: on open(), the child-link placeholder of a
relocated Rock Ridge directory is given an inode for "2048 bytes at extent 0",
so write() copies the first sector of the source image over the first sector
of the output.

usage: W2_cl_placeholder_inode.py <path-to-checkout>
"""
import io
import sys

sys.path.insert(0, sys.argv[1])

import pycdlib  # noqa: E402

problems = []


def master(iso):
    out = io.BytesIO()
    iso.write_fp(out)
    return out.getvalue()


def build(depth, hybrid):
    iso = pycdlib.PyCdlib()
    iso.new(rock_ridge='1.09')
    path = ''
    for i in range(1, depth + 1):
        path += '/DIR%d' % i
        iso.add_directory(path, rr_name='dir%d' % i)
    boot = b'\x00' * 0x40 + b'\xfb\xc0\x78\x70' + b'\x00' * (2048 - 0x44)
    iso.add_fp(io.BytesIO(boot), len(boot), '/BOOT.;1', rr_name='boot')
    iso.add_eltorito('/BOOT.;1', '/BOOT.CAT;1', boot_info_table=True)
    iso.add_fp(io.BytesIO(b'payload'), 7, path + '/FOO.;1', rr_name='foo')
    if hybrid:
        iso.add_isohybrid()
    image = master(iso)
    iso.close()
    return image


def has_mbr(image):
    return any(bytearray(image[:432])) and image[510:512] == b'\x55\xaa'


def check_tree(what, image, depth):
    chk = pycdlib.PyCdlib()
    chk.open_fp(io.BytesIO(image))
    rr_path = '/' + '/'.join('dir%d' % i for i in range(1, depth + 1)) + '/foo'
    buf = io.BytesIO()
    chk.get_file_from_iso_fp(buf, rr_path=rr_path)
    if buf.getvalue() != b'payload':
        problems.append('%s: %s reads back %r' % (what, rr_path, buf.getvalue()))
    chk.close()


for depth in (3, 8, 10):
    # 1. An isohybrid image; remove the hybrid part from the reopened image.
    what = 'depth %d, open + rm_isohybrid + write' % depth
    first = build(depth, True)
    if not has_mbr(first):
        problems.append('%s: the first master has no MBR' % what)
    iso = pycdlib.PyCdlib()
    iso.open_fp(io.BytesIO(first))
    iso.rm_isohybrid()
    second = master(iso)
    iso.close()
    if any(bytearray(second[:2048])):
        problems.append('%s: the system area of the output is not empty (the old MBR is back)' % what)
    check_tree(what, second, depth)

    # 2. A plain El Torito image; make the reopened image a hybrid.
    what = 'depth %d, open + add_isohybrid + write' % depth
    first = build(depth, False)
    if any(bytearray(first[:2048])):
        problems.append('%s: the first master has a system area' % what)
    iso = pycdlib.PyCdlib()
    iso.open_fp(io.BytesIO(first))
    iso.add_isohybrid()
    second = master(iso)
    iso.close()
    if not has_mbr(second):
        problems.append('%s: the output has no MBR (sector 0 of the source was copied over it)' % what)
    check_tree(what, second, depth)

    # 3. Opening and writing without an edit gives the same image.
    what = 'depth %d, open + write' % depth
    first = build(depth, True)
    iso = pycdlib.PyCdlib()
    iso.open_fp(io.BytesIO(first))
    second = master(iso)
    iso.close()
    if first != second:
        problems.append('%s: the output differs from the image that was opened' % what)

if problems:
    print('\n'.join(problems))
    sys.exit(1)
print('OK')
sys.exit(0)
