"""
On a Rock Ridge image, a directory named RR_MOVED is exempt from the duplicate
name check even when entries are added through the API: the same ISO9660 path
'/RR_MOVED/FOO.;1' can be added twice, and the written directory then holds
two records with the identical identifier.
"""
import io
import struct
import sys

sys.dont_write_bytecode = True
sys.path.insert(0, sys.argv[1])
import pycdlib  # noqa: E402

SECTOR = 2048


def idents(img, extent, size):
    data = img[extent * SECTOR:extent * SECTOR + size]
    found = []
    off = 0
    while off < len(data):
        reclen = data[off]
        if reclen == 0:
            off = (off // SECTOR + 1) * SECTOR
            continue
        len_fi = data[off + 32]
        found.append((data[off + 33:off + 33 + len_fi],
                      struct.unpack_from('<L', data, off + 2)[0],
                      struct.unpack_from('<L', data, off + 10)[0]))
        off += reclen
    return found


def main():
    iso = pycdlib.PyCdlib()
    iso.new(rock_ridge='1.09')
    iso.add_directory('/RR_MOVED', rr_name='rr_moved')
    iso.add_fp(io.BytesIO(b'a'), 1, '/RR_MOVED/FOO.;1', rr_name='foo')
    refused = False
    try:
        iso.add_fp(io.BytesIO(b'b'), 1, '/RR_MOVED/FOO.;1', rr_name='foo')
    except pycdlib.pycdlibexception.PyCdlibInvalidInput:
        refused = True
    out = io.BytesIO()
    iso.write_fp(out)
    iso.close()
    img = out.getvalue()

    root = img[16 * SECTOR + 156:16 * SECTOR + 190]
    top = idents(img, struct.unpack_from('<L', root, 2)[0], struct.unpack_from('<L', root, 10)[0])
    moved = [e for e in top if e[0] == b'RR_MOVED']
    names = [e[0] for e in idents(img, moved[0][1], moved[0][2])]
    count = names.count(b'FOO.;1')

    # The ordinary duplicate check must be unaffected.
    iso = pycdlib.PyCdlib()
    iso.new(rock_ridge='1.09')
    iso.add_directory('/OTHER', rr_name='other')
    iso.add_fp(io.BytesIO(b'a'), 1, '/OTHER/FOO.;1', rr_name='foo')
    try:
        iso.add_fp(io.BytesIO(b'b'), 1, '/OTHER/FOO.;1', rr_name='foo')
        print('duplicate accepted in an ordinary directory')
        return 1
    except pycdlib.pycdlibexception.PyCdlibInvalidInput:
        pass
    iso.close()

    if not refused or count != 1:
        print('second add of /RR_MOVED/FOO.;1 was %s; the written directory holds %d records '
              'named FOO.;1' % ('refused' if refused else 'accepted', count))
        return 1
    print('OK')
    return 0


if __name__ == '__main__':
    sys.exit(main())
