# Observation C: a no-emulation boot image of more than 65535 * 512 bytes (or an
# explicit boot_load_size outside 0..65535) must not be accepted by
# add_eltorito() only to make write_fp() die with struct.error.  Either the
# call is refused with PyCdlibInvalidInput and changes nothing, or the image
# can be written and carries a load size that fits the 16 bit field.
import io
import os
import struct
import sys
import tempfile

sys.path.insert(0, sys.argv[1])

import pycdlib
from pycdlib import pycdlibexception

BIG = 33 * 1024 * 1024


def fresh(size):
    iso = pycdlib.PyCdlib()
    iso.new()
    iso.add_fp(io.BytesIO(b'\xeb' * size), size, '/EFIBOOT.IMG;1')
    iso.add_fp(io.BytesIO(b'x' * 100), 100, '/OTHER.;1')
    return iso


def initial_entry(data):
    assert data[17 * 2048:17 * 2048 + 7] == b'\x00CD001\x01', 'no boot record at sector 17'
    catsec = struct.unpack_from('<L', data, 17 * 2048 + 0x47)[0]
    cat = data[catsec * 2048:(catsec + 1) * 2048]
    return cat, struct.unpack_from('<BBHBBHL', cat, 32)


def main():
    os.chdir(tempfile.mkdtemp())
    problems = []

    cases = [
        ('33 MiB EFI image, computed size', BIG, {'efi': True, 'platform_id': 0xef}),
        ('33 MiB noemul image, computed size', BIG, {}),
        ('explicit boot_load_size=70000', 4096, {'boot_load_size': 70000}),
        ('explicit boot_load_size=-1', 4096, {'boot_load_size': -1}),
    ]
    for label, size, kwargs in cases:
        iso = fresh(size)
        refused = False
        try:
            iso.add_eltorito('/EFIBOOT.IMG;1', '/BOOT.CAT;1', **kwargs)
        except pycdlibexception.PyCdlibInvalidInput as e:
            refused = True
        except Exception as e:  # pylint: disable=broad-except
            problems.append('%s: add_eltorito raised %s: %s' % (label, type(e).__name__, e))
            iso.close()
            continue

        out = io.BytesIO()
        try:
            iso.write_fp(out)
        except Exception as e:  # pylint: disable=broad-except
            problems.append('%s: add_eltorito %s, then write_fp raised %s: %s'
                            % (label, 'refused' if refused else 'accepted', type(e).__name__, e))
            iso.close()
            continue
        data = out.getvalue()

        if refused:
            # nothing of El Torito may be left behind
            if data[17 * 2048:17 * 2048 + 6] == b'\x00CD001':
                problems.append('%s: refused, but a boot record was written' % label)
            try:
                iso.get_record(iso_path='/BOOT.CAT;1')
                problems.append('%s: refused, but /BOOT.CAT;1 exists' % label)
            except pycdlibexception.PyCdlibInvalidInput:
                pass
            try:
                iso.rm_eltorito()
                problems.append('%s: refused, but the ISO has El Torito' % label)
            except pycdlibexception.PyCdlibInvalidInput:
                pass
            # the boot file is not pinned by a stale entry, and a legal request works
            iso.rm_file('/EFIBOOT.IMG;1')
            iso.add_fp(io.BytesIO(b'\xeb' * size), size, '/EFIBOOT.IMG;1')
            iso.add_eltorito('/EFIBOOT.IMG;1', '/BOOT.CAT;1', boot_load_size=4, **{k: v for k, v in kwargs.items() if k != 'boot_load_size'})
            out = io.BytesIO()
            iso.write_fp(out)
            data = out.getvalue()
            cat, ent = initial_entry(data)
            if ent[5] != 4:
                problems.append('%s: load size %d after the legal retry, expected 4' % (label, ent[5]))
        else:
            cat, ent = initial_entry(data)

        # whatever was written must be consistent
        if sum(struct.unpack('<16H', cat[:32])) & 0xffff != 0:
            problems.append('%s: validation entry checksum wrong' % label)
        rba = ent[6]
        if data[rba * 2048:rba * 2048 + 16] != b'\xeb' * 16:
            problems.append('%s: load RBA %d does not point at the boot file' % (label, rba))
        iso.close()

    # the largest legal size still works without any help
    size = 65535 * 512 // 2048 * 2048
    iso = fresh(size)
    iso.add_eltorito('/EFIBOOT.IMG;1', '/BOOT.CAT;1', efi=True, platform_id=0xef)
    out = io.BytesIO()
    iso.write_fp(out)
    cat, ent = initial_entry(out.getvalue())
    if ent[5] != size // 512:
        problems.append('just-legal image: load size %d, expected %d' % (ent[5], size // 512))
    iso.close()

    if problems:
        for p in problems:
            print(p)
        return 1
    print('OK')
    return 0


sys.exit(main())
