"""
Witness G: pycdlib-genisoimage dirA dirB where both directories contain a
file of the same name.  In the plain ISO9660 view every source file has to
appear exactly once under a legal, distinct identifier.

Usage: python W7_two_source_dirs.py <path-to-checkout>
"""
import io
import os
import subprocess
import sys
import tempfile

sys.path.insert(0, sys.argv[1])

import pycdlib


def run_tool(checkout, name, args, cwd):
    env = dict(os.environ)
    env['PYTHONPATH'] = checkout
    return subprocess.run([sys.executable, os.path.join(checkout, 'tools', name)] + args,
                          cwd=cwd, env=env, stdout=subprocess.PIPE,
                          stderr=subprocess.STDOUT, universal_newlines=True)


def main():
    checkout = os.path.abspath(sys.argv[1])
    problems = []
    with tempfile.TemporaryDirectory() as tmp:
        files = {'dirA/same.txt': b'same from A\n', 'dirB/same.txt': b'same from B\n',
                 'dirA/onlya.txt': b'only A\n', 'dirB/onlyb.txt': b'only B\n',
                 'dirA/sub/x.txt': b'x from A\n', 'dirB/sub/x.txt': b'x from B\n'}
        for rel, data in files.items():
            os.makedirs(os.path.dirname(os.path.join(tmp, rel)), exist_ok=True)
            with open(os.path.join(tmp, rel), 'wb') as outfp:
                outfp.write(data)

        out = os.path.join(tmp, 'out.iso')
        res = run_tool(checkout, 'pycdlib-genisoimage',
                       ['-quiet', '-o', out, os.path.join(tmp, 'dirA'), os.path.join(tmp, 'dirB')], tmp)
        if res.returncode != 0:
            print('pycdlib-genisoimage dirA dirB failed: ' + res.stdout.strip().splitlines()[-1])
            return 1

        iso = pycdlib.PyCdlib()
        iso.open(out)
        contents = []
        idents = []
        for dirname, dirlist, filelist in iso.walk(iso_path='/'):
            for name in filelist:
                path = dirname.rstrip('/') + '/' + name
                idents.append(path)
                got = io.BytesIO()
                iso.get_file_from_iso_fp(got, iso_path=path)
                contents.append(got.getvalue())
        iso.close()

        if len(set(idents)) != len(idents):
            problems.append('identifiers are not distinct: %s' % (idents))
        if sorted(contents) != sorted(files.values()):
            problems.append('the files on the ISO %s do not have the contents of the %d source files' % (idents, len(files)))
        for ident in idents:
            base = ident.rsplit('/', 1)[1]
            name, _, rest = base.partition('.')
            ext, _, version = rest.partition(';')
            if len(name) > 8 or len(ext) > 3 or version != '1':
                problems.append('%s is not a level 1 identifier' % (ident))

    if problems:
        print('\n'.join(problems))
        return 1
    print('OK')
    return 0


if __name__ == '__main__':
    sys.exit(main())
