import sys, io
sys.path.insert(0, sys.argv[1] if len(sys.argv) > 1 else '/repo')
import pycdlib
from pycdlib import pycdlibexception
bad = 0
for kw in ({'joliet_path': ''}, {'udf_path': ''}):
    iso = pycdlib.PyCdlib()
    iso.new(joliet=3, udf='2.60')
    before = [c[0] for c in iso.walk(iso_path='/')]
    n0 = len(list(iso.list_children(iso_path='/')))
    try:
        iso.add_directory(iso_path='/DIR1', **kw)
        print('accepted', kw)
    except pycdlibexception.PyCdlibInvalidInput as e:
        n1 = len(list(iso.list_children(iso_path='/')))
        if n1 != n0:
            bad += 1
            print('FAIL: add_directory(iso_path="/DIR1", %r) refused (%s) but the ISO9660 directory was added: %d -> %d children' % (kw, e, n0, n1))
    iso.close()
print('OK' if not bad else 'FAILED')
sys.exit(1 if bad else 0)
