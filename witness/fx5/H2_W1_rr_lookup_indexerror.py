#!/usr/bin/env python
"""
Observation A: looking up a missing Rock Ridge name that sorts after every
existing name in the directory must raise PyCdlibInvalidInput, not IndexError.

usage: W1_rr_lookup_indexerror.py <path-to-checkout>
"""
import io
import sys

sys.path.insert(0, sys.argv[1])

import pycdlib  # noqa: E402
from pycdlib import pycdlibexception  # noqa: E402


def main():
    problems = []
    iso = pycdlib.PyCdlib()
    iso.new(rock_ridge='1.09')
    iso.add_fp(io.BytesIO(b'foo\n'), 4, '/FOO.;1', rr_name='foo')
    iso.add_directory('/DIR1', rr_name='dir1')
    iso.add_fp(io.BytesIO(b'bar\n'), 4, '/DIR1/BAR.;1', rr_name='bar')

    # sanity: existing names are found
    if iso.get_record(rr_path='/foo').file_identifier() != b'FOO.;1':
        problems.append('existing /foo not found')

    for path in ('/zzz', '/dir1/zzz', '/a', '/dir1/a', '/g', '/foo/zzz', '/zzz/zzz'):
        for what, call in (('get_record', lambda p: iso.get_record(rr_path=p)),
                           ('list_children', lambda p: list(iso.list_children(rr_path=p))),
                           ('get_file_from_iso_fp', lambda p: iso.get_file_from_iso_fp(io.BytesIO(), rr_path=p))):
            try:
                call(path)
                problems.append('%s(rr_path=%r) succeeded for a missing path' % (what, path))
            except pycdlibexception.PyCdlibInvalidInput:
                pass
            except Exception as e:  # pylint: disable=broad-except
                problems.append('%s(rr_path=%r) raised %s: %s' % (what, path, type(e).__name__, e))
    iso.close()

    if problems:
        print('\n'.join(problems))
        return 1
    print('OK')
    return 0


if __name__ == '__main__':
    sys.exit(main())
