#!/venv/bin/python
"""Regenerate MANIFEST.json from the rule registry and sa/propdoc.py."""
import json, sys, os
sys.path.insert(0, os.path.dirname(os.path.dirname(os.path.abspath(__file__)))); os.chdir(os.path.dirname(os.path.dirname(os.path.abspath(__file__))))
from sa import registry
from sa.propdoc import PROPDOC
registry.load_rules()
ids = [json.loads(l)['id'] for l in open('properties.jsonl')]
checks = []
na = []
for pid in ids:
    rids = registry.prop_rules(pid)
    doc = PROPDOC.get(pid)
    if not rids or not doc or doc.get('not_applicable'):
        na.append({'property_id': pid, 'reason': (doc or {}).get('not_applicable', 'no static check built yet for this property (work in progress)')})
        continue
    checks.append({
        'property_id': pid,
        'quick_cmd': './check %s --tier quick' % pid,
        'thorough_cmd': './check %s --tier thorough' % pid,
        'evidence_file': '/verif/evidence/%s.json' % pid,
        'replay_cmd_template': './check %s --replay {path}' % pid,
        'engine': 'sa',
        'level_claimed': {'category': 'other', 'text': doc['level_text'], 'design_ref': doc.get('design_ref', 'DESIGN.md section 5')},
        'level_note': doc['level_note'],
        'technique': doc['technique'],
    })
man = {
    'version': 1,
    'setup_cmd': '/venv/bin/python -B -m compileall -q sa >/dev/null 2>&1; /venv/bin/python -B -m sa.smoke',
    'hooks': {'guard': 'PYCDLIB_VERIF', 'enable': 'none needed: the analysis reads the source files of /repo and never runs them',
              'baseline_off_cmd': 'cd /repo && /venv/bin/python -m pytest -ra -q -p no:cacheprovider --timeout=900 --continue-on-collection-errors',
              'source_commits': [], 'add_only': True},
    'engines': [{'name': 'sa', 'path': '/verif/sa', 'serves_properties': [c['property_id'] for c in checks],
                 'kind_free_text': 'repository-specific static analysis over the Python ast: type-comment call resolution, statement CFG with dominators and reaching definitions, effect summaries, struct-format codec model; rules in sa/rules'}],
    'checks': checks,
    'not_applicable': na,
    'notes': 'Static analysis only: no check imports or runs pycdlib. See DESIGN.md.',
}
json.dump(man, open('MANIFEST.json', 'w'), indent=1)
print('checks', len(checks), 'n/a', len(na))
