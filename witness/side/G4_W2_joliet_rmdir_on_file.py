"""
rm_directory(joliet_path=...) on a Joliet *file* first removes the file's
record from its parent and only then fails with PyCdlibInternalError
("Joliet directory has no path table record"): the entry is lost from the
Joliet tree although the call reported an error.
"""
import io
import sys

sys.path.insert(0, sys.argv[1])

import pycdlib  # noqa: E402 pylint: disable=wrong-import-position


def main():
    iso = pycdlib.PyCdlib()
    iso.new(joliet=3)
    iso.add_fp(io.BytesIO(b'f'), 1, '/F.;1', joliet_path='/f')

    problems = []
    try:
        iso.rm_directory(joliet_path='/f')
        problems.append('rm_directory(joliet_path="/f") accepted a file')
    except pycdlib.pycdlibexception.PyCdlibInvalidInput:
        pass
    except Exception as exc:  # pylint: disable=broad-except
        problems.append('rm_directory on a Joliet file raised %s (%s) instead of PyCdlibInvalidInput' % (type(exc).__name__, exc))

    names = [c.file_identifier() for c in iso.list_children(joliet_path='/')]
    if 'f'.encode('utf-16_be') not in names:
        problems.append('the refused call removed /f from the Joliet root: %r' % (names,))

    out = io.BytesIO()
    iso.write_fp(out)
    iso.close()
    chk = pycdlib.PyCdlib()
    chk.open_fp(out)
    got = io.BytesIO()
    try:
        chk.get_file_from_iso_fp(got, joliet_path='/f')
        if got.getvalue() != b'f':
            problems.append('/f has contents %r in the written image' % (got.getvalue(),))
    except Exception as exc:  # pylint: disable=broad-except
        problems.append('/f is missing from the Joliet tree of the written image: %s' % (exc,))
    chk.close()

    if problems:
        for problem in problems:
            print(problem)
        return 1
    print('OK')
    return 0


if __name__ == '__main__':
    sys.exit(main())
