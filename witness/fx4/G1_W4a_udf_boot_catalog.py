#!/usr/bin/env python
"""
Witness for observation D, first part: on a UDF image the El Torito Boot
Catalog must be readable under its UDF name, with the same bytes as under its
ISO9660 name and as on the written image.

usage: W4a_udf_boot_catalog.py <pycdlib checkout>
"""
import io
import os
import shutil
import struct
import sys
import tempfile

sys.path.insert(0, os.path.abspath(sys.argv[1]))
import pycdlib  # noqa: E402

S = 2048


def read(iso, **kwargs):
    out = io.BytesIO()
    iso.get_file_from_iso_fp(out, **kwargs)
    return out.getvalue()


def check(iso, when, udf_name, problems, on_disk=None):
    via_iso = read(iso, iso_path='/BOOT.CAT;1')
    try:
        via_udf = read(iso, udf_path=udf_name)
    except pycdlib.pycdlibexception.PyCdlibException as err:
        problems.append('%s: get_file_from_iso_fp(udf_path=%r) raised %s: %s' % (when, udf_name, type(err).__name__, err))
        return via_iso
    if via_udf != via_iso:
        problems.append('%s: the Boot Catalog read through udf_path=%r differs from the one read through iso_path (%d and %d bytes)'
                        % (when, udf_name, len(via_udf), len(via_iso)))
    if on_disk is not None and via_udf != on_disk:
        problems.append('%s: the Boot Catalog read through udf_path differs from the sector on the image' % (when))
    for blocksize in (1, 7, 2048, 4096):
        out = io.BytesIO()
        iso.get_file_from_iso_fp(out, udf_path=udf_name, blocksize=blocksize)
        if out.getvalue() != via_iso:
            problems.append('%s: blocksize %d gives different bytes' % (when, blocksize))
    return via_iso


def main():
    problems = []
    for udf_name in ('/boot.cat', '/dir1/catalog'):
        boot = b'B' * 3000
        iso = pycdlib.PyCdlib()
        iso.new(udf='2.60')
        iso.add_directory('/DIR1', udf_path='/dir1')
        iso.add_fp(io.BytesIO(boot), len(boot), '/B1.;1', udf_path='/b1')
        iso.add_fp(io.BytesIO(b'second'), 6, '/B2.;1', udf_path='/b2')
        iso.add_eltorito('/B1.;1', '/BOOT.CAT;1', udf_bootcatfile=udf_name)
        iso.add_eltorito('/B2.;1', '/BOOT.CAT;1', efi=True)
        check(iso, 'new image %s' % (udf_name), udf_name, problems)
        # an unrelated file must still be readable through its UDF name
        if read(iso, udf_path='/b2') != b'second':
            problems.append('ordinary file read through udf_path is wrong')
        iso.write('udf.iso')
        iso.close()

        with open('udf.iso', 'rb') as infp:
            image = infp.read()
        cat = struct.unpack_from('<L', image, 17 * S + 71)[0]
        on_disk = image[cat * S:(cat + 1) * S]

        iso = pycdlib.PyCdlib()
        iso.open('udf.iso')
        check(iso, 'opened image %s' % (udf_name), udf_name, problems, on_disk)
        # after a change of the layout the catalog must follow
        iso.add_directory('/DIR2', udf_path='/dir2')
        new_cat = check(iso, 'opened and changed image %s' % (udf_name), udf_name, problems)
        out = io.BytesIO()
        iso.write_fp(out)
        iso.close()
        image = out.getvalue()
        cat = struct.unpack_from('<L', image, 17 * S + 71)[0]
        if image[cat * S:(cat + 1) * S] != new_cat:
            problems.append('catalog read before write() differs from the catalog that was written')

    # a directory is still refused
    iso = pycdlib.PyCdlib()
    iso.new(udf='2.60')
    iso.add_directory('/DIR1', udf_path='/dir1')
    try:
        read(iso, udf_path='/dir1')
        problems.append('reading a UDF directory did not raise')
    except pycdlib.pycdlibexception.PyCdlibInvalidInput:
        pass
    iso.close()

    if problems:
        for problem in problems:
            print('PROBLEM: ' + problem)
        return 1
    print('OK')
    return 0


if __name__ == '__main__':
    tmpdir = tempfile.mkdtemp(prefix='w4a')
    olddir = os.getcwd()
    os.chdir(tmpdir)
    try:
        ret = main()
    finally:
        os.chdir(olddir)
        shutil.rmtree(tmpdir, ignore_errors=True)
    sys.exit(ret)
