"""
Observation A: with more than 1024 cylinders the active MBR partition of a
hybrid image must still cover the whole cylinder-padded image (only the CHS end
cylinder is capped at 1023, like syslinux' isohybrid does), and the image must
survive an open/write round trip unchanged.

usage: W1_mbr_size_over_1024_cyl.py <path-to-checkout>
"""
import io
import os
import struct
import sys
import tempfile

sys.path.insert(0, sys.argv[1])
import pycdlib  # noqa: E402


def active_partitions(img):
    ret = []
    for i in range(4):
        off = 446 + 16 * i
        if img[off] == 0x80:
            (flag, bhead, bsect, bcyl, ptype, ehead, esect, ecyl, start,
             size) = struct.unpack_from('<BBBBBBBBLL', img, off)
            ret.append((i + 1, ehead, esect, ecyl, start, size))
    return ret


def main():
    problems = []
    tmpdir = tempfile.mkdtemp()
    path = os.path.join(tmpdir, 'big.iso')
    path2 = os.path.join(tmpdir, 'copy.iso')

    boot = b'\x00' * 0x40 + b'\xfb\xc0\x78\x70' + b'\x00' * (2048 - 0x44)
    for sectors, heads in ((1, 1), (2, 1), (32, 2)):
        iso = pycdlib.PyCdlib()
        iso.new()
        iso.add_fp(io.BytesIO(boot), len(boot), '/BOOT.;1')
        iso.add_eltorito('/BOOT.;1', '/BOOT.CAT;1', boot_load_size=4)
        big = b'd' * (1536 * 1024)
        iso.add_fp(io.BytesIO(big), len(big), '/BIG.;1')
        iso.add_isohybrid(mbr_id=0x12345678, geometry_sectors=sectors,
                          geometry_heads=heads)
        iso.write(path)
        iso.close()

        with open(path, 'rb') as infp:
            img = infp.read()

        label = 'geometry %d sectors/%d heads' % (sectors, heads)
        cylsize = sectors * heads * 512
        if len(img) % cylsize != 0:
            problems.append('%s: image length %d is not a whole number of cylinders' % (label, len(img)))
        cyls = len(img) // cylsize
        if img[510:512] != b'\x55\xaa':
            problems.append('%s: no MBR signature' % (label))
        parts = active_partitions(img)
        if len(parts) != 1:
            problems.append('%s: %d active partitions' % (label, len(parts)))
        else:
            (num, ehead, esect, ecyl, start, size) = parts[0]
            if (start + size) * 512 != len(img):
                problems.append('%s: image has %d sectors (%d cylinders), active partition %d ends at sector %d' % (label, len(img) // 512, cyls, num, start + size))
            endcyl = ecyl | ((esect & 0xc0) << 2)
            if endcyl != min(cyls, 1024) - 1:
                problems.append('%s: CHS end cylinder is %d, expected %d' % (label, endcyl, min(cyls, 1024) - 1))
            if esect & 0x3f != sectors or ehead != heads - 1:
                problems.append('%s: CHS end head/sector is %d/%d' % (label, ehead, esect & 0x3f))

        # The image has to survive a round trip.
        iso = pycdlib.PyCdlib()
        iso.open(path)
        if iso.isohybrid_mbr is None:
            problems.append('%s: not recognised as hybrid on open' % (label))
        iso.write(path2)
        iso.close()
        with open(path2, 'rb') as infp:
            img2 = infp.read()
        if img2 != img:
            problems.append('%s: open/write round trip changes the image (%d -> %d bytes)' % (label, len(img), len(img2)))

    if problems:
        print('\n'.join(problems))
        return 1
    print('OK')
    return 0


if __name__ == '__main__':
    sys.exit(main())
