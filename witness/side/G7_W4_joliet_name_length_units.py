"""
The Joliet name limit (64 UCS-2 characters) is checked against the UTF-8 byte
length of the name, while pycdlib-genisoimage cuts names to 64 characters:
a source file called 40 x 'e-acute' + '.txt' makes 'pycdlib-genisoimage -J'
abort with 'Joliet names can be a maximum of 64 characters', and
add_fp(joliet_path=...) refuses perfectly legal non-ASCII names.
"""
import io
import os
import shutil
import subprocess
import sys
import tempfile

checkout = os.path.abspath(sys.argv[1])
sys.path.insert(0, checkout)
import pycdlib  # noqa: E402

EACUTE = u'é'
SMILEY = u'\U0001F600'  # two UTF-16 code units


def api_problems():
    problems = []
    iso = pycdlib.PyCdlib()
    iso.new(joliet=3)
    try:
        cases = (
            (EACUTE * 64, True),
            (EACUTE * 65, False),
            (u'a' * 64, True),
            (u'a' * 65, False),
            (SMILEY * 32, True),
            (SMILEY * 32 + u'a', False),
        )
        for num, (name, legal) in enumerate(cases):
            try:
                iso.add_fp(io.BytesIO(b'x'), 1, '/F%d.;1' % (num), joliet_path='/' + name)
                accepted = True
            except pycdlib.pycdlibexception.PyCdlibInvalidInput:
                accepted = False
            units = len(name.encode('utf-16_be')) // 2
            if accepted != legal:
                problems.append('add_fp: a Joliet name of %d UCS-2 characters (%d UTF-8 bytes) was %s'
                                % (units, len(name.encode('utf-8')), 'accepted' if accepted else 'refused'))
    finally:
        iso.close()
    return problems


def tool_problems(tmpdir):
    problems = []
    src = os.path.join(tmpdir, 'src')
    longdir = EACUTE * 50
    files = {
        EACUTE * 40 + u'.txt': b'accents\n',
        u'b' * 70: b'long ascii\n',
        os.path.join(longdir, u'inner.txt'): b'inner\n',
    }
    os.makedirs(os.path.join(src, longdir))
    for name, contents in files.items():
        with open(os.path.join(src, name), 'wb') as outfp:
            outfp.write(contents)

    isoname = os.path.join(tmpdir, 'out.iso')
    tool = os.path.join(checkout, 'tools', 'pycdlib-genisoimage')
    proc = subprocess.run([sys.executable, tool, '-quiet', '-J', '-o', isoname, src],
                          env=dict(os.environ, PYTHONPATH=checkout),
                          stdout=subprocess.PIPE, stderr=subprocess.PIPE,
                          universal_newlines=True)
    if proc.returncode != 0:
        lines = proc.stderr.strip().splitlines() or ['(no stderr)']
        return ['genisoimage -J exited with %d: %s' % (proc.returncode, lines[-1])]

    expected = {
        u'/' + EACUTE * 40 + u'.txt': b'accents\n',
        u'/' + u'b' * 64: b'long ascii\n',
        u'/' + longdir + u'/inner.txt': b'inner\n',
    }
    iso = pycdlib.PyCdlib()
    iso.open(isoname)
    try:
        for path, contents in sorted(expected.items()):
            out = io.BytesIO()
            try:
                iso.get_file_from_iso_fp(out, joliet_path=path)
            except pycdlib.pycdlibexception.PyCdlibInvalidInput as exc:
                problems.append('Joliet path %r: %s' % (path, exc))
                continue
            if out.getvalue() != contents:
                problems.append('Joliet path %r has the wrong contents' % (path))
    finally:
        iso.close()
    return problems


def main():
    tmpdir = tempfile.mkdtemp()
    try:
        problems = api_problems() + tool_problems(tmpdir)
    finally:
        shutil.rmtree(tmpdir, ignore_errors=True)

    if problems:
        for problem in problems:
            print(problem)
        return 1
    print('OK')
    return 0


if __name__ == '__main__':
    sys.exit(main())
