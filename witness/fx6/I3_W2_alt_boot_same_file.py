"""
Witness B: pycdlib-genisoimage -b X ... -eltorito-alt-boot -b Y must give two
boot entries, the first for X and the second for Y.

Usage: python W2_alt_boot_same_file.py <path-to-checkout>
"""
import os
import struct
import subprocess
import sys
import tempfile

sys.path.insert(0, sys.argv[1])

import pycdlib


def run_tool(checkout, name, args, cwd):
    env = dict(os.environ)
    env['PYTHONPATH'] = checkout
    return subprocess.run([sys.executable, os.path.join(checkout, 'tools', name)] + args,
                          cwd=cwd, env=env, stdout=subprocess.PIPE,
                          stderr=subprocess.STDOUT, universal_newlines=True)


def main():
    checkout = os.path.abspath(sys.argv[1])
    problems = []
    with tempfile.TemporaryDirectory() as tmp:
        src = os.path.join(tmp, 'src')
        os.mkdir(src)
        boot1 = b'ONE-' * 512
        boot2 = b'TWO-' * 1024
        with open(os.path.join(src, 'boot1'), 'wb') as outfp:
            outfp.write(boot1)
        with open(os.path.join(src, 'boot2'), 'wb') as outfp:
            outfp.write(boot2)
        with open(os.path.join(src, 'readme.txt'), 'wb') as outfp:
            outfp.write(b'hello\n')

        out = os.path.join(tmp, 'out.iso')
        res = run_tool(checkout, 'pycdlib-genisoimage',
                       ['-quiet', '-o', out, '-c', 'boot.cat',
                        '-b', 'boot1', '-no-emul-boot', '-boot-load-size', '4',
                        '-eltorito-alt-boot',
                        '-b', 'boot2', '-no-emul-boot', '-boot-load-size', '8',
                        src], tmp)
        if res.returncode != 0:
            print('pycdlib-genisoimage failed:\n' + res.stdout)
            return 1

        with open(out, 'rb') as infp:
            img = infp.read()

        # Follow the catalog by hand: validation entry, initial entry, section
        # header, section entry.
        cat = struct.unpack_from('<L', img, 17 * 2048 + 0x47)[0]
        catalog = img[cat * 2048:(cat + 1) * 2048]
        init_count, init_rba = struct.unpack_from('<HL', catalog, 32 + 6)
        if catalog[64] not in (0x90, 0x91):
            print('no section header in the boot catalog (only one boot entry)')
            return 1
        sec_count, sec_rba = struct.unpack_from('<HL', catalog, 96 + 6)

        for name, rba, count, want, wantcount in (('initial entry', init_rba, init_count, boot1, 4),
                                                  ('section entry', sec_rba, sec_count, boot2, 8)):
            got = img[rba * 2048:rba * 2048 + len(want)]
            if got != want:
                problems.append('%s points at sector %d which holds %r..., expected %r...' % (name, rba, got[:8], want[:8]))
            if count != wantcount:
                problems.append('%s has load size %d, expected %d' % (name, count, wantcount))

        iso = pycdlib.PyCdlib()
        iso.open(out)
        for path, want in (('/BOOT1.;1', boot1), ('/BOOT2.;1', boot2)):
            extent = iso.get_record(iso_path=path).extent_location()
            rbas = (init_rba, sec_rba)
            if extent not in rbas:
                problems.append('no boot entry points at %s (sector %d); the entries point at %s' % (path, extent, rbas))
        iso.close()

    if problems:
        print('\n'.join(problems))
        return 1
    print('OK')
    return 0


if __name__ == '__main__':
    sys.exit(main())
