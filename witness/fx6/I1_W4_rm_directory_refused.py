#!/usr/bin/env python
"""
Witness for observation D: on an image whose L and M path tables are one
sector apart rm_directory() raises 'Extent number should never grow when
removing PTR', but the directory has been taken out of the trees already.

usage: W4_rm_directory_refused.py <path-to-checkout>
"""
import io
import struct
import sys

sys.path.insert(0, sys.argv[1])

import pycdlib  # noqa: E402

problems = []


def master(iso):
    out = io.BytesIO()
    iso.write_fp(out)
    return out.getvalue()


def make_adjacent(image, vd_sector):
    """Move the M path table of a descriptor to the sector after its L table."""
    image = bytearray(image)
    base = vd_sector * 2048
    size, = struct.unpack_from('<L', image, base + 132)
    l_loc, = struct.unpack_from('<L', image, base + 140)
    m_loc, = struct.unpack_from('>L', image, base + 148)
    assert size <= 2048 and m_loc == l_loc + 2
    table = image[m_loc * 2048:m_loc * 2048 + 2048]
    assert not any(image[(l_loc + 1) * 2048:(l_loc + 2) * 2048])
    image[m_loc * 2048:m_loc * 2048 + 2048] = b'\x00' * 2048
    image[(l_loc + 1) * 2048:(l_loc + 2) * 2048] = table
    struct.pack_into('>L', image, base + 148, l_loc + 1)
    return bytes(image)


def listing(iso):
    ret = {}
    ret['iso'] = sorted(c.file_identifier() for c in iso.list_children(iso_path='/'))
    ret['joliet'] = sorted(c.file_identifier() for c in iso.list_children(joliet_path='/'))
    return ret


base = pycdlib.PyCdlib()
base.new(joliet=3)
base.add_directory('/A', joliet_path='/a')
base.add_directory('/B', joliet_path='/b')
base.add_fp(io.BytesIO(b'data'), 4, '/B/F.;1', joliet_path='/b/f')
plain = master(base)
base.close()

# The Joliet SVD is at sector 17 on an image without El Torito.
assert plain[17 * 2048:17 * 2048 + 7] == b'\x02CD001\x01'

for what, image in (('PVD path tables adjacent', make_adjacent(plain, 16)),
                    ('Joliet path tables adjacent', make_adjacent(plain, 17)),
                    ('path tables as mastered', plain)):
    # What write() gives when nothing is done.
    ref = pycdlib.PyCdlib()
    ref.open_fp(io.BytesIO(image))
    before = listing(ref)
    untouched = master(ref)
    ref.close()

    iso = pycdlib.PyCdlib()
    iso.open_fp(io.BytesIO(image))
    refused = None
    try:
        iso.rm_directory('/A', joliet_path='/a')
    except pycdlib.pycdlibexception.PyCdlibException as e:
        refused = e

    if refused is None:
        expect = {'iso': [n for n in before['iso'] if n != b'A'],
                  'joliet': [n for n in before['joliet'] if n != 'a'.encode('utf-16_be')]}
        if len(expect['iso']) != 3 or len(expect['joliet']) != 3:
            problems.append('%s: unexpected listing of the image %r' % (what, before))
        got = listing(iso)
        if got != expect:
            problems.append('%s: rm_directory succeeded, but the image shows %r' % (what, got))
        out = master(iso)
        chk = pycdlib.PyCdlib()
        chk.open_fp(io.BytesIO(out))
        if listing(chk) != expect:
            problems.append('%s: rm_directory succeeded, but the written image shows %r' % (what, listing(chk)))
        chk.close()
    else:
        got = listing(iso)
        if got != before:
            problems.append('%s: rm_directory raised %r, but the image now shows %r instead of %r' % (what, str(refused), got, before))
        out = master(iso)
        if out != untouched:
            problems.append('%s: rm_directory raised %r, but write() gives other bytes than without the call' % (what, str(refused)))
        chk = pycdlib.PyCdlib()
        chk.open_fp(io.BytesIO(out))
        if listing(chk) != before:
            problems.append('%s: rm_directory raised %r, but the written image shows %r' % (what, str(refused), listing(chk)))
        chk.close()
        # Later edits behave normally.
        try:
            iso.add_fp(io.BytesIO(b'later'), 5, '/A/G.;1', joliet_path='/a/g')
            chk = pycdlib.PyCdlib()
            chk.open_fp(io.BytesIO(master(iso)))
            buf = io.BytesIO()
            chk.get_file_from_iso_fp(buf, joliet_path='/a/g')
            if buf.getvalue() != b'later':
                problems.append('%s: a file added to /A after the refusal reads back %r' % (what, buf.getvalue()))
            chk.close()
        except Exception as e:  # pylint: disable=broad-except
            problems.append('%s: adding a file to /A after the refused rm_directory failed: %r' % (what, e))
    iso.close()

# The same for a relocated Rock Ridge directory (the relocation directory goes
# away with it) and for the deprecated rm_joliet_directory().
deep = pycdlib.PyCdlib()
deep.new(rock_ridge='1.09', joliet=3)
path = ''
for i in range(1, 9):
    path += '/DIR%d' % i
    if i == 1:
        deep.add_directory(path, rr_name='dir%d' % i, joliet_path='/dir1')
    else:
        deep.add_directory(path, rr_name='dir%d' % i)
deep_plain = master(deep)
deep.close()


def deep_listing(iso):
    ret = []
    for root, dirs, files in iso.walk(iso_path='/'):
        ret.append((root, sorted(dirs), sorted(files)))
    for root, dirs, files in iso.walk(joliet_path='/'):
        ret.append((root, sorted(dirs), sorted(files)))
    return sorted(ret)


for what, image, call in (('relocated directory, PVD path tables adjacent', make_adjacent(deep_plain, 16), 'rm_directory'),
                          ('rm_joliet_directory, Joliet path tables adjacent', make_adjacent(deep_plain, 17), 'rm_joliet_directory')):
    ref = pycdlib.PyCdlib()
    ref.open_fp(io.BytesIO(image))
    before = deep_listing(ref)
    untouched = master(ref)
    ref.close()

    iso = pycdlib.PyCdlib()
    iso.open_fp(io.BytesIO(image))
    refused = None
    try:
        if call == 'rm_directory':
            iso.rm_directory(path, rr_name='dir8')
        else:
            iso.rm_joliet_directory('/dir1')
    except pycdlib.pycdlibexception.PyCdlibException as e:
        refused = e
    if refused is not None:
        if deep_listing(iso) != before:
            problems.append('%s: %s raised %r, but the tree changed' % (what, call, str(refused)))
        if master(iso) != untouched:
            problems.append('%s: %s raised %r, but write() gives other bytes than without the call' % (what, call, str(refused)))
    else:
        out = master(iso)
        chk = pycdlib.PyCdlib()
        chk.open_fp(io.BytesIO(out))
        if deep_listing(chk) == before:
            problems.append('%s: %s succeeded, but the written image still has the directory' % (what, call))
        chk.close()
    iso.close()

if problems:
    print('\n'.join(problems))
    sys.exit(1)
print('OK')
sys.exit(0)
