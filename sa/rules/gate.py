"""SA-GATE / SA-DUPGUARD: must-pass-through acceptance predicates.

SA-GATE.iso_name   every user-derived name handed to DirectoryRecord.new_file / new_dir / new_symlink
                   has, on every CFG path from its definition to the call, passed the acceptance
                   predicate of its namespace: _check_iso9660_filename for files and symlinks,
                   _check_iso9660_directory for directories, or comes out of the Joliet name gate.
SA-GATE.joliet     the Joliet gate contains a comparison of the name length with the documented
                   limit (64) followed by PyCdlibInvalidInput, before the name is returned; every
                   Joliet record creation takes its name from that gate.
SA-GATE.depth      every ISO9660 path that reaches record creation in add_fp/add_directory/
                   add_hard_link passes _check_path_depth unless Rock Ridge / level 4 is in use.
SA-GATE.eltorito   every loop that unlinks all records of an inode is dominated by
                   _check_inode_against_eltorito on that inode.
SA-DUPGUARD        each insertion primitive of a namespace container raises InvalidInput on a
                   duplicate name before it inserts.
"""
import ast

from ..registry import rule, props
from ..report import Ob
from ..model import norm, type_classes, AnalysisError, fold, NotConst
from ..engine import raises_class
from .. import cfg as cfgmod
from .. import effects

DR = 'dr.DirectoryRecord'
NAME_ARG = {'new_file': 2, 'new_dir': 1, 'new_symlink': 1}
NEED = {'new_file': {'file', 'joliet', 'const'}, 'new_dir': {'dir', 'joliet', 'const', 'relname'}, 'new_symlink': {'file', 'const'}}
GATES = {'_check_iso9660_filename': 'file', '_check_iso9660_directory': 'dir'}
JOLIET_GATE = '_joliet_name_and_parent_from_path'


def _calls(n):
    for e in cfgmod.node_exprs(n):
        for sub in ast.walk(e):
            if isinstance(sub, ast.Call):
                yield sub


def _cname(c):
    f = c.func
    return f.attr if isinstance(f, ast.Attribute) else (f.id if isinstance(f, ast.Name) else None)


def _gate_states(ctx, fi):
    """IN state per node: tuple of (name, frozenset(kinds)) sorted; None = unreachable."""
    g = ctx.cfg(fi)
    mi = ctx.m.modules[fi.module]

    def todict(st):
        return dict(st)

    def fromdict(d):
        return tuple(sorted(d.items()))

    def transfer(n, st, lab):
        d = todict(st)
        # gate calls
        for c in _calls(n):
            nm = _cname(c)
            if nm in GATES and c.args and isinstance(c.args[0], ast.Name):
                d[c.args[0].id] = frozenset([GATES[nm]])
        # definitions
        if n.kind == 'stmt' and isinstance(n.ast, ast.Assign):
            st_ = n.ast
            v = st_.value
            for t in st_.targets:
                if isinstance(t, ast.Tuple) and isinstance(v, ast.Call) and _cname(v) == JOLIET_GATE and t.elts and isinstance(t.elts[0], ast.Name):
                    for e in t.elts:
                        for nm in cfgmod.target_names(e):
                            d.pop(nm, None)
                    d[t.elts[0].id] = frozenset(['joliet'])
                elif isinstance(t, ast.Name):
                    src = None

                    def one(v):
                        if isinstance(v, ast.Name) and v.id in d:
                            return d[v.id]
                        if isinstance(v, ast.Attribute) and v.attr == '_rr_moved_name' and norm(v.value) == 'self':
                            return frozenset(['relname'])
                        try:
                            if isinstance(fold(v, ctx.m, mi, fi.cls), bytes):
                                return frozenset(['const'])
                        except NotConst:
                            pass
                        return None
                    if isinstance(v, ast.IfExp):
                        # `A if cond else B`: the name is gated if both arms are
                        a_, b_ = one(v.body), one(v.orelse)
                        if a_ is not None and b_ is not None:
                            src = a_ | b_
                    if src is not None:
                        pass
                    elif isinstance(v, ast.Name) and v.id in d:
                        src = d[v.id]
                    elif isinstance(v, ast.BinOp) and isinstance(v.op, ast.Add) and isinstance(v.left, ast.Name) and v.left.id in d:
                        src = d[v.left.id]      # gated name + generated suffix
                    elif isinstance(v, ast.BinOp) and isinstance(v.op, ast.Add) and isinstance(v.left, ast.Subscript) and \
                            isinstance(v.left.slice, ast.Slice) and isinstance(v.left.value, ast.Name) and v.left.value.id in d:
                        src = d[v.left.value.id]      # truncated gated name + generated suffix
                    elif isinstance(v, ast.Subscript) and isinstance(v.slice, ast.Slice) and isinstance(v.value, ast.Name) and v.value.id in d:
                        src = d[v.value.id]           # a prefix of a gated name
                    elif isinstance(v, ast.Attribute) and v.attr == '_rr_moved_name' and norm(v.value) == 'self':
                        src = frozenset(['relname'])  # the relocation directory name: checked where it is stored (below)
                    else:
                        try:
                            cv = fold(v, ctx.m, mi, fi.cls)
                            if isinstance(cv, bytes):
                                src = frozenset(['const'])
                        except NotConst:
                            pass
                    if src is not None:
                        d[t.id] = src
                    else:
                        d.pop(t.id, None)
                else:
                    for nm in cfgmod.target_names(t):
                        d.pop(nm, None)
        else:
            for nm in cfgmod.node_defs(n):
                if not (n.kind == 'iter' and lab == 'F'):
                    d.pop(nm, None)
        return fromdict(d)

    def join(a, b):
        da, db = dict(a), dict(b)
        out = {}
        for k in da:
            if k in db:
                out[k] = da[k] | db[k]
        return fromdict(out)

    return g, g.forward((), transfer, join)


@rule('SA-GATE.iso_name')
@props('C13')
def iso_name(ctx):
    obs = []
    nsites = 0
    drc = ctx.cls(DR)
    for m in NAME_ARG:
        if m not in drc.methods:
            raise AnalysisError('anchor-vanished %s.%s' % (DR, m))
    for fi in ctx.m.pkg_functions():
        sites = []
        for c in ctx.calls(fi):
            if c.name in NAME_ARG and any(cal.cls is not None and cal.cls.qual == DR for cal in c.callees):
                sites.append(c)
        if not sites:
            continue
        g, IN = _gate_states(ctx, fi)
        mi = ctx.m.modules[fi.module]
        for c in sites:
            nsites += 1
            idx = NAME_ARG[c.name]
            if idx >= len(c.node.args):
                continue
            a = c.node.args[idx]
            key = '%s|%s(%s)' % (fi.qual, c.name, norm(a))
            node = g.node_of(ctx.enclosing_stmt(fi, c.node))
            ok = False
            why = ''
            try:
                cv = fold(a, ctx.m, mi, fi.cls)
                if isinstance(cv, bytes):
                    ok = True
                    why = 'constant name'
            except NotConst:
                pass
            if not ok and isinstance(a, ast.Name):
                st = dict(IN[node.id] or ()) if node is not None else {}
                kinds = st.get(a.id)
                if kinds is None:
                    why = 'name %r reaches %s without having passed %s on every path' % (
                        a.id, c.name, '_check_iso9660_directory' if c.name == 'new_dir' else '_check_iso9660_filename')
                elif not kinds <= NEED[c.name]:
                    why = 'name %r was checked as %s but is used by %s' % (a.id, sorted(kinds), c.name)
                else:
                    ok = True
            elif not ok and isinstance(a, ast.Attribute) and a.attr == '_rr_moved_name':
                ok = True
                why = 'relocation directory name (checked where it is set, see SA-GATE.iso_name set_relocated_name)'
            elif not ok:
                why = 'name expression %s is not a checked local' % norm(a)
            obs.append(Ob('SA-GATE.iso_name', key, ok, ctx.loc(fi, c.node),
                          why if not ok else '', ))
    # the relocation name: every store of self._rr_moved_name is a constant or dominated by the directory check
    for w in effects.writers_of(ctx, 'pycdlib.PyCdlib', '_rr_moved_name'):
        fi = w.fi
        if w.value is None:
            continue
        mi = ctx.m.modules[fi.module]
        ok = False
        try:
            cv = fold(w.value, ctx.m, mi, fi.cls)
            ok = cv is None or isinstance(cv, bytes)
        except NotConst:
            pass
        if not ok and isinstance(w.value, ast.Name):
            g, IN = _gate_states(ctx, fi)
            node = g.node_of(w.stmt)
            st = dict(IN[node.id] or ()) if node is not None else {}
            ok = st.get(w.value.id) is not None and st[w.value.id] <= {'dir', 'const', 'relname'}
        obs.append(Ob('SA-GATE.iso_name', '%s|_rr_moved_name = %s' % (fi.qual, norm(w.value)), ok, ctx.loc(fi, w.node),
                      '' if ok else 'relocation directory name stored without _check_iso9660_directory'))
    if nsites < 6:
        raise AnalysisError('anchor-vanished: record creation sites (%d)' % nsites)
    return obs


def _int_const(ctx, fi, node):
    """integer value of a constant expression (literal, arithmetic on literals, module/class constant), else None"""
    try:
        v = fold(node, ctx.m, ctx.m.modules[fi.module], fi.cls)
    except NotConst:
        return None
    return v if isinstance(v, int) and not isinstance(v, bool) else None


@rule('SA-GATE.joliet')
@props('C09', 'C13')
def joliet(ctx):
    obs = []
    fi = ctx.func('pycdlib.PyCdlib.' + JOLIET_GATE)
    g = ctx.cfg(fi)
    dom = g.dominators()
    # a test len(X) > K (K constant) whose true branch raises InvalidInput, dominating every return
    limit = None
    gate_node = None
    for n in g.nodes:
        if n.kind == 'test' and isinstance(n.ast, ast.Compare) and len(n.ast.ops) == 1 and \
                isinstance(n.ast.left, ast.Call) and isinstance(n.ast.left.func, ast.Name) and n.ast.left.func.id == 'len' and \
                isinstance(n.ast.ops[0], (ast.Gt, ast.GtE)) and _int_const(ctx, fi, n.ast.comparators[0]) is not None:
            tb = [m for m, lab in n.succ if lab == 'T']
            if tb and tb[0].kind == 'stmt' and raises_class(tb[0].ast) == 'PyCdlibInvalidInput':
                k = _int_const(ctx, fi, n.ast.comparators[0])
                limit = k if isinstance(n.ast.ops[0], ast.Gt) else k - 1
                gate_node = n
    ok = gate_node is not None
    obs.append(Ob('SA-GATE.joliet', '%s|length test' % fi.qual, ok, ctx.loc(fi, fi.node),
                  '' if ok else 'the Joliet name gate no longer refuses long names with PyCdlibInvalidInput'))
    if ok:
        # 64 UTF-16 code units = 128 bytes when the measured value is the UTF-16 encoding itself
        from .. import expand as _ex
        measured = _ex.expand(ctx, fi, gate_node.ast.left.args[0], gate_node.stmt) if gate_node.stmt is not None else gate_node.ast.left.args[0]
        utf16 = isinstance(measured, ast.Call) and isinstance(measured.func, ast.Attribute) and measured.func.attr == 'encode' and measured.args and \
            isinstance(measured.args[0], ast.Constant) and str(measured.args[0].value).lower().replace('_', '-').startswith('utf-16')
        ok2 = limit == (128 if utf16 else 64)
        obs.append(Ob('SA-GATE.joliet', '%s|limit' % fi.qual, ok2, ctx.loc(fi, gate_node.ast),
                      '' if ok2 else 'Joliet names longer than %s are accepted; the documented limit is 64' % limit))
        rets = [n for n in g.nodes if n.kind == 'stmt' and isinstance(n.ast, ast.Return)]
        ok3 = bool(rets) and all(gate_node.id in dom[r.id] for r in rets)
        obs.append(Ob('SA-GATE.joliet', '%s|dominates returns' % fi.qual, ok3, ctx.loc(fi, fi.node),
                      '' if ok3 else 'a path returns a Joliet name without the length test'))
        # the tested name is the one returned (after encoding)
        tested = norm(gate_node.ast.left.args[0])
        ok4 = all(tested in norm(r.ast.value) for r in rets if r.ast.value is not None)
        obs.append(Ob('SA-GATE.joliet', '%s|same name' % fi.qual, ok4, ctx.loc(fi, fi.node),
                      '' if ok4 else 'the name whose length is tested (%s) is not the one returned' % tested))
        # unit of measure: the 64 are UCS-2/UTF-16 code units.  len() of the UTF-8 bytes never under-counts them
        # (1-3 bytes per BMP character = 1 unit, 4 bytes per supplementary character = 2 units); len() of a str
        # counts code points and under-counts every character outside the BMP.
        tt = ctx.t.expr_type(gate_node.ast.left.args[0], fi)
        is_bytes = tt is not None and tt[0] == 'prim' and tt[1] == 'bytes'
        obs.append(Ob('SA-GATE.joliet', '%s|unit' % fi.qual, is_bytes, ctx.loc(fi, gate_node.ast),
                      '' if is_bytes else 'the Joliet length limit is applied to `%s` of type %s: only a bytes value (UTF-8 or UTF-16 encoded) bounds the number of '
                      'UTF-16 code units; a str counts code points, so names with characters outside the BMP pass with up to twice the allowed length'
                      % (norm(gate_node.ast.left.args[0]), tt)))
    # every creation of a record in the Joliet VD takes its name from the gate: calls new_file/new_dir whose
    # first argument is self.joliet_vd
    n = 0
    for f2 in ctx.m.pkg_functions():
        sites = [c for c in ctx.calls(f2) if c.name in ('new_file', 'new_dir') and c.node.args and norm(c.node.args[0]) == 'self.joliet_vd']
        if not sites:
            continue
        g2, IN = _gate_states(ctx, f2)
        for c in sites:
            n += 1
            a = c.node.args[NAME_ARG[c.name]]
            node = g2.node_of(ctx.enclosing_stmt(f2, c.node))
            st = dict(IN[node.id] or ()) if node is not None else {}
            ok = isinstance(a, ast.Name) and st.get(a.id) == frozenset(['joliet'])
            obs.append(Ob('SA-GATE.joliet', '%s|%s(self.joliet_vd, %s)' % (f2.qual, c.name, norm(a)), ok, ctx.loc(f2, c.node),
                          '' if ok else 'Joliet record created with a name that did not come out of the Joliet name gate'))
    if n < 2:
        raise AnalysisError('anchor-vanished: Joliet record creation sites (%d)' % n)
    return obs


@rule('SA-GATE.eltorito')
@props('C07')
def eltorito_gate(ctx):
    """while X.inode.linked_records: ... _rm_dr_link/_rm_udf_link  is dominated by _check_inode_against_eltorito(X.inode)"""
    obs = []
    n = 0
    for fi in ctx.m.pkg_functions():
        g = None
        for node in ctx.own_nodes(fi):
            if isinstance(node, ast.While) and norm(node.test).endswith('.linked_records'):
                body_calls = [x for x in ast.walk(node) if isinstance(x, ast.Call) and _cname(x) in ('_rm_dr_link', '_rm_udf_link')]
                if not body_calls:
                    continue
                n += 1
                ino = norm(node.test)[:-len('.linked_records')]
                if g is None:
                    g = ctx.cfg(fi)
                    dom = g.dominators()
                wn = g.node_of(node)
                ok = False
                for cn in g.nodes:
                    for c in _calls(cn):
                        if _cname(c) == '_check_inode_against_eltorito' and c.args and norm(c.args[0]) == ino and cn.id in dom[wn.id]:
                            ok = True
                obs.append(Ob('SA-GATE.eltorito', '%s|unlink-all %s' % (fi.qual, ino), ok, ctx.loc(fi, node),
                              '' if ok else 'all names of the blob are removed without first checking that El Torito does not reference it'))
    if n < 2:
        raise AnalysisError('anchor-vanished: unlink-all loops (%d)' % n)
    # the gate itself refuses with InvalidInput
    fi = ctx.func('pycdlib.PyCdlib._check_inode_against_eltorito')
    rs = [x for x in ctx.own_nodes(fi) if isinstance(x, ast.Raise)]
    ok = any(raises_class(r) == 'PyCdlibInvalidInput' for r in rs)
    obs.append(Ob('SA-GATE.eltorito', '%s|refuses' % fi.qual, ok, ctx.loc(fi, fi.node), '' if ok else 'gate does not refuse'))
    return obs


@rule('SA-GATE.depth')
@props('C13')
def depth(ctx):
    """In every function that turns a user iso path into a new directory/file record, _check_path_depth(path)
    is called under a condition that mentions rock_ridge and (interchange_level or enhanced_vd)."""
    obs = []
    n = 0
    ctx.func('pycdlib._check_path_depth')
    for fi in ctx.m.pkg_functions():
        creates = [c for c in ctx.calls(fi) if c.name in ('new_file', 'new_dir') and
                   any(cal.cls is not None and cal.cls.qual == DR for cal in c.callees) and
                   c.node.args and norm(c.node.args[0]) in ('self.pvd', 'vd')]
        uses_iso_path = any(c.name == '_iso_name_and_parent_from_path' for c in ctx.calls(fi))
        if not creates or not uses_iso_path:
            continue
        if fi.name in ('add_symlink',):
            pass
        n += 1
        par = ctx.parents(fi)
        found = None
        for c in ctx.calls(fi):
            if c.name == '_check_path_depth':
                p = par.get(id(ctx.enclosing_stmt(fi, c.node)))
                # enclosing If
                cur = c.node
                cond = None
                while cur is not None:
                    cur = par.get(id(cur))
                    if isinstance(cur, ast.If) and 'rock_ridge' in norm(cur.test):
                        cond = norm(cur.test)
                        break
                found = (c, cond)
        ok = found is not None and found[1] is not None and ('interchange_level' in found[1] or 'enhanced_vd' in found[1])
        obs.append(Ob('SA-GATE.depth', fi.qual, ok, ctx.loc(fi, fi.node),
                      '' if ok else 'creates ISO9660 records from a user path without the eight-level depth check '
                      '(required unless Rock Ridge or level 4 is in use)'))
    if n < 2:
        raise AnalysisError('anchor-vanished: depth gate sites (%d)' % n)
    return obs


def _test_text(t):
    return norm(t.ast.iter) if t.kind == 'iter' else norm(t.ast)


@rule('SA-DUPGUARD')
@props('C13')
def dupguard(ctx):
    """Insertion primitives refuse duplicates before inserting."""
    obs = []
    prims = [('dr.DirectoryRecord._add_child', 'children', 'file_ident'),
             ('udf.UDFFileEntry.add_file_ident_desc', 'fi_descs', 'fi')]
    for q, cont, namefield in prims:
        fi = ctx.func(q)
        g = ctx.cfg(fi)
        dom = g.dominators()
        ins = [w for w in effects.direct_writes(ctx, fi) if w.attr == cont and w.kind == 'mutate']
        if not ins:
            raise AnalysisError('anchor-vanished: %s no longer inserts into %s' % (q, cont))
        # raise InvalidInput nodes whose controlling tests read the container and the name field
        guards = []
        for n in g.nodes:
            if n.kind == 'stmt' and raises_class(n.ast) == 'PyCdlibInvalidInput':
                # collect the tests dominating this raise
                tests = [g.nodes[d] for d in dom[n.id] if g.nodes[d].kind in ('test', 'iter')]
                txt = ' && '.join(_test_text(t) for t in tests)
                if cont in txt and namefield in txt:
                    guards.append((n, tests))
        # the refusal may live in a query method of the same class that the insertion calls first with the new
        # entry (`self.check_file_ident_desc(new_fi_desc)`): callers use that method to ask before they change anything
        helper_calls = []
        for c in ctx.calls(fi):
            if isinstance(c.node.func, ast.Attribute) and norm(c.node.func.value) == 'self' and c.node.args and \
                    [norm(a) for a in c.node.args] == [p for p in fi.params if p != 'self'][:len(c.node.args)]:
                for cal in c.callees:
                    if cal.cls is fi.cls and cal is not fi:
                        hg = ctx.cfg(cal)
                        hdom = hg.dominators()
                        for n in hg.nodes:
                            if n.kind == 'stmt' and raises_class(n.ast) == 'PyCdlibInvalidInput':
                                tests = [hg.nodes[d] for d in hdom[n.id] if hg.nodes[d].kind in ('test', 'iter')]
                                txt = ' && '.join(_test_text(t) for t in tests)
                                if cont in txt and namefield in txt:
                                    helper_calls.append(c)
        for w in ins:
            wn = g.node_of(w.stmt)
            ok = False
            for c in helper_calls:
                cn = g.node_of(ctx.enclosing_stmt(fi, c.node))
                if cn is not None and cn.id in dom[wn.id]:
                    ok = True
            for gn, tests in guards:
                # the deciding test (the innermost one mentioning the name) dominates the insertion
                for t in tests:
                    if t.kind == 'test' and namefield in _test_text(t) and (t.id in dom[wn.id]):
                        ok = True
            obs.append(Ob('SA-DUPGUARD', '%s|%s' % (q, norm(w.stmt)[:60]), ok, ctx.loc(fi, w.node),
                          '' if ok else '%s inserts into %s without a dominating duplicate-name refusal '
                          '(no PyCdlibInvalidInput raise under a test that reads %s and the new entry\'s %s): two entries with the same '
                          'identifier can coexist' % (q, cont, cont, namefield)))
    return obs


def _kwargs_loop_key(ctx, fi, name):
    """If `name` is the value variable of `for key, value in kwargs.items()` and is read under
    `key == '<k>'`, return <k>."""
    par = ctx.parents(fi)
    loops = [n for n in ctx.own_nodes(fi) if isinstance(n, ast.For) and isinstance(n.target, ast.Tuple) and len(n.target.elts) == 2
             and isinstance(n.target.elts[1], ast.Name) and n.target.elts[1].id == name.id
             and isinstance(n.iter, ast.Call) and isinstance(n.iter.func, ast.Attribute) and n.iter.func.attr == 'items']
    if not loops:
        return None
    cur = name
    while cur is not None:
        cur = par.get(id(cur))
        if isinstance(cur, ast.If) and isinstance(cur.test, ast.Compare) and norm(cur.test.left) == 'key' and \
                isinstance(cur.test.comparators[0], ast.Constant) and isinstance(cur.test.ops[0], ast.Eq):
            return cur.test.comparators[0].value
    return None


def _not_first_part(ctx, fi, cmp):
    if len(cmp.ops) != 1:
        return False
    op, a, b = cmp.ops[0], cmp.left, cmp.comparators[0]
    if isinstance(op, ast.IsNot) and isinstance(a, ast.Name) and isinstance(b, ast.Name):
        # `part is not first`, part walking a chain that starts at first: part = first ... part = part.<link>
        for x, y in ((a, b), (b, a)):
            starts, steps, other = 0, 0, 0
            for n in ctx.own_nodes(fi):
                if isinstance(n, ast.Assign) and any(isinstance(t, ast.Name) and t.id == x.id for t in n.targets):
                    if isinstance(n.value, ast.Name) and n.value.id == y.id:
                        starts += 1
                    elif isinstance(n.value, ast.Attribute) and isinstance(n.value.value, ast.Name) and n.value.value.id == x.id:
                        steps += 1
                    else:
                        other += 1
            if starts >= 1 and steps >= 1 and other == 0:
                return True
        return False
    if isinstance(a, ast.Constant) and isinstance(b, ast.Name):
        flip = {ast.Lt: ast.Gt, ast.LtE: ast.GtE, ast.NotEq: ast.NotEq}.get(type(op))
        if flip is None:
            return False
        op, a, b = flip(), b, a
    if not (isinstance(a, ast.Name) and isinstance(b, ast.Constant) and isinstance(b.value, int)):
        return False
    if not ((isinstance(op, (ast.Gt, ast.NotEq)) and b.value == 0) or (isinstance(op, ast.GtE) and b.value == 1)):
        return False
    inits, grows, other = 0, 0, 0
    for n in ctx.own_nodes(fi):
        if isinstance(n, ast.Assign) and any(isinstance(t, ast.Name) and t.id == a.id for t in n.targets):
            if isinstance(n.value, ast.Constant) and n.value.value == 0:
                inits += 1
            else:
                other += 1
        elif isinstance(n, ast.AugAssign) and isinstance(n.target, ast.Name) and n.target.id == a.id:
            if isinstance(n.op, ast.Add):
                grows += 1
            else:
                other += 1
        elif isinstance(n, (ast.For, ast.With)) and any(isinstance(x, ast.Name) and x.id == a.id and isinstance(x.ctx, ast.Store) for x in ast.walk(n)):
            other += 1
    return inits >= 1 and grows >= 1 and other == 0 and a.id not in [p.lstrip('*') for p in fi.params]


@rule('SA-DUPGUARD.bypass')
@props('C13')
def dup_bypass(ctx):
    """The duplicate guard of DirectoryRecord._add_child can be switched off with allow_duplicate.
    Every call that may pass a true value must derive it from "this is not the first part" (the extent loop of
    _add_fp: `offset > 0`, offset starting at 0 and only growing), never from the constant True, from a blanket
    retry, or from a comparison that can already hold for the first record (`thislen < length`): otherwise any
    second file of the same name is merged into the first as a multi-extent continuation."""
    obs = []
    targets = {'dr.DirectoryRecord.add_child': 2, 'dr.DirectoryRecord.track_child': 2, 'dr.DirectoryRecord._add_child': 2}
    seen = set()

    def classify(fi, expr, depth):
        """-> 'false' | 'cmp' | 'true' | 'unknown'"""
        if depth > 12:
            return 'unknown'
        if expr is None:
            return 'false'
        if isinstance(expr, ast.Constant):
            return 'true' if expr.value else 'false'
        if isinstance(expr, ast.Compare):
            # only "this is not the first part" may lift the guard: `off > 0` (or != 0 / >= 1) on a local that starts at
            # the constant 0 and only ever grows by augmented addition - false exactly for the first record of a file
            return 'cmp' if _not_first_part(ctx, fi, expr) else 'unknown'
        if isinstance(expr, ast.BoolOp):
            ks = [classify(fi, v, depth + 1) for v in expr.values]
            if isinstance(expr.op, ast.And):
                # a conjunction is at most as permissive as each operand: operands the analysis cannot
                # classify can only restrict it further
                if 'false' in ks:
                    return 'false'
                if 'cmp' in ks:
                    return 'cmp'
                known = [k for k in ks if k != 'unknown']
                return 'true' if known and all(k == 'true' for k in known) else 'unknown'
            if 'true' in ks:
                return 'true'
            return 'cmp' if all(k in ('cmp', 'false') for k in ks) else 'unknown'
        if isinstance(expr, ast.UnaryOp) and isinstance(expr.op, ast.Not):
            return 'unknown'
        if isinstance(expr, ast.Call) and norm(expr.func) == 'bool' and expr.args:
            return classify(fi, expr.args[0], depth + 1)
        if isinstance(expr, ast.Name):
            kw = _kwargs_loop_key(ctx, fi, expr)
            if kw is not None:
                # the value of keyword `kw` of **kwargs: what do the callers pass under that keyword?
                ks = set()
                for caller, c in ctx.callers().get(fi.qual, []):
                    passed = [k.value for k in c.node.keywords if k.arg == kw]
                    if passed:
                        ks.add(classify(caller, passed[0], depth + 1))
                    elif any(k.arg is None for k in c.node.keywords):
                        # forwards its own **kwargs: fine only if that function refuses the keyword itself
                        refuses = False
                        for n in ctx.own_nodes(caller):
                            if isinstance(n, ast.If) and norm(n.test) == "key == '%s'" % kw and any(isinstance(x, ast.Raise) for x in n.body):
                                refuses = True
                        ks.add('false' if refuses else 'unknown')
                    else:
                        ks.add('false')
                if 'true' in ks:
                    return 'true'
                if 'unknown' in ks:
                    return 'unknown'
                return 'cmp' if 'cmp' in ks else 'false'
            params = [p.lstrip('*') for p in fi.params]
            sd = ctx.single_defs(fi)
            if expr.id in sd:
                return classify(fi, sd[expr.id], depth + 1)
            # several assignments: all of them
            vals = []
            for n in ctx.own_nodes(fi):
                if isinstance(n, ast.Assign):
                    for t in n.targets:
                        if isinstance(t, ast.Name) and t.id == expr.id:
                            vals.append(n.value)
            if vals:
                ks = set(classify(fi, v, depth + 1) for v in vals)
                if 'true' in ks:
                    return 'true'
                if ks <= {'false', 'cmp'}:
                    return 'cmp' if 'cmp' in ks else 'false'
                return 'unknown'
            if expr.id in params:
                # what do the callers pass?
                idx = params.index(expr.id) - (1 if (fi.cls is not None and not fi.is_static) else 0)
                ks = set()
                for caller, c in ctx.callers().get(fi.qual, []):
                    a = None
                    if idx < len(c.node.args):
                        a = c.node.args[idx]
                    for kw in c.node.keywords:
                        if kw.arg == expr.id:
                            a = kw.value
                    if a is None:
                        # default
                        d = fi.node.args.defaults
                        pos = [x.arg for x in fi.node.args.args]
                        dv = dict(zip(pos[len(pos) - len(d):], d)).get(expr.id)
                        ks.add(classify(fi, dv, depth + 1) if dv is not None else 'unknown')
                    else:
                        ks.add(classify(caller, a, depth + 1))
                if 'true' in ks:
                    return 'true'
                if 'unknown' in ks:
                    return 'unknown'
                return 'cmp' if 'cmp' in ks else 'false'
        return 'unknown'

    n = 0
    for q, idx in targets.items():
        ctx.func(q)
        for caller, c in ctx.callers().get(q, []):
            a = c.node.args[idx] if idx < len(c.node.args) else None
            for kw in c.node.keywords:
                if kw.arg == 'allow_duplicate':
                    a = kw.value
            n += 1
            k = classify(caller, a, 0)
            # keyed by caller, callee and the guard argument alone: the other arguments of the call are not what
            # the obligation is about (an added parameter must not detach a reviewed entry)
            key = '%s|%s(allow_duplicate=%s)' % (caller.qual, q.rsplit('.', 1)[1], norm(a) if a is not None else 'default')
            if key in seen:
                i = 1
                while '%s#%d' % (key, i) in seen:
                    i += 1
                key = '%s#%d' % (key, i)
            seen.add(key)
            ok = k in ('false', 'cmp')
            obs.append(Ob('SA-DUPGUARD.bypass', key, ok, ctx.loc(caller, c.node),
                          '' if ok else 'the duplicate-name guard is switched off %s: a second entry of the same name is accepted and chained '
                          'to the first as a multi-extent continuation' % ('unconditionally (constant True)' if k == 'true' else 'by a value the analysis cannot tie to the extent loop')))
    if n < 4:
        raise AnalysisError('anchor-vanished: add_child call sites (%d)' % n)
    return obs
