"""
A file larger than 0xfffff800 bytes that is added with both an iso_path and a
udf_path is split into several ISO9660 extents, but its UDF File Entry is
attached to the inode of the LAST extent only.  The UDF allocation descriptors
therefore start where the last ISO9660 extent starts and run far beyond the end
of the volume; read through UDF the file has the wrong contents.
(No 4 GiB are stored: input is synthetic, output keeps the metadata only.)
"""
import struct
import sys

sys.dont_write_bytecode = True
sys.path.insert(0, sys.argv[1])
import pycdlib  # noqa: E402  pylint: disable=wrong-import-position

KEEP = 400 * 2048
LENGTH = 0xfffff800 + 4096 + 5


class Zeros(object):
    """A read-only binary file object of a given size that contains zeros."""
    mode = 'rb'

    def __init__(self, size):
        self.size = size
        self.pos = 0

    def read(self, count=-1):
        if count < 0:
            count = self.size - self.pos
        count = max(0, min(count, self.size - self.pos))
        self.pos += count
        return b'\x00' * count

    def seek(self, offset, whence=0):
        self.pos = {0: 0, 1: self.pos, 2: self.size}[whence] + offset
        return self.pos

    def tell(self):
        return self.pos


class Sink(object):
    """A write-only binary file object that remembers the first KEEP bytes."""
    mode = 'wb'

    def __init__(self):
        self.buf = bytearray(KEEP)
        self.pos = 0
        self.size = 0

    def write(self, data):
        if self.pos < KEEP:
            part = data[:KEEP - self.pos]
            self.buf[self.pos:self.pos + len(part)] = part
        self.pos += len(data)
        self.size = max(self.size, self.pos)
        return len(data)

    def seek(self, offset, whence=0):
        self.pos = {0: 0, 1: self.pos, 2: self.size}[whence] + offset
        return self.pos

    def tell(self):
        return self.pos

    def truncate(self, size=None):
        self.size = self.pos if size is None else size
        return self.size

    def flush(self):
        pass


def main():
    iso = pycdlib.PyCdlib()
    iso.new(interchange_level=3, udf='2.60')
    iso.add_fp(Zeros(LENGTH), LENGTH, '/BIG.;1', udf_path='/big')
    sink = Sink()
    iso.write_fp(sink)
    iso.close()
    img = bytes(sink.buf)

    def sector(num):
        return img[num * 2048:(num + 1) * 2048]

    volume_sectors, = struct.unpack_from('<L', img, 16 * 2048 + 80)

    # ISO9660: extents of BIG.;1 in the root directory.
    root_extent, root_len = struct.unpack_from('<L4xL', img, 16 * 2048 + 156 + 2)
    data = img[root_extent * 2048:root_extent * 2048 + root_len]
    iso_extents = []
    offset = 0
    while offset < len(data) and bytearray(data)[offset] != 0:
        reclen = bytearray(data)[offset]
        extent, length = struct.unpack_from('<L4xL', data, offset + 2)
        namelen = bytearray(data)[offset + 32]
        if data[offset + 33:offset + 33 + namelen] == b'BIG.;1':
            iso_extents.append((extent, length))
        offset += reclen

    # UDF: allocation descriptors of /big.
    part_start = None
    for num in range(32, 48):
        if struct.unpack_from('<H', sector(num), 0)[0] == 5:
            part_start, = struct.unpack_from('<L', sector(num), 188)
            break
    root_block, = struct.unpack_from('<L', sector(part_start), 404)

    def alloc_descs(fe_block):
        fe = sector(part_start + fe_block)
        assert struct.unpack_from('<H', fe, 0)[0] == 261
        info_len, = struct.unpack_from('<Q', fe, 56)
        len_ea, len_ad = struct.unpack_from('<LL', fe, 168)
        out = []
        for pos in range(176 + len_ea, 176 + len_ea + len_ad, 8):
            length, block = struct.unpack_from('<LL', fe, pos)
            out.append((part_start + block, length & 0x3fffffff))
        return info_len, out

    unused_len, root_ads = alloc_descs(root_block)
    start = root_ads[0][0] * 2048
    data = img[start:start + root_ads[0][1]]
    big_block = None
    offset = 0
    while offset < len(data):
        chars, len_fi = struct.unpack_from('<BB', data, offset + 18)
        icb_block, = struct.unpack_from('<L', data, offset + 24)
        len_iu, = struct.unpack_from('<H', data, offset + 36)
        if data[offset + 38 + len_iu + 1:offset + 38 + len_iu + len_fi] == b'big':
            big_block = icb_block
        offset += (38 + len_iu + len_fi + 3) // 4 * 4

    problems = []
    if len(iso_extents) != 2 or big_block is None:
        problems.append('could not locate the file: ISO9660 extents %r, UDF File Entry block %r' % (iso_extents, big_block))
    else:
        info_len, udf_ads = alloc_descs(big_block)
        if info_len != LENGTH or sum(length for unused, length in udf_ads) != LENGTH:
            problems.append('UDF File Entry describes %d bytes (descriptors: %d), the file has %d' % (info_len, sum(length for unused, length in udf_ads), LENGTH))
        if udf_ads[0][0] != iso_extents[0][0]:
            problems.append('UDF data starts at sector %d, the first ISO9660 extent of the file at sector %d (the last one at %d)' % (udf_ads[0][0], iso_extents[0][0], iso_extents[-1][0]))
        end = max(pos + (length + 2047) // 2048 for pos, length in udf_ads)
        if end > volume_sectors:
            problems.append('UDF allocation descriptors reach sector %d, the volume has %d sectors' % (end, volume_sectors))

    if problems:
        for problem in problems:
            print(problem)
        return 1
    print('OK')
    return 0


if __name__ == '__main__':
    sys.exit(main())
