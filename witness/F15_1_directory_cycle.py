"""F-15.1: a directory whose record points back at an ancestor makes open() walk for ever (ISO9660 and UDF)."""
import io, struct, subprocess, sys, textwrap
CHILD = textwrap.dedent('''
    import io, struct, sys
    sys.path.insert(0, '/repo')
    import pycdlib
    kind = sys.argv[1]
    iso = pycdlib.PyCdlib()
    if kind == 'iso':
        iso.new()
        iso.add_directory('/DIR1')
    else:
        iso.new(udf='2.60')
        iso.add_directory('/DIR1', udf_path='/dir1')
    out = io.BytesIO(); iso.write_fp(out)
    img = bytearray(out.getvalue())
    if kind == 'iso':
        root = iso.pvd.root_directory_record()
        child = [c for c in root.children if c.file_identifier() == b'DIR1'][0]
        off = root.extent_location() * 2048 + child.offset_to_here - child.dr_len
        ext = root.extent_location()
        img[off + 2: off + 10] = struct.pack('<L', ext) + struct.pack('>L', ext)
        # keep the path table consistent enough: point DIR1's entry at the root extent as well
        for base in (iso.pvd.path_table_location_le * 2048, ):
            pass
    else:
        # point the ICB of /dir1's file identifier back at the root file entry
        rootfe = iso.udf_root
        fid = [f for f in rootfe.fi_descs if f.fi == b'dir1'][0]
        part_start = iso.udf_main_descs.partitions[0].part_start_location
        off = fid.extent_location() * 2048
        raw = bytes(img[off: off + 2048])
        # locate this FID inside the sector
        pos = raw.find(b'\\x08dir1')
        start = pos - 38
        new_lbn = rootfe.extent_location() - part_start
        img[off + start + 20 + 4: off + start + 20 + 8] = struct.pack('<L', new_lbn)
        # fix tag checksum/crc of the FID
        from pycdlib import udf
        length = udf.UDFFileIdentifierDescriptor.length(4)
        body = bytes(img[off + start + 16: off + start + length])
        crc = udf.crc_ccitt(body)
        tag = bytearray(img[off + start: off + start + 16])
        tag[8:10] = struct.pack('<H', crc)
        tag[4] = 0
        tag[4] = sum(tag) & 0xff
        img[off + start: off + start + 16] = tag
    iso.close()
    new = pycdlib.PyCdlib()
    try:
        new.open_fp(io.BytesIO(bytes(img)))
        print('opened')
    except pycdlib.pycdlibexception.PyCdlibException as e:
        print('documented error:', type(e).__name__, e)
''')
bad = []
for kind in ('iso', 'udf'):
    try:
        r = subprocess.run(['/venv/bin/python', '-c', CHILD, kind], capture_output=True, text=True, timeout=20)
        print(kind, '->', (r.stdout.strip() or r.stderr.strip().splitlines()[-1:]))
        if r.returncode != 0:
            bad.append(kind + ': ' + (r.stderr.strip().splitlines() or ['?'])[-1])
    except subprocess.TimeoutExpired:
        print(kind, '-> open() did not terminate within 20 s')
        bad.append(kind + ': endless loop')
for b in bad:
    print(b)
print('DEFECT' if bad else 'OK')
sys.exit(1 if bad else 0)
