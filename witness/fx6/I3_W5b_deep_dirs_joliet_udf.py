"""
Witness E (first half): pycdlib-genisoimage -J -udf without -R at interchange
levels 1 to 3 on a tree that is more than 7 levels deep.  The deep part cannot
be in the ISO9660 view; the witness checks whether it is in the Joliet and UDF
views, which have no depth limit.  (Not repaired, see REPORT.txt: the tool
reports and skips these directories like genisoimage does.)

Usage: python W5b_deep_dirs_joliet_udf.py <path-to-checkout>
"""
import os
import subprocess
import sys
import tempfile

sys.path.insert(0, sys.argv[1])

import pycdlib


def run_tool(checkout, name, args, cwd):
    env = dict(os.environ)
    env['PYTHONPATH'] = checkout
    return subprocess.run([sys.executable, os.path.join(checkout, 'tools', name)] + args,
                          cwd=cwd, env=env, stdout=subprocess.PIPE,
                          stderr=subprocess.STDOUT, universal_newlines=True)


def snapshot(top):
    result = {}
    for dirpath, dirnames, filenames in os.walk(top):
        for name in dirnames + filenames:
            full = os.path.join(dirpath, name)
            rel = os.path.relpath(full, top)
            if os.path.isdir(full):
                result[rel] = ('dir', None)
            else:
                with open(full, 'rb') as infp:
                    result[rel] = ('file', infp.read())
    return result


def main():
    checkout = os.path.abspath(sys.argv[1])
    problems = []
    with tempfile.TemporaryDirectory() as tmp:
        src = os.path.join(tmp, 'src')
        deep = os.path.join(src, 'd1', 'd2', 'd3', 'd4', 'd5', 'd6', 'd7', 'd8', 'd9')
        os.makedirs(deep)
        with open(os.path.join(deep, 'deep.txt'), 'wb') as outfp:
            outfp.write(b'deep\n')
        with open(os.path.join(os.path.dirname(os.path.dirname(deep)), 'seven.txt'), 'wb') as outfp:
            outfp.write(b'seven\n')
        with open(os.path.join(src, 'top.txt'), 'wb') as outfp:
            outfp.write(b'top\n')
        want = snapshot(src)

        out = os.path.join(tmp, 'out.iso')
        res = run_tool(checkout, 'pycdlib-genisoimage',
                       ['-o', out, '-J', '-udf', src], tmp)
        if res.returncode != 0:
            print('pycdlib-genisoimage failed:\n' + res.stdout)
            return 1
        for view in ('joliet', 'udf'):
            dest = os.path.join(tmp, view + '.out')
            os.mkdir(dest)
            res = run_tool(checkout, 'pycdlib-extract-files',
                           ['-path-type', view, '-extract-to', dest, out], tmp)
            if res.returncode != 0:
                print('pycdlib-extract-files failed:\n' + res.stdout)
                return 1
            have = snapshot(dest)
            for rel in sorted(set(want) - set(have)):
                problems.append('%s view: %s is missing' % (view, rel))
            for rel in sorted(set(have) - set(want)):
                problems.append('%s view: %s is not in the source' % (view, rel))
            for rel in sorted(set(have) & set(want)):
                if have[rel] != want[rel]:
                    problems.append('%s view: %s differs' % (view, rel))

        # The image must be one that the library opens again.
        iso = pycdlib.PyCdlib()
        iso.open(out)
        iso.close()

    if problems:
        print('\n'.join(problems))
        return 1
    print('OK')
    return 0


if __name__ == '__main__':
    sys.exit(main())
