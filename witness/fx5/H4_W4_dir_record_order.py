#!/usr/bin/env python
"""
Observation D: directory records are written in plain byte order of the
whole identifier, which is not the order of ECMA-119 9.3 (File Name
ascending, then File Name Extension ascending, both compared as if padded
with spaces, then File Version Number descending).

usage: W4_dir_record_order.py <path-to-checkout>
"""
import functools
import io
import struct
import sys

sys.path.insert(0, sys.argv[1])

import pycdlib  # noqa: E402 pylint: disable=wrong-import-position

SECTOR = 2048


def root_identifiers(img):
    """The identifiers of the root directory in recorded order (without '.' and '..')."""
    ext, = struct.unpack_from('<L', img, 16 * SECTOR + 156 + 2)
    length, = struct.unpack_from('<L', img, 16 * SECTOR + 156 + 10)
    data = img[ext * SECTOR:ext * SECTOR + length]
    pos = 0
    out = []
    while pos < len(data):
        reclen = data[pos]
        if reclen == 0:
            pos = (pos // SECTOR + 1) * SECTOR
            continue
        idlen = data[pos + 32]
        out.append(data[pos + 33:pos + 33 + idlen])
        pos += reclen
    return out[2:]


def split_ident(ident):
    """File Name, File Name Extension, File Version Number of an identifier."""
    rest, _, version = ident.partition(b';')
    name, _, extension = rest.partition(b'.')
    return name, extension, version


def cmp_padded(left, right, pad, on_the_left):
    """Compare two fields as if the shorter one were padded."""
    size = max(len(left), len(right))
    if on_the_left:
        left = left.rjust(size, pad)
        right = right.rjust(size, pad)
    else:
        left = left.ljust(size, pad)
        right = right.ljust(size, pad)
    return (left > right) - (left < right)


def cmp_9_3(left, right):
    """ECMA-119 9.3 a) to c)."""
    lname, lext, lver = split_ident(left)
    rname, rext, rver = split_ident(right)
    return cmp_padded(lname, rname, b' ', False) or cmp_padded(lext, rext, b' ', False) or -cmp_padded(lver, rver, b'0', True)


def build(level, paths):
    iso = pycdlib.PyCdlib()
    iso.new(interchange_level=level)
    for path in paths:
        iso.add_fp(io.BytesIO(b'x'), 1, path)
    out = io.BytesIO()
    iso.write_fp(out)
    iso.close()
    return out.getvalue()


def main():
    cases = [
        ('level 1, digit after a shorter extension', 1, ['/FILE.A;1', '/FILE.A0;1', '/FILE.;1', '/FILE0.;1']),
        ('level 3, two versions of one file', 3, ['/FOO.;1', '/FOO.;2', '/FOO.;10']),
        ('level 4, characters below the separator', 4, ['/foo', '/foo+', '/foo.a', '/foo!.a']),
    ]
    problems = []
    for label, level, paths in cases:
        recorded = root_identifiers(build(level, paths))
        if sorted(recorded) != sorted(p[1:].encode() for p in paths):
            problems.append('%s: recorded identifiers are %r' % (label, recorded))
            continue
        wanted = sorted(recorded, key=functools.cmp_to_key(cmp_9_3))
        if recorded != wanted:
            problems.append('%s: recorded as %s, ECMA-119 9.3 order is %s'
                            % (label, b' '.join(recorded).decode(), b' '.join(wanted).decode()))

    if problems:
        for problem in problems:
            print(problem)
        return 1
    print('OK')
    return 0


if __name__ == '__main__':
    sys.exit(main())
