"""SA-FRESH.inodes: an inode enters PyCdlib.inodes exactly once - when it is created (C04, C07).

Mastering writes the data of every element of self.inodes and removal deletes the first listing only;
an inode listed twice is written twice and survives the removal of its last name.  Every
`self.inodes.append(x)` must therefore append a value all of whose reaching definitions are
constructor calls `Inode()` in the same function (a freshly created inode), never one that was looked
up (extent map, linked record) and may already be listed.
"""
import ast

from ..registry import rule, props
from ..report import Ob
from ..model import norm, type_classes, AnalysisError
from .. import effects
from .. import expand as ex


@rule('SA-FRESH.inodes')
@props('C04', 'C07')
def fresh_inodes(ctx):
    obs = []
    n = 0
    for fi in ctx.m.pkg_functions():
        for w in effects.direct_writes(ctx, fi):
            if not (w.kind == 'mutate' and w.attr == 'inodes' and 'pycdlib.PyCdlib' in w.classes):
                continue
            call = w.node if isinstance(w.node, ast.Call) else None
            if call is None or w.method not in ('append', 'insert', 'extend', 'appendleft'):
                continue
            n += 1
            arg = call.args[-1] if call.args else None
            key = '%s|%s' % (fi.qual, norm(call))
            ok = False
            why = 'the appended value is not a local name'
            if isinstance(arg, ast.Call):
                cs, kind = ctx.t._resolve(arg, fi)
                ok = kind == 'ctor' and cs == 'inode.Inode'
            elif isinstance(arg, ast.Name):
                g, RD = ex._rd(ctx, fi)
                node = g.node_of(w.stmt)
                defs = [g.nodes[d] for nm, d in RD.get(node.id, ()) if nm == arg.id]
                bad = []
                facts = set()
                for test, pol, at in ex.conditions(ctx, fi, w.stmt):
                    for t, p in ex.conjuncts(test, pol):
                        facts.add((norm(t), p))
                notnone = ('%s is not None' % arg.id, True) in facts or ('%s is None' % arg.id, False) in facts
                for dn in defs:
                    if notnone and dn.kind == 'stmt' and isinstance(dn.stmt, ast.Assign) and isinstance(dn.stmt.value, ast.Constant) \
                            and dn.stmt.value.value is None:
                        continue      # excluded by the enclosing `is not None` test
                    st = dn.stmt
                    v = st.value if (dn.kind == 'stmt' and isinstance(st, ast.Assign) and len(st.targets) == 1
                                     and isinstance(st.targets[0], ast.Name)) else None
                    isctor = False
                    if isinstance(v, ast.Call):
                        cs, kind = ctx.t._resolve(v, fi)
                        isctor = kind == 'ctor' and cs == 'inode.Inode'
                    if not isctor:
                        bad.append('`%s`' % norm(st).split('\n')[0][:80] if st is not None else 'a parameter')
                ok = bool(defs) and not bad
                why = 'it may hold %s, an inode that was looked up and can already be in the list' % ', '.join(bad) if bad else 'no definition reaches the append'
            obs.append(Ob('SA-FRESH.inodes', key, ok, ctx.loc(fi, w.stmt),
                          '' if ok else '`%s` must append a freshly constructed Inode: %s; an inode listed twice is mastered twice and outlives the removal of its last name '
                          '(its bytes stay in the image / overwrite whatever is assigned to those sectors)' % (norm(call), why)))
    if n < 5:
        raise AnalysisError('anchor-vanished: appends to PyCdlib.inodes (%d)' % n)
    return obs


@rule('SA-FRESH.derived_pair')
@props('C12')
def derived_pair(ctx):
    """Two quantities handed to the caller together - `return (cc, padding)` - where one is computed arithmetically
    from the other: the computation uses the final value of the other.  If the other is assigned again on some path
    between the computation and the return (the padding grows by whole cylinders until the backup GPT fits), the pair
    that is returned is inconsistent - the cylinder count of the MBR describes an image shorter than the one that is
    padded and written.  Plain copies (`start = cur` before `cur` advances) are not derivations and are not judged."""
    obs = []
    n = 0
    for fi in ctx.m.pkg_functions():
        for r in ctx.own_nodes(fi):
            if not (isinstance(r, ast.Return) and isinstance(r.value, ast.Tuple) and all(isinstance(e, ast.Name) for e in r.value.elts)):
                continue
            g, RD = ex._rd(ctx, fi)
            rn = g.node_of(r)
            if rn is None:
                continue
            reach = RD.get(rn.id) or ()
            names = [e.id for e in r.value.elts]
            for a in names:
                for d in sorted(set(dd for nm, dd in reach if nm == a)):
                    st = g.nodes[d].stmt
                    if not isinstance(st, ast.Assign):
                        continue
                    arith = set()
                    for x in ast.walk(st.value):
                        if isinstance(x, ast.BinOp):
                            for y in ast.walk(x):
                                if isinstance(y, ast.Name):
                                    arith.add(y.id)
                    for b in names:
                        if b == a or b not in arith:
                            continue
                        n += 1
                        at_ret = set(dd for nm, dd in reach if nm == b)
                        at_def = set(dd for nm, dd in (RD.get(d) or ()) if nm == b)
                        ok = at_ret == at_def
                        later = sorted(g.nodes[x].stmt.lineno for x in at_ret - at_def if g.nodes[x].stmt is not None)
                        obs.append(Ob('SA-FRESH.derived_pair', '%s|%s computed from %s' % (fi.qual, a, b), ok, ctx.loc(fi, st),
                                      '' if ok else '`%s` is computed from `%s` at line %d, but `%s` is assigned again at line %s before both are returned together '
                                      '(line %d): the caller receives a %s that does not belong to the %s it receives'
                                      % (a, b, st.lineno, b, ', '.join(map(str, later)), r.lineno, a, b)))
    obs.append(Ob('SA-FRESH.derived_pair', 'returned pairs with an arithmetic derivation examined', True, '', '%d' % n))
    return obs


@rule('SA-FRESH.clamped')
@props('C12')
def clamped(ctx):
    """A value that was clamped - `cc = min(<cylinders>, 1024)`, the cylinder count as far as the 10-bit CHS field can
    express it - is good for that field only.  Multiplying it back (`cc * heads * sectors * 512`) does not give the size
    it was derived from once the clamp has bitten: on a hybrid image of more than 1024 cylinders the backup GPT would be
    placed in the middle of the ISO and overwrite file data.  For every function of the hybrid module that returns a
    tuple with a clamped element, no consumer uses that element as an operand of a multiplication."""
    obs = []
    n = 0
    for fi in ctx.m.pkg_functions():
        if fi.module != 'isohybrid':
            continue
        rets = [r for r in ctx.own_nodes(fi) if isinstance(r, ast.Return) and isinstance(r.value, ast.Tuple)]
        if not rets:
            continue
        clamped_idx = set()
        for r in rets:
            for i, e in enumerate(r.value.elts):
                v = ex.expand(ctx, fi, e, r)
                for c in ast.walk(v):
                    if isinstance(c, ast.Call) and isinstance(c.func, ast.Name) and c.func.id == 'min' and any(isinstance(a, ast.Constant) for a in c.args):
                        clamped_idx.add(i)
        if not clamped_idx:
            continue
        for caller, c in ctx.callers().get(fi.qual, []):
            par = ctx.parents(caller)
            p = par.get(id(c.node))
            names = set()
            direct = []
            if isinstance(p, ast.Subscript) and isinstance(p.slice, ast.Constant) and p.slice.value in clamped_idx:
                pp = par.get(id(p))
                if isinstance(pp, ast.Assign) and len(pp.targets) == 1 and isinstance(pp.targets[0], ast.Name):
                    names.add(pp.targets[0].id)
                else:
                    direct.append(p)
            elif isinstance(p, ast.Assign) and len(p.targets) == 1 and isinstance(p.targets[0], (ast.Tuple, ast.List)):
                for i, t in enumerate(p.targets[0].elts):
                    if i in clamped_idx and isinstance(t, ast.Name):
                        names.add(t.id)
            if not names and not direct:
                continue
            n += 1
            bad = None
            for m in ctx.own_nodes(caller):
                if isinstance(m, ast.BinOp) and isinstance(m.op, ast.Mult):
                    for y in ast.walk(m):
                        if (isinstance(y, ast.Name) and y.id in names) or any(y is d for d in direct):
                            bad = m
            obs.append(Ob('SA-FRESH.clamped', '%s|clamped result of %s' % (caller.qual, fi.name), bad is None, ctx.loc(caller, bad if bad is not None else c.node),
                          '' if bad is None else '`%s` multiplies the clamped element of %s() (`min(..., const)`: the cylinder count as far as the CHS field can hold it): beyond '
                          'the clamp the product is smaller than the padded image, and everything placed with it (backup GPT, last usable LBA) lands inside the ISO'
                          % (norm(bad)[:80], fi.name)))
    if n < 1:
        raise AnalysisError('anchor-vanished: consumers of a clamped tuple element in isohybrid')
    return obs
