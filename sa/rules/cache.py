"""SA-CACHE.coherent: nothing in the package is served from a cache that can outlive its inputs.

Three rounds of seeded regressions produced the same kind of mistake five times in five different modules: a
value that is recomputed on every call today gets remembered "because it is expensive", and nothing resets it
when what it was computed from changes (GPT partition CRC, the facade's interchange level, the GMT offset of an
hour, the path lookups).  Whether a cache is coherent is visible in the code; the rule recognises the three
idioms by which Python code caches and decides each instance:

 memo dict   `if k not in D: D[k] = E` / `D.setdefault(k, E)` / `try: D[k] except KeyError: D[k] = E`, D a
             module-level (or class-level) dict.  Coherent iff the key determines the inputs of E: every
             parameter of the enclosing function that E (or the locals it is built from) uses appears in the
             key *unmodified* (a bare name, possibly inside a tuple), and E reads no process state
             (time.*, os.environ, locale) beyond its parameters.
 lru_cache   on a module-level function: same purity requirement on the body (the key is the argument
             tuple).  On a method the key contains `self`, whose state is mutable: the method must be one of
             those SA-PAIR.removal_cache keeps coherent (cleared at every removal), or read no attribute.
 lazy slot   `if obj.A is None: obj.A = E` (or `if not hasattr`).  Coherent iff the backward slice of E in the
             function reads no attribute of package objects that a non-constructor method can rewrite - unless
             every such writer also resets A (assigns None / deletes it).  Constants and fresh random values
             (IsoHybrid.mbr_id) have an empty slice.

The instances on today's tree are few (see evidence); the rule exists for the ones a change adds.  It is
registered per module under the property whose mechanism lives there.
"""
import ast

from ..registry import rule, props
from ..report import Ob
from ..model import norm, AnalysisError, type_classes
from .. import effects
from .. import expand as ex

PROCESS_STATE = ('time.tzname', 'time.timezone', 'time.altzone', 'time.daylight', 'time.time', 'time.localtime', 'time.mktime', 'time.strftime',
                 'os.environ', 'os.getcwd', 'os.stat', 'os.path.exists', 'random.', 'locale.')
MODULE_PROPS = {
    'dates': 'C19', 'isohybrid': 'C12', 'eltorito': 'C11', 'udf': 'C10', 'rockridge': 'C08', 'facade': 'C18', 'utils': 'C18',
    'pycdlib': 'C02', 'dr': 'C02', 'inode': 'C07', 'headervd': 'C03', 'path_table_record': 'C03', 'pycdlibio': 'C16',
}


def _is_ctor(fi):
    return fi.name == '__init__' or fi.name.startswith('new') or fi.name.startswith('parse') or fi.name == '_initialize'


def _names(e):
    return set(n.id for n in ast.walk(e) if isinstance(n, ast.Name))


def _slice(ctx, fi, expr, at_stmt):
    """expressions E depends on inside fi: E itself, the right-hand sides of the reaching definitions of its
    locals (transitively), the iterables of loops that bind them, and the arguments of .append/.extend/+=
    on them.  Returns (list of expressions, set of parameter names used)."""
    g, RD = ex._rd(ctx, fi)
    params = set(p.lstrip('*') for p in fi.params)
    exprs = [expr]
    seen_names = set()
    work = [(expr, at_stmt)]
    used_params = set()
    while work:
        e, st = work.pop()
        node = g.node_of(st)
        reach = (RD.get(node.id) if node is not None else None) or frozenset()
        for nm in _names(e):
            if nm in ('self',):
                continue
            defs = [g.nodes[d] for n2, d in reach if n2 == nm]
            if nm in params and (not defs or any(dn.kind != 'stmt' for dn in defs)):
                used_params.add(nm)
            if nm in seen_names:
                continue
            seen_names.add(nm)
            for dn in defs:
                s = dn.stmt
                if s is None:
                    continue
                if isinstance(s, ast.Assign):
                    exprs.append(s.value)
                    work.append((s.value, s))
                elif isinstance(s, ast.AugAssign):
                    exprs.append(s.value)
                    work.append((s.value, s))
                elif isinstance(s, (ast.For,)):
                    exprs.append(s.iter)
                    work.append((s.iter, s))
            # accumulation into the local
            for n in ctx.own_nodes(fi):
                if isinstance(n, ast.Call) and isinstance(n.func, ast.Attribute) and n.func.attr in ('append', 'extend', 'add', 'update', 'insert') and \
                        isinstance(n.func.value, ast.Name) and n.func.value.id == nm:
                    for a in n.args:
                        exprs.append(a)
                        work.append((a, ctx.enclosing_stmt(fi, n)))
    return exprs, used_params


def _process_state(exprs):
    out = []
    for e in exprs:
        for n in ast.walk(e):
            if isinstance(n, ast.Attribute):
                t = norm(n)
                if any(t == p or (p.endswith('.') and t.startswith(p)) for p in PROCESS_STATE):
                    out.append(t)
    return sorted(set(out))


def _mutable_inputs(ctx, fi, exprs, cached_attr):
    """attribute reads in exprs whose (class, attr) has a non-constructor writer; also classes of package objects
    that are iterated/called and have non-constructor writers of any field"""
    bad = []
    seen = set()
    for e in exprs:
        for n in ast.walk(e):
            if not isinstance(n, ast.Attribute) or not isinstance(n.ctx, ast.Load):
                continue
            if n.attr == cached_attr:
                continue
            cls = type_classes(ctx.t.expr_type(n.value, fi))
            for cq in cls:
                ci = ctx.m.classes.get(cq)
                if ci is None:
                    continue
                if n.attr in ci.methods:
                    # a method call on a package object: the fields that method reads are inputs
                    m = ci.methods[n.attr]
                    for x in ctx.own_nodes(m):
                        if isinstance(x, ast.Attribute) and isinstance(x.value, ast.Name) and x.value.id == 'self' and isinstance(x.ctx, ast.Load) and \
                                x.attr not in ci.methods and (cq, x.attr) not in seen:
                            seen.add((cq, x.attr))
                            ws = [w for w in effects.writers_of(ctx, cq, x.attr) if not _is_ctor(w.fi)]
                            if ws:
                                bad.append((cq, '%s (read by .%s())' % (x.attr, n.attr), ws[0]))
                    continue
                if (cq, n.attr) in seen:
                    continue
                seen.add((cq, n.attr))
                ws = [w for w in effects.writers_of(ctx, cq, n.attr) if not (_is_ctor(w.fi))]
                if ws:
                    bad.append((cq, n.attr, ws[0]))
    return bad


def _resets(ctx, writer_fi, cq, attr):
    for w in effects.direct_writes(ctx, writer_fi):
        if w.attr == attr and (cq in w.classes or not w.classes):
            if w.kind == 'del' or (isinstance(w.value, ast.Constant) and w.value.value is None):
                return True
    return False


def _module_dicts(ctx, mi):
    out = set()
    for name, v in (mi.consts or {}).items():
        if isinstance(v, ast.Dict) or (isinstance(v, ast.Call) and norm(v.func) in ('dict', 'collections.OrderedDict', 'collections.defaultdict')):
            out.add(name)
    # plain `NAME = {}` at module level may not be recorded as a const: scan the tree
    for s in mi.tree.body:
        tgt = None
        if isinstance(s, ast.Assign) and len(s.targets) == 1 and isinstance(s.targets[0], ast.Name):
            tgt, val = s.targets[0].id, s.value
        elif isinstance(s, ast.AnnAssign) and isinstance(s.target, ast.Name) and s.value is not None:
            tgt, val = s.target.id, s.value
        if tgt and (isinstance(val, ast.Dict) and not val.keys or (isinstance(val, ast.Call) and norm(val.func) in ('dict', 'collections.OrderedDict'))):
            out.add(tgt)
    return out


def _key_elements(k):
    if isinstance(k, ast.Tuple):
        out = []
        for e in k.elts:
            out.extend(_key_elements(e))
        return out
    return [k]


def _analyse(ctx, module):
    rid = 'SA-CACHE.coherent.' + module
    obs = []
    mi = ctx.m.modules.get(module)
    if mi is None:
        raise AnalysisError('anchor-vanished module %s' % module)
    dicts = _module_dicts(ctx, mi)
    pc_cached = set()
    funcs = [f for f in ctx.m.pkg_functions() if f.module == module]
    if not funcs:
        raise AnalysisError('anchor-vanished: no functions in module %s' % module)
    obs.append(Ob(rid, '%s|functions scanned for caches' % module, True, mi.path, ''))
    for fi in funcs:
        params = [p.lstrip('*') for p in fi.params]
        # ---- lru_cache
        if any('lru_cache' in d or d.endswith('.cache') or d == 'cache' for d in fi.decorators):
            key = '%s|lru_cache' % fi.qual
            body_exprs = [n for n in ctx.own_nodes(fi) if isinstance(n, ast.expr)]
            ps = _process_state(body_exprs)
            if fi.cls is None:
                globs = [n.id for n in ctx.own_nodes(fi) if isinstance(n, ast.Name) and isinstance(n.ctx, ast.Load) and n.id in dicts]
                ok = not ps and not globs
                obs.append(Ob(rid, key, ok, ctx.loc(fi, fi.node),
                              '' if ok else 'the cached function reads %s besides its arguments: the cached result does not follow when that changes' % ', '.join(ps + globs)))
            else:
                reads = sorted(set(n.attr for n in ctx.own_nodes(fi) if isinstance(n, ast.Attribute) and isinstance(n.value, ast.Name) and n.value.id == 'self'
                                   and isinstance(n.ctx, ast.Load) and n.attr not in fi.cls.methods))
                cleared = any(isinstance(n, ast.Call) and isinstance(n.func, ast.Attribute) and n.func.attr == 'cache_clear' and
                              isinstance(n.func.value, ast.Attribute) and n.func.value.attr == fi.name
                              for f2 in ctx.m.pkg_functions() for n in ctx.own_nodes(f2))
                ok = not reads or cleared
                obs.append(Ob(rid, key, ok, ctx.loc(fi, fi.node),
                              '' if ok else 'lru_cache on a method that reads object state (%s) and is never cache_clear()ed: the lookup keeps answering from '
                              'the state of the first call' % ', '.join(reads[:5])))
        for n in ctx.own_nodes(fi):
            # ---- memo dict
            if isinstance(n, ast.If) and isinstance(n.test, ast.Compare) and len(n.test.ops) == 1 and isinstance(n.test.ops[0], ast.NotIn) and \
                    isinstance(n.test.comparators[0], ast.Name) and n.test.comparators[0].id in dicts:
                D = n.test.comparators[0].id
                for s in n.body:
                    if isinstance(s, ast.Assign) and len(s.targets) == 1 and isinstance(s.targets[0], ast.Subscript) and norm(s.targets[0].value) == D:
                        obs.append(_memo(ctx, rid, fi, D, s.targets[0].slice, s.value, s, params))
            if isinstance(n, ast.Call) and isinstance(n.func, ast.Attribute) and n.func.attr == 'setdefault' and isinstance(n.func.value, ast.Name) and \
                    n.func.value.id in dicts and len(n.args) == 2:
                obs.append(_memo(ctx, rid, fi, n.func.value.id, n.args[0], n.args[1], ctx.enclosing_stmt(fi, n), params))
            if isinstance(n, ast.Try):
                for h in n.handlers:
                    if h.type is not None and 'KeyError' in norm(h.type):
                        for s in h.body:
                            if isinstance(s, ast.Assign) and len(s.targets) == 1 and isinstance(s.targets[0], ast.Subscript) and \
                                    isinstance(s.targets[0].value, ast.Name) and s.targets[0].value.id in dicts:
                                obs.append(_memo(ctx, rid, fi, s.targets[0].value.id, s.targets[0].slice, s.value, s, params))
            # ---- lazy slot
            if isinstance(n, ast.If) and not n.orelse:
                t = n.test
                tgt = None
                if isinstance(t, ast.Compare) and len(t.ops) == 1 and isinstance(t.ops[0], ast.Is) and isinstance(t.comparators[0], ast.Constant) and \
                        t.comparators[0].value is None and isinstance(t.left, ast.Attribute):
                    tgt = t.left
                elif isinstance(t, ast.UnaryOp) and isinstance(t.op, ast.Not) and isinstance(t.operand, ast.Call) and norm(t.operand.func) == 'hasattr' and \
                        len(t.operand.args) == 2 and isinstance(t.operand.args[1], ast.Constant):
                    tgt = ast.Attribute(value=t.operand.args[0], attr=t.operand.args[1].value, ctx=ast.Load())
                if tgt is None:
                    continue
                for s in n.body:
                    if isinstance(s, ast.Assign) and any(norm(x) == norm(tgt) for x in s.targets):
                        obs.append(_lazy(ctx, rid, fi, tgt, s))
    return obs


def _memo(ctx, rid, fi, D, keyexpr, value, stmt, params):
    exprs, used = _slice(ctx, fi, value, stmt)
    kexprs, _ku = _slice(ctx, fi, keyexpr, stmt)
    # the key as written, with locals expanded one step
    kx = ex.expand(ctx, fi, keyexpr, stmt)
    bare = set(e.id for e in _key_elements(kx) if isinstance(e, ast.Name))
    missing = sorted(p for p in used if p not in bare and p != 'self')
    ps = _process_state(exprs)
    # process state that is itself part of the key is accounted for only if E is a function of it alone - it is not:
    # the value also depends on what the zone rules say for the instant, so it stays reported
    ok = not missing and not ps
    why = []
    if missing:
        why.append('the cached value is computed from the parameter(s) %s, which the key `%s` does not contain unmodified: two calls with different %s '
                   'that map to the same key get the value computed for the first' % (', '.join(missing), norm(kx), '/'.join(missing)))
    if ps:
        why.append('the cached value depends on process state (%s)' % ', '.join(ps))
    return Ob(rid, '%s|memo %s[%s]' % (fi.qual, D, norm(keyexpr)), ok, ctx.loc(fi, stmt), '; '.join(why))


def _lazy(ctx, rid, fi, tgt, stmt):
    exprs, used = _slice(ctx, fi, stmt.value, stmt)
    cq_list = type_classes(ctx.t.expr_type(tgt.value, fi))
    bad = _mutable_inputs(ctx, fi, exprs, tgt.attr)
    unreset = []
    for cq, attr, w in bad:
        if not any(_resets(ctx, w.fi, c2, tgt.attr) for c2 in (cq_list or [cq])):
            unreset.append('%s.%s (rewritten by %s)' % (cq.split('.')[-1], attr, w.fi.qual))
    used.discard('self')
    why = []
    if unreset:
        why.append('`%s` is computed once from %s and never reset when that changes: every later use gets the value of the first computation' % (
            norm(tgt), '; '.join(unreset[:4])))
    if used and not _is_ctor(fi):
        why.append('`%s` is computed once from the argument(s) %s of the first call' % (norm(tgt), ', '.join(sorted(used))))
    return Ob(rid, '%s|lazy %s' % (fi.qual, norm(tgt)), not why, ctx.loc(fi, stmt), '; '.join(why))


def _mk(module, prop):
    @rule('SA-CACHE.coherent.' + module)
    @props(prop)
    def f(ctx, _m=module):
        return _analyse(ctx, _m)
    f.__name__ = 'cache_' + module
    return f


for _m, _p in sorted(MODULE_PROPS.items()):
    _mk(_m, _p)
