"""SA-RESHUFFLE: the recomputation pass (_reshuffle_extents) is pure and isolated (C06).

D := the set of (class, attribute) assigned by anything reachable from _reshuffle_extents and written
     nowhere else except by constructors / parsers (the *derived* state: extents, path-table
     locations, CE block locations, tag locations, hybrid LBAs, ...).
SA-RESHUFFLE.pure       no write reachable from the pass to an attribute is an augmented assignment or a
                        container mutation (a second run must recompute the same values), and no plain
                        assignment of a derived attribute reads the attribute it writes.
SA-RESHUFFLE.isolation  no function reachable from a public *edit* other than through the pass reads an
                        attribute in D (directly or through an accessor that returns it): edits must not
                        depend on whether recomputation has already happened.
SA-RESHUFFLE.flag       every public method that writes state the pass reads marks the metadata stale on
                        every normal exit (passes _finish_add / _finish_remove, or runs the pass itself).
"""
import ast

from ..registry import rule, props
from ..report import Ob
from ..model import norm, type_classes, AnalysisError
from .. import effects
from .. import cfg as cfgmod

ROOT = 'pycdlib.PyCdlib._reshuffle_extents'
NOT_DERIVED = {('headervd.PrimaryOrSupplementaryVD', 'space_size')}


def _is_ctor_or_parse(fi):
    return fi.name in ('__init__', 'parse', 'new', 'copy', '_initialize') or fi.name.startswith(('parse', 'new_', '_new'))


def derived(ctx):
    c = getattr(ctx, '_derived', None)
    if c is not None:
        return c
    root = ctx.func(ROOT)
    R = ctx.reachable_from([root])
    assigned = {}
    for q in R:
        fi = ctx.m.functions[q]
        if '<locals>' in q:
            continue
        for w in effects.direct_writes(ctx, fi):
            if w.kind == 'assign' and isinstance(w.node, ast.Attribute):
                for cl in w.classes:
                    assigned.setdefault((cl, w.attr), []).append(w)
    D = set(assigned) - NOT_DERIVED
    # attributes that edits maintain incrementally (aug-assign / other writers outside the pass) are not derived
    for fi in ctx.m.pkg_functions():
        if fi.qual in R or _is_ctor_or_parse(fi):
            continue
        for w in effects.direct_writes(ctx, fi):
            for cl in w.classes:
                if (cl, w.attr) in D:
                    D.discard((cl, w.attr))
    D = set(d for d in D if '<locals>' not in d[0])
    if len(D) < 25:
        raise AnalysisError('anchor-vanished: derived attribute set too small (%d)' % len(D))
    # accessors: methods that return a derived attribute of self
    acc = {}
    for fi in ctx.m.pkg_functions():
        if fi.cls is None:
            continue
        for n in ctx.own_nodes(fi):
            if isinstance(n, ast.Return) and n.value is not None:
                for sub in ast.walk(n.value):
                    if isinstance(sub, ast.Attribute) and isinstance(sub.value, ast.Name) and sub.value.id == 'self' and \
                            (fi.cls.qual, sub.attr) in D:
                        acc[fi.qual] = (fi.cls.qual, sub.attr)
    ctx._derived = (R, D, acc)
    return ctx._derived


@rule('SA-RESHUFFLE.pure')
@props('C06')
def pure(ctx):
    R, D, acc = derived(ctx)
    obs = []
    n = 0
    for q in sorted(R):
        fi = ctx.m.functions[q]
        if '<locals>' in q or fi.module == 'pycdlibexception':
            continue
        for w in effects.direct_writes(ctx, fi):
            if not isinstance(w.node, (ast.Attribute, ast.Subscript, ast.Call)):
                continue
            if isinstance(w.node, ast.Name):
                continue
            n += 1
            key = '%s|%s' % (q, norm(w.stmt)[:100])
            if w.kind in ('aug', 'mutate', 'del'):
                # accumulation into object state inside the pass
                local_recv = isinstance(w.recv, ast.Name) and w.recv.id not in ('self',) and not w.classes
                if w.kind == 'mutate' and isinstance(w.recv, ast.Name) and w.recv.id != 'self' and not type_classes(ctx.t.expr_type(w.recv, fi)):
                    continue     # a local list/set
                obs.append(Ob('SA-RESHUFFLE.pure', key, False, ctx.loc(fi, w.node),
                              'the recomputation pass %s object state (%s.%s): running it twice does not give the same result'
                              % ('accumulates into' if w.kind == 'aug' else 'mutates a container of', '/'.join(c.split('.')[-1] for c in w.classes) or '?', w.attr)))
                continue
            if w.kind == 'assign' and w.value is not None:
                selfread = any(isinstance(s, ast.Attribute) and s.attr == w.attr and norm(s.value) == norm(w.recv)
                               for s in ast.walk(w.value))
                obs.append(Ob('SA-RESHUFFLE.pure', key, not selfread, ctx.loc(fi, w.node),
                              '' if not selfread else 'derived attribute %s is recomputed from its own previous value' % w.attr))
    if n < 30:
        raise AnalysisError('anchor-vanished: writes of the recomputation pass (%d)' % n)
    return obs


def edit_entry_points(ctx):
    pc = ctx.cls('pycdlib.PyCdlib')
    out = []
    for name, fi in sorted(pc.methods.items()):
        if name.startswith('_') or name in ('open', 'open_fp', 'new', 'close', 'write', 'write_fp', 'force_consistency'):
            continue
        out.append(fi)
    return out


@rule('SA-RESHUFFLE.isolation')
@props('C06')
def isolation(ctx):
    R, D, acc = derived(ctx)
    pc = ctx.cls('pycdlib.PyCdlib')
    # functions reachable from public *edits* without passing through the pass
    edits = []
    for fi in edit_entry_points(ctx):
        reach = ctx.reachable_from([fi], stop=(ROOT,), include_candidates=False)
        if 'pycdlib.PyCdlib._finish_add' in reach or 'pycdlib.PyCdlib._finish_remove' in reach:
            edits.append(fi)
    if len(edits) < 10:
        raise AnalysisError('anchor-vanished: public edit methods (%d)' % len(edits))
    E = {}
    for fi in edits:
        for q, via in ctx.reachable_from([fi], stop=(ROOT,), include_candidates=False).items():
            E.setdefault(q, fi.name)
    obs = []
    nfun = 0
    for q in sorted(E):
        if q in R:
            continue
        fi = ctx.m.functions[q]
        if _is_ctor_or_parse(fi) and fi.cls is not pc:
            continue
        nfun += 1
        reads = []
        for n in ctx.own_nodes(fi):
            if isinstance(n, ast.Attribute) and isinstance(n.ctx, ast.Load):
                bt = ctx.t.expr_type(n.value, fi)
                for cl in type_classes(bt):
                    if (cl, n.attr) in D:
                        reads.append((n, '%s.%s' % (cl.split('.')[-1], n.attr)))
        for c in ctx.calls(fi):
            for cal in c.callees:
                if cal.qual in acc:
                    reads.append((c.node, '%s() -> %s.%s' % (cal.qual.split('.', 1)[1], acc[cal.qual][0].split('.')[-1], acc[cal.qual][1])))
        seen = set()
        for node, what in reads:
            key = '%s|reads %s' % (q, what)
            if key in seen:
                continue
            seen.add(key)
            obs.append(Ob('SA-RESHUFFLE.isolation', key, False, ctx.loc(fi, node),
                          '%s runs as part of an edit (e.g. %s) and reads derived state %s: what the edit does then depends on whether the '
                          'metadata happened to be recomputed before it' % (q, E[q], what)))
        if not reads:
            obs.append(Ob('SA-RESHUFFLE.isolation', q, True, ctx.loc(fi, fi.node)))
    if nfun < 40:
        raise AnalysisError('anchor-vanished: edit-path functions (%d)' % nfun)
    return obs


@rule('SA-RESHUFFLE.flag')
@props('C06', 'C11', 'C12')
def flag(ctx):
    R, D, acc = derived(ctx)
    pc = ctx.cls('pycdlib.PyCdlib')
    # what the pass reads
    Rreads = set()
    for q in R:
        fi = ctx.m.functions[q]
        for n in ctx.own_nodes(fi):
            if isinstance(n, ast.Attribute) and isinstance(n.ctx, ast.Load):
                bt = ctx.t.expr_type(n.value, fi)
                for cl in type_classes(bt):
                    Rreads.add((cl, n.attr))
    Rreads -= D
    obs = []
    n = 0
    markers, partial_markers = _marker_names(ctx)
    if len(markers | partial_markers) < 2:
        raise AnalysisError('anchor-vanished: methods that mark the metadata stale (%d)' % len(markers | partial_markers))
    from .. import vbm
    eng = vbm.VBM(ctx)
    eng._compute_returns_fresh(list(ctx.m.pkg_functions()))
    for fi in edit_entry_points(ctx):
        reach = ctx.reachable_from([fi], stop=(ROOT,), include_candidates=False)
        writes = set()
        for q in reach:
            f2 = ctx.m.functions[q]
            if q in R and q != fi.qual:
                continue
            if f2.cls is not None and f2.cls is not pc and _is_ctor_or_parse(f2):
                continue      # building a fresh object
            fresh = eng.fresh_locals(f2)
            for w in effects.direct_writes(ctx, f2):
                if isinstance(w.node, ast.Name):
                    continue
                if eng.root_of(f2, w.recv, fresh) == 'FRESH':
                    continue      # a temporary built in that function (e.g. a search key)
                for cl in w.classes:
                    if (cl, w.attr) in Rreads:
                        writes.add('%s.%s' % (cl.split('.')[-1], w.attr))
        if not writes:
            continue
        n += 1
        g = ctx.cfg(fi)

        def marks(node):
            for e in cfgmod.node_exprs(node):
                for sub in ast.walk(e):
                    if isinstance(sub, ast.Call) and isinstance(sub.func, ast.Attribute) and (sub.func.attr in markers or sub.func.attr == '_reshuffle_extents'):
                        return True
                    if isinstance(sub, ast.Call):
                        # a callee that itself always marks (e.g. add_file -> add_fp)
                        cs, kind = ctx.t._resolve(sub, fi)
                        if kind == 'method':
                            for cal in cs:
                                if cal.cls is pc and not cal.name.startswith('_') and _always_marks(ctx, cal):
                                    return True
            return False

        def transfer(node, st, lab):
            return True if marks(node) else st
        # ... and the mark comes last: a direct write, in the entry point itself, of state the pass reads must still be
        # followed by a mark on every path (in always-consistent mode the mark *is* the pass; what is written after it is
        # seen by no pass until the next edit)
        fresh_fi = eng.fresh_locals(fi)
        for w in effects.direct_writes(ctx, fi):
            if isinstance(w.node, ast.Name) or eng.root_of(fi, w.recv, fresh_fi) == 'FRESH':
                continue
            hit = [cl for cl in w.classes if (cl, w.attr) in Rreads]
            if not hit:
                continue
            if w.kind == 'assign' and isinstance(w.value, ast.Constant) and w.value.value is None:
                continue      # detaching an object the pass would have updated leaves nothing for it to update
            wn = g.node_of(w.stmt)
            if wn is None:
                continue

            def tr2(node, st, lab):
                if node is wn:
                    return st
                return False if marks(node) else st
            IN2 = g.forward(True, tr2, lambda a, b: a or b, start=wn)
            late = bool(IN2.get(g.exit.id))
            obs.append(Ob('SA-RESHUFFLE.flag', '%s|%s is followed by the mark' % (fi.qual, norm(w.stmt)[:60]), not late, ctx.loc(fi, w.node),
                          '' if not late else '%s writes %s.%s, which the recomputation pass reads, on a path on which no _finish_add/_finish_remove follows any more: '
                          'in always-consistent mode the pass has already run and does not see it (lazy mode runs it later and does), so the two modes master '
                          'different images' % (fi.name, hit[0].split('.')[-1], w.attr)))
        IN = g.forward(False, transfer, lambda a, b: a and b)
        ok = bool(IN[g.exit.id])
        obs.append(Ob('SA-RESHUFFLE.flag', fi.qual, ok, ctx.loc(fi, fi.node),
                      '' if ok else '%s changes state the recomputation pass reads (%s) but a normal exit does not pass _finish_add/_finish_remove: '
                      'the derived values stay as they were; after a consistency point (or in always-consistent mode) the image is mastered with stale ones'
                      % (fi.name, ', '.join(sorted(writes)[:5]))))
    if n < 10:
        raise AnalysisError('anchor-vanished: public methods writing state read by the pass (%d)' % n)
    # the marker functions themselves: every normal exit has run the pass or set the stale flag
    for mname in sorted(markers | partial_markers):
        mf = pc.methods[mname]
        ok = mname in markers
        obs.append(Ob('SA-RESHUFFLE.flag', 'pycdlib.PyCdlib.%s|marks on every exit' % mname, ok, ctx.loc(mf, mf.node),
                      '' if ok else '%s is what edits rely on to invalidate the derived metadata, but some normal exit neither runs the recomputation pass nor sets '
                      '_needs_reshuffle: an edit that takes that exit is mastered with the layout computed before it' % mname))
    return obs


def _marker_names(ctx):
    """names of PyCdlib methods every normal exit of which has run the pass or set the stale flag
    (computed, not listed: renaming _finish_add does not blind the rule); second result: methods that do so
    on some normal exit only."""
    c = getattr(ctx, '_marker_names', None)
    if c is not None:
        return c
    pc = ctx.cls('pycdlib.PyCdlib')
    total, partial = set(), set()
    for _ in range(3):
        for name, mf in pc.methods.items():
            if name == '_reshuffle_extents' or not name.startswith('_') or name.startswith('__'):
                continue
            g = ctx.cfg(mf)

            def hit(node):
                for e in cfgmod.node_exprs(node):
                    for sub in ast.walk(e):
                        if isinstance(sub, ast.Call) and isinstance(sub.func, ast.Attribute) and \
                                (sub.func.attr == '_reshuffle_extents' or sub.func.attr in total):
                            return True
                stn = node.stmt
                return node.kind == 'stmt' and isinstance(stn, ast.Assign) and any(norm(t) == 'self._needs_reshuffle' for t in stn.targets) and \
                    isinstance(stn.value, ast.Constant) and stn.value.value is True

            def sets_flag(node):
                stn = node.stmt
                return node.kind == 'stmt' and isinstance(stn, ast.Assign) and any(norm(t) == 'self._needs_reshuffle' for t in stn.targets) and \
                    isinstance(stn.value, ast.Constant) and stn.value.value is True
            # candidates are the functions that set the flag themselves (or delegate to one that always does);
            # functions that merely *consume* it (`if self._needs_reshuffle: self._reshuffle_extents()`) are not markers
            delegates = any(isinstance(sub, ast.Call) and isinstance(sub.func, ast.Attribute) and sub.func.attr in total
                            for n in g.nodes for e in cfgmod.node_exprs(n) for sub in ast.walk(e))
            if not any(sets_flag(n) for n in g.nodes) and not delegates:
                continue

            def tr(node, st, lab):
                if lab in ('exc', 'callexc'):
                    return st
                return True if hit(node) else st
            IN = g.forward(False, tr, lambda a, b: a and b)
            if IN.get(g.exit.id):
                total.add(name)
                partial.discard(name)
            else:
                partial.add(name)
    ctx._marker_names = (total, partial)
    return ctx._marker_names


def _always_marks(ctx, fi, depth=0):
    if depth > 2:
        return False
    g = ctx.cfg(fi)

    def transfer(node, st, lab):
        for e in cfgmod.node_exprs(node):
            for sub in ast.walk(e):
                if isinstance(sub, ast.Call) and isinstance(sub.func, ast.Attribute) and (sub.func.attr in _marker_names(ctx)[0] or sub.func.attr == '_reshuffle_extents'):
                    return True
        return st
    IN = g.forward(False, transfer, lambda a, b: a and b)
    return bool(IN[g.exit.id])


@rule('SA-RESHUFFLE.mustwrite')
@props('C06', 'C11', 'C12')
def mustwrite(ctx):
    """Inside the pass every update of an object's own derived fields is unconditional with respect to the
    arguments: a `self.<field> = ...` reachable from _reshuffle_extents may be skipped by a feature test
    (`self.efi`, `x is not None`) or a refusal (raise), but not by a test on the method's parameters
    ("nothing changed, skip"): the fields written after such a test usually depend on more inputs than the
    test compares (image size, other extents), and they keep their old values when only those changed."""
    from .. import expand as ex
    R, D, acc = derived(ctx)
    obs = []
    nfun = 0
    for q in sorted(R):
        fi = ctx.m.functions[q]
        if '<locals>' in q or fi.cls is None:
            continue
        params = set(p.lstrip('*') for p in fi.params[1:])
        if not params:
            continue
        par = ctx.parents(fi)
        stores = []
        for n in ctx.own_nodes(fi):
            if isinstance(n, (ast.Assign, ast.AugAssign)):
                tg = n.targets if isinstance(n, ast.Assign) else [n.target]
                for t in tg:
                    root = t
                    while isinstance(root, (ast.Attribute, ast.Subscript)):
                        root = root.value
                    if isinstance(t, ast.Attribute) and isinstance(root, ast.Name) and root.id == 'self':
                        stores.append((n, t))
        if not stores:
            continue
        nfun += 1
        bad = {}
        for st, t in stores:
            # enclosing tests and earlier `if c: return/continue/break` in enclosing blocks
            cur = st
            while True:
                p = par.get(id(cur))
                if p is None:
                    break
                for fld in ('body', 'orelse', 'finalbody'):
                    blk = getattr(p, fld, None)
                    if isinstance(blk, list) and any(s is cur for s in blk):
                        for s in blk:
                            if s is cur:
                                break
                            if isinstance(s, ast.If) and not s.orelse and s.body and isinstance(s.body[-1], (ast.Return, ast.Continue, ast.Break)):
                                names = set(x.id for x in ast.walk(s.test) if isinstance(x, ast.Name))
                                after = blk[[i for i, z in enumerate(blk) if z is s][0] + 1:]
                                used = set(x.id for z in after for x in ast.walk(z) if isinstance(x, ast.Name)) & params
                                if names & params and used - names:
                                    bad.setdefault(norm(s.test), (s, [], sorted(used - names)))[1].append(norm(t))
                        if isinstance(p, ast.If):
                            names = set(x.id for x in ast.walk(p.test) if isinstance(x, ast.Name))
                            used = set(x.id for z in blk for x in ast.walk(z) if isinstance(x, ast.Name)) & params
                            if names & params and not _is_none_test(p.test) and used - names:
                                bad.setdefault(norm(p.test), (p, [], sorted(used - names)))[1].append(norm(t))
                        break
                if p is fi.node:
                    break
                cur = p
        for test, (node, tgts, other) in sorted(bad.items()):
            obs.append(Ob('SA-RESHUFFLE.mustwrite', '%s|%s' % (q, test), False, ctx.loc(fi, node),
                          '%s runs inside the recomputation pass, but whether it updates %s depends on a test of some of its arguments (`%s`) while the '
                          'skipped updates also use %s: those fields keep their previous values when only the uncompared input changed, '
                          'e.g. after an edit that changes the image size but leaves this object where it was'
                          % (q, ', '.join(sorted(set(tgts))[:5]), test, ', '.join('`%s`' % o for o in other))))
        if not bad:
            obs.append(Ob('SA-RESHUFFLE.mustwrite', q, True, ctx.loc(fi, fi.node)))
    if nfun < 20:
        raise AnalysisError('anchor-vanished: updating methods inside the pass (%d)' % nfun)
    return obs


def _is_none_test(t):
    return isinstance(t, ast.Compare) and len(t.ops) == 1 and isinstance(t.ops[0], (ast.Is, ast.IsNot)) and \
        isinstance(t.comparators[0], ast.Constant) and t.comparators[0].value is None
