"""F-20.7: pycdlib-genisoimage without -R/-udf skips symbolic links ("ignored - continuing") but then
still applied -hidden to `iso_path`, a variable the skipped entry never assigned: the previous entry's
path (the wrong file / the parent directory) was hidden, or - when the argument itself is a symlink -
the tool died with UnboundLocalError.  usage: F20_7_hidden_ignored_symlink.py [repo]"""
import os, subprocess, sys, tempfile, shutil
repo = sys.argv[1] if len(sys.argv) > 1 else '/repo'
d = tempfile.mkdtemp()
try:
    os.mkdir(os.path.join(d, 'tree'))
    open(os.path.join(d, 'tree', 'a.txt'), 'w').write('hi\n')
    os.symlink('tree', os.path.join(d, 'lnk'))
    r = subprocess.run([sys.executable, os.path.join(repo, 'tools', 'pycdlib-genisoimage'), '-o', os.path.join(d, 'o.iso'),
                        '-hidden', 'lnk', os.path.join(d, 'lnk')], capture_output=True, text=True, env=dict(os.environ, PYTHONPATH=repo))
    if r.returncode != 0 or 'Error' in r.stderr:
        print(r.stderr.strip().splitlines()[-1]); print('FAIL'); sys.exit(1)
    if 'Hidden ISO9660 attribute' in r.stdout + r.stderr:
        print('an ignored symlink was "hidden" (through a stale path)'); print('FAIL'); sys.exit(1)
    print('OK')
finally:
    shutil.rmtree(d)
