"""SA-VBM.prevalidate: an up-front resolution covers every later use of the argument it resolves (C14).

Editing methods that touch several namespaces add the entries one namespace after the other; they are made
atomic by resolving the later namespaces' destinations *before* the first mutation: a call of a
value-returning, side-effect-free resolver whose result is thrown away (`self._udf_name_and_parent_from_path(
utils.normpath(udf_path))` as a statement) exists only for its refusal.  Such a statement protects the later
statements that hand the same parameter to the mutating code - but only on the paths on which it executes.

For every such validation statement V (a call statement whose callee leaves nothing changed and can refuse -
whether it returns the resolved destination or nothing, as the `_check_*_destination` helpers do -
arguments built from parameters P of the enclosing function) and every later statement U of the function that
passes one of P to a call: every parameter-only condition governing V (enclosing tests, with polarity) is
also among the conditions governing U.  `if joliet_path: V_j  elif udf_path: V_u` puts V_u under
`not joliet_path`, while the UDF entry is added under `udf_path` alone: with both paths given the UDF
destination is no longer resolved up front and its refusal arrives after the ISO9660 and Joliet entries exist.
"""
import ast

from ..registry import rule, props
from ..report import Ob
from ..model import norm, AnalysisError
from .. import effects
from .. import expand as ex

MIN_VALIDATIONS = 4


def _pure(ctx, f, memo):
    """f (and everything it calls) leaves no object changed on normal return and can refuse: decided by the
    validate-before-mutate engine's summaries (normal-exit write set empty, at least one escaping
    PyCdlibInvalidInput)"""
    from .vbmrule import run_engine
    eng = run_engine(ctx)
    sm = eng.summ.get(f.qual)
    if sm is None:
        return False
    normal, events = sm
    return not normal and any(k[1] == 'PyCdlibInvalidInput' for k, _r, _o in events)


def _names(e):
    return set(n.id for n in ast.walk(e) if isinstance(n, ast.Name))


def _param_facts(ctx, fi, stmt, params, enclosing_only):
    out = set()
    for test, pol, _at in ex.conditions(ctx, fi, stmt, enclosing_only):
        for t, p in ex.conjuncts(test, pol):
            nm = _names(t)
            if nm and nm <= params:
                out.add((norm(t), p))
    return out


@rule('SA-VBM.prevalidate')
@props('C14')
def prevalidate(ctx):
    obs = []
    memo = {}
    nval = 0
    for fi in ctx.m.pkg_functions():
        if fi.cls is None or fi.cls.qual != 'pycdlib.PyCdlib':
            continue
        params = set(p.lstrip('*') for p in fi.params) - {'self'}
        vals = []
        for n in ctx.own_nodes(fi):
            if not (isinstance(n, ast.Expr) and isinstance(n.value, ast.Call)):
                continue
            callees, kind = ctx.t._resolve(n.value, fi)
            callees = [f for f in (callees or ()) if hasattr(f, 'rtype')]
            if not callees or not all(_pure(ctx, f, memo) for f in callees):
                continue
            used = set()
            for a in list(n.value.args) + [k.value for k in n.value.keywords]:
                used |= _names(ex.expand(ctx, fi, a, n)) & params
            if used:
                vals.append((n, used))
        if not vals:
            continue
        g = ctx.cfg(fi)
        for v, used in vals:
            nval += 1
            vfacts = _param_facts(ctx, fi, v, params, True)
            vnode = g.node_of(v)
            # statements after V that pass one of the validated parameters to a call
            later = []
            for n in ctx.own_nodes(fi):
                if isinstance(n, ast.Call) and n is not v.value:
                    argn = set()
                    for a in list(n.args) + [k.value for k in n.keywords]:
                        argn |= _names(a)
                    if argn & used:
                        st = ctx.enclosing_stmt(fi, n)
                        if st is not v and st.lineno > v.lineno and not (isinstance(st, ast.Expr) and any(st is x for x, _u in vals)):
                            later.append((st, n))
            seen = set()
            for st, call in later:
                if id(st) in seen:
                    continue
                seen.add(id(st))
                ufacts = _param_facts(ctx, fi, st, params, False)
                # the statement's own test, when it is an if/while using the parameter in its test, is not a use under that test
                missing = sorted(f for f in vfacts if f not in ufacts)
                key = '%s|%s covers %s' % (fi.qual, norm(v.value.func), norm(call.func))
                obs.append(Ob('SA-VBM.prevalidate', key, not missing, ctx.loc(fi, st),
                              '' if not missing else 'the up-front resolution `%s` (line %d) only runs when %s, but `%s` (line %d) uses %s without that condition: '
                              'on those calls the destination is not resolved before the first entry is added, and a refusal (missing parent, parent is a file, '
                              'namespace absent) arrives after the image object was changed' % (
                                  norm(v)[:80], v.lineno, ' and '.join(('%s' if p else 'not (%s)') % t for t, p in missing),
                                  norm(call)[:60], st.lineno, ', '.join(sorted(used)))))
    if nval < MIN_VALIDATIONS:
        raise AnalysisError('anchor-vanished: up-front resolution statements (%d)' % nval)
    return obs
