#!/usr/bin/env python
"""
Observation E1: two names that are equal in their first 64 UTF-16 units
collide in the Joliet tree; pycdlib-genisoimage dies on them instead of
producing an image whose views reproduce the source tree.

usage: W5_genisoimage_joliet_collision.py <path-to-checkout>
"""
import os
import subprocess
import sys
import tempfile

CHECKOUT = os.path.abspath(sys.argv[1])
sys.path.insert(0, CHECKOUT)


def run_tool(tool, args):
    """Run a tool of the checkout; returns (exit code, output)."""
    env = dict(os.environ)
    env['PYTHONPATH'] = CHECKOUT
    proc = subprocess.run([sys.executable, os.path.join(CHECKOUT, 'tools', tool)] + args,
                          stdout=subprocess.PIPE, stderr=subprocess.STDOUT, env=env,
                          universal_newlines=True, check=False)
    return proc.returncode, proc.stdout


def snapshot(top):
    """The tree below top as {relative path: ('d',) | ('l', target) | ('f', contents)}."""
    result = {}
    for root, dirs, files in os.walk(top):
        for name in dirs + files:
            full = os.path.join(root, name)
            rel = os.path.relpath(full, top)
            if os.path.islink(full):
                result[rel] = ('l', os.readlink(full))
            elif os.path.isdir(full):
                result[rel] = ('d',)
            else:
                with open(full, 'rb') as infp:
                    result[rel] = ('f', infp.read())
    return result


def last_line(output):
    lines = [line for line in output.splitlines() if line.strip()]
    return lines[-1] if lines else ''


def main():
    problems = []
    with tempfile.TemporaryDirectory() as tmp:
        src = os.path.join(tmp, 'src')
        os.makedirs(os.path.join(src, 'sub'))
        names = ['j' * 70 + 'A', 'j' * 70 + 'B', 'j' * 70 + 'C.txt', 'short.txt']
        for name in names:
            with open(os.path.join(src, name), 'wb') as outfp:
                outfp.write(('contents of %s\n' % name).encode())
        # the same for directories
        for name in ('d' * 64 + '_one', 'd' * 64 + '_two'):
            os.makedirs(os.path.join(src, 'sub', name))
            with open(os.path.join(src, 'sub', name, 'f.txt'), 'wb') as outfp:
                outfp.write(name.encode())
        want = snapshot(src)

        image = os.path.join(tmp, 'out.iso')
        code, output = run_tool('pycdlib-genisoimage', ['-quiet', '-J', '-R', '-o', image, src])
        if code != 0:
            problems.append('pycdlib-genisoimage -J -R failed (exit %d): %s' % (code, last_line(output)))
        else:
            # Rock Ridge keeps the full names.
            dest = os.path.join(tmp, 'rr')
            os.makedirs(dest)
            code, output = run_tool('pycdlib-extract-files', ['-path-type', 'rockridge', '-extract-to', dest, image])
            if code != 0:
                problems.append('extracting the Rock Ridge view failed: %s' % last_line(output))
            elif snapshot(dest) != want:
                problems.append('Rock Ridge view differs from the source tree')

            # Joliet cuts the names, but every file and directory has to be
            # there exactly once, under a distinct name that starts like the
            # source name, with the right contents.
            dest = os.path.join(tmp, 'joliet')
            os.makedirs(dest)
            code, output = run_tool('pycdlib-extract-files', ['-path-type', 'joliet', '-extract-to', dest, image])
            if code != 0:
                problems.append('extracting the Joliet view failed: %s' % last_line(output))
            else:
                got = snapshot(dest)
                if len(got) != len(want):
                    problems.append('Joliet view has %d entries, source tree %d' % (len(got), len(want)))
                for rel, entry in got.items():
                    if any(len(part.encode('utf-16_be')) > 128 for part in rel.split(os.sep)):
                        problems.append('Joliet name longer than 64 units: %s' % rel)
                contents = sorted(entry[1] for entry in got.values() if entry[0] == 'f')
                if contents != sorted(entry[1] for entry in want.values() if entry[0] == 'f'):
                    problems.append('Joliet view does not have the file contents of the source tree')

    if problems:
        for problem in problems:
            print(problem)
        return 1
    print('OK')
    return 0


if __name__ == '__main__':
    sys.exit(main())
