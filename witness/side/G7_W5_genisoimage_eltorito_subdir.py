"""
pycdlib-genisoimage cannot use a boot image or boot catalog that lives below
the top directory: '-b isolinux/boot.img -c isolinux/boot.cat' never matches
the directory 'isolinux', add_eltorito() is called with an empty path and the
tool dies with 'Must be a path starting with /'.
"""
import os
import shutil
import struct
import subprocess
import sys
import tempfile

checkout = os.path.abspath(sys.argv[1])
sys.path.insert(0, checkout)
import pycdlib  # noqa: E402


def boot_images(isoname):
    """The first 16 bytes of the initial (and the first section) boot image."""
    images = []
    with open(isoname, 'rb') as infp:
        infp.seek(17 * 2048)
        record = infp.read(2048)
        if record[7:30] != b'EL TORITO SPECIFICATION':
            return None
        (catalog_extent,) = struct.unpack_from('<L', record, 0x47)
        infp.seek(catalog_extent * 2048)
        catalog = infp.read(2048)
        offsets = [32]
        if catalog[64] in (0x90, 0x91):
            offsets.append(96)
        for offset in offsets:
            (rba,) = struct.unpack_from('<L', catalog, offset + 8)
            infp.seek(rba * 2048)
            images.append(infp.read(16))
    return images


def main():
    tmpdir = tempfile.mkdtemp()
    problems = []
    try:
        src = os.path.join(tmpdir, 'src')
        contents = {
            'top.img': b'top-level-image!',
            'isolinux/boot.img': b'isolinux-bootimg',
            'boot/grub/efi.img': b'grub-efi-image!!',
            'other/isolinux/boot.img': b'not-this-one!!!!',
            'readme.txt': b'hello',
        }
        for name, data in contents.items():
            full = os.path.join(src, *name.split('/'))
            if not os.path.isdir(os.path.dirname(full)):
                os.makedirs(os.path.dirname(full))
            with open(full, 'wb') as outfp:
                outfp.write(data.ljust(2048, b'\0'))

        tool = os.path.join(checkout, 'tools', 'pycdlib-genisoimage')
        env = dict(os.environ, PYTHONPATH=checkout)
        isoname = os.path.join(tmpdir, 'out.iso')
        cases = (
            (['-b', 'top.img', '-c', 'boot.cat', '-no-emul-boot'],
             ['top.img'], '/BOOT.CAT;1'),
            (['-b', 'isolinux/boot.img', '-c', 'isolinux/boot.cat', '-no-emul-boot'],
             ['isolinux/boot.img'], '/ISOLINUX/BOOT.CAT;1'),
            (['-b', 'isolinux/boot.img', '-c', 'boot.cat', '-no-emul-boot'],
             ['isolinux/boot.img'], '/BOOT.CAT;1'),
            (['-b', 'boot/grub/efi.img', '-c', 'boot/boot.cat', '-no-emul-boot'],
             ['boot/grub/efi.img'], '/BOOT/BOOT.CAT;1'),
            (['-R', '-J', '-b', 'isolinux/boot.img', '-c', 'isolinux/boot.cat', '-no-emul-boot',
              '-eltorito-alt-boot', '-e', 'boot/grub/efi.img', '-no-emul-boot'],
             ['isolinux/boot.img', 'boot/grub/efi.img'], '/ISOLINUX/BOOT.CAT;1'),
        )
        for opts, bootfiles, catalog in cases:
            label = ' '.join(opts)
            if os.path.exists(isoname):
                os.unlink(isoname)
            proc = subprocess.run([sys.executable, tool, '-quiet'] + opts + ['-o', isoname, src],
                                  env=env, stdout=subprocess.PIPE,
                                  stderr=subprocess.PIPE, universal_newlines=True)
            if proc.returncode != 0:
                lines = proc.stderr.strip().splitlines() or ['(no stderr)']
                problems.append('genisoimage %s exited with %d: %s' % (label, proc.returncode, lines[-1]))
                continue
            images = boot_images(isoname)
            want = [contents[name] for name in bootfiles]
            if images != want:
                problems.append('genisoimage %s: boot catalog points at %r, expected %r' % (label, images, want))
            iso = pycdlib.PyCdlib()
            iso.open(isoname)
            try:
                iso.get_record(iso_path=catalog)
            except pycdlib.pycdlibexception.PyCdlibInvalidInput:
                problems.append('genisoimage %s: no boot catalog at %s' % (label, catalog))
            finally:
                iso.close()
    finally:
        shutil.rmtree(tmpdir, ignore_errors=True)

    if problems:
        for problem in problems:
            print(problem)
        return 1
    print('OK')
    return 0


if __name__ == '__main__':
    sys.exit(main())
