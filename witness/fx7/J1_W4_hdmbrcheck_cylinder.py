# Observation D: the geometry check done by add_eltorito(media_name='hdemul')
# decodes the 10 bit cylinder number of the partition's CHS end address wrongly
# (high bits shifted by 10 instead of 2), so a correct hard disk image with more
# than 256 cylinders draws "image size does not match geometry", and a wrong
# one can pass.
import io
import logging
import os
import struct
import sys
import tempfile

sys.path.insert(0, sys.argv[1])

import pycdlib


class Collect(logging.Handler):
    def __init__(self):
        logging.Handler.__init__(self)
        self.messages = []

    def emit(self, record):
        self.messages.append(record.getMessage())


def hdimage(cylinders, heads, sectors, total_sectors):
    # one active partition from CHS 0/1/1 to the last sector of the geometry
    cyl = cylinders - 1
    e_seccyl = sectors | ((cyl >> 8) << 6)
    part = struct.pack('<BBBBBBBBLL', 0x80, 1, 1, 0, 0x0c, heads - 1, e_seccyl, cyl & 0xff,
                       sectors, cylinders * heads * sectors - sectors)
    mbr = b'\x00' * 446 + part + b'\x00' * 48 + b'\x55\xaa'
    return mbr + b'\x00' * (total_sectors * 512 - 512)


def warnings_for(image):
    handler = Collect()
    logger = logging.getLogger('pycdlib')
    logger.addHandler(handler)
    old = logger.level
    logger.setLevel(logging.WARNING)
    try:
        iso = pycdlib.PyCdlib()
        iso.new()
        iso.add_fp(io.BytesIO(image), len(image), '/HD.IMG;1')
        iso.add_eltorito('/HD.IMG;1', '/BOOT.CAT;1', media_name='hdemul')
        out = io.BytesIO()
        iso.write_fp(out)
        iso.close()
    finally:
        logger.removeHandler(handler)
        logger.setLevel(old)
    return handler.messages


def main():
    os.chdir(tempfile.mkdtemp())
    problems = []

    # control: 100 cylinders, no high cylinder bits involved
    msgs = warnings_for(hdimage(100, 2, 2, 400))
    if any('geometry' in m for m in msgs):
        problems.append('control image (100 cyl): unexpected %r' % msgs)

    # 300 cylinders x 2 heads x 2 sectors = 1200 sectors, image is 1200 sectors
    msgs = warnings_for(hdimage(300, 2, 2, 1200))
    if any('geometry' in m for m in msgs):
        problems.append('correct 300 cylinder image: %r' % msgs)

    # 1024 cylinders (all high bits set), 2 heads, 1 sector
    msgs = warnings_for(hdimage(1024, 2, 1, 2048))
    if any('geometry' in m for m in msgs):
        problems.append('correct 1024 cylinder image: %r' % msgs)

    # a really mismatching image must still be reported
    msgs = warnings_for(hdimage(300, 2, 2, 1600))
    if not any('geometry' in m for m in msgs):
        problems.append('mismatching 300 cylinder image: no geometry warning')

    if problems:
        for p in problems:
            print(p)
        return 1
    print('OK')
    return 0


sys.exit(main())
