"""Constant-fact specialisation: which raise sites of a callee are still reachable when some
of its arguments are literals?

A tiny forward executor over finite sets of constants (at most MAXSET values per variable,
None = unknown).  It folds `if` tests whose operands are all known, follows both branches
otherwise, tracks locals and `self.<attr>` assigned from known values, and descends into resolved
callees with the argument sets it knows (bounded depth).  It is constant folding, not symbolic
execution: anything it cannot evaluate is "unknown" and every raise below an unknown test stays
feasible.  Sound by construction: a raise site is reported infeasible only if every path to it
passes a test that folds to the other branch for all value combinations.
"""
import ast
import itertools
import struct as _struct

from .model import norm, fold, NotConst
from .engine import raises_class, raise_message

MAXSET = 6
MAXPROD = 48
UNKNOWN = None


class ConstExec:
    def __init__(self, ctx, tracked=('PyCdlibInvalidInput',), max_depth=5):
        self.ctx = ctx
        self.tracked = set(tracked)
        self.max_depth = max_depth
        self.cache = {}

    # ----------------------------------------------------------------- API
    def feasible_raises(self, callee, argsets, depth=0):
        """set of (func qual, class, message) raise keys reachable in callee (and below) for the given
        parameter value sets {param: frozenset|None}; the special element '*' means "gave up: all"."""
        key = (callee.qual, tuple(sorted((k, v) for k, v in argsets.items() if v is not None)))
        if key in self.cache:
            return self.cache[key]
        self.cache[key] = {'*'}          # recursion guard: conservative
        run = _Run(self, callee, depth)
        env = {}
        for p in callee.params:
            p = p.lstrip('*')
            env[p] = argsets.get(p, UNKNOWN)
        run.block(callee.node.body, env)
        self.cache[key] = run.raises
        return run.raises

    def args_from_call(self, caller, call, callee, caller_env=None):
        """{param: frozenset} for literal (or, with caller_env, known) arguments of a call"""
        params = callee.params[1:] if (callee.cls is not None and not callee.is_static) else list(callee.params)
        params = [p.lstrip('*') for p in params]
        out = {}
        ev = _Eval(self.ctx, caller)
        for i, a in enumerate(call.args):
            if i < len(params) and not isinstance(a, ast.Starred):
                v = ev.eval(a, caller_env or {})
                if v is not None:
                    out[params[i]] = v
        for kw in call.keywords:
            if kw.arg in params:
                v = ev.eval(kw.value, caller_env or {})
                if v is not None:
                    out[kw.arg] = v
        # defaults of parameters not passed
        a = callee.node.args
        pos = [x.arg for x in a.posonlyargs + a.args]
        for nm, d in zip(pos[len(pos) - len(a.defaults):], a.defaults):
            if nm in params and nm not in out:
                idx = params.index(nm)
                given = idx < len(call.args) or any(kw.arg == nm for kw in call.keywords) or any(kw.arg is None for kw in call.keywords)
                if not given and isinstance(d, ast.Constant):
                    out[nm] = frozenset([d.value])
        return out


class _Eval:
    def __init__(self, ctx, fi):
        self.ctx = ctx
        self.fi = fi
        self.mi = ctx.m.modules[fi.module]

    def eval(self, node, env):
        """-> frozenset of possible constant values, or None"""
        if isinstance(node, (ast.Dict, ast.List, ast.Set, ast.Tuple)):
            if not (node.keys if isinstance(node, ast.Dict) else node.elts):
                return frozenset([()])      # an empty container: falsy, length 0
        # names / self attributes referenced
        refs = []
        for sub in ast.walk(node):
            if isinstance(sub, ast.Name) and isinstance(sub.ctx, ast.Load):
                refs.append(('n', sub.id))
            elif isinstance(sub, ast.Attribute) and isinstance(sub.value, ast.Name) and sub.value.id == 'self':
                refs.append(('a', 'self.' + sub.attr))
        keys = []
        for kind, k in refs:
            if k in env and k not in keys and env[k] is not None:
                keys.append(k)
        # evaluate for every combination
        sets = [sorted(env[k], key=repr) for k in keys]
        n = 1
        for s in sets:
            n *= max(len(s), 1)
        if n > MAXPROD:
            return None
        out = set()
        for combo in itertools.product(*sets) if sets else [()]:
            binding = dict(zip(keys, combo))
            try:
                v = self._fold(node, binding, env)
            except NotConst:
                return None
            except Exception:
                return None
            try:
                hash(v)
            except TypeError:
                return None
            out.add(v)
            if len(out) > MAXSET:
                return None
        return frozenset(out)

    def _fold(self, node, binding, env):
        # substitute self.attr by pseudo-names
        class Sub(ast.NodeTransformer):
            def visit_Attribute(s, n):
                if isinstance(n.value, ast.Name) and n.value.id == 'self' and ('self.' + n.attr) in binding:
                    return ast.copy_location(ast.Name(id='__self_' + n.attr, ctx=ast.Load()), n)
                return s.generic_visit(n)
        import copy
        n2 = Sub().visit(copy.deepcopy(node))
        e = {}
        for k, v in binding.items():
            e['__self_' + k[5:] if k.startswith('self.') else k] = v
        # a name that is known-unknown in env must not be resolved as a module constant
        for sub in ast.walk(n2):
            if isinstance(sub, ast.Name) and sub.id != 'self' and sub.id in env and env[sub.id] is None and sub.id not in e:
                raise NotConst()
        return _fold_calls(self.ctx, self.fi, n2, e)


def _fold_calls(ctx, fi, node, env):
    """fold() plus zero-argument package calls with a constant return"""
    from . import lenalg
    mi = ctx.m.modules[fi.module]
    try:
        return fold(node, ctx.m, mi, fi.cls, env)
    except NotConst:
        pass
    # replace const-returning calls
    class Rep(ast.NodeTransformer):
        def visit_Call(s, n):
            n = s.generic_visit(n)
            if not n.args and not n.keywords:
                try:
                    cs, kind = ctx.t._resolve(n, fi)
                except Exception:
                    return n
                if kind in ('func', 'method') and len(cs) == 1:
                    v = lenalg.const_return(ctx, cs[0])
                    if v is not None:
                        return ast.copy_location(ast.Constant(value=v), n)
            return n
    import copy
    n2 = Rep().visit(copy.deepcopy(node))
    return fold(n2, ctx.m, mi, fi.cls, env)


class _Run:
    def __init__(self, ce, fi, depth):
        self.ce = ce
        self.ctx = ce.ctx
        self.fi = fi
        self.depth = depth
        self.ev = _Eval(ce.ctx, fi)
        self.raises = set()

    def block(self, stmts, env):
        """returns env at fall-through, or None if no path falls through"""
        cur = env
        for st in stmts:
            if cur is None:
                return None
            cur = self.stmt(st, cur)
        return cur

    def _join(self, a, b):
        if a is None:
            return b
        if b is None:
            return a
        out = {}
        for k in set(a) | set(b):
            va, vb = a.get(k, UNKNOWN), b.get(k, UNKNOWN)
            if k not in a or k not in b or va is None or vb is None:
                out[k] = UNKNOWN
            else:
                u = va | vb
                out[k] = u if len(u) <= MAXSET else UNKNOWN
        return out

    def _kill_assigned(self, node, env):
        e = dict(env)
        for sub in ast.walk(node):
            if isinstance(sub, ast.Name) and isinstance(sub.ctx, ast.Store):
                e[sub.id] = UNKNOWN
            elif isinstance(sub, ast.Attribute) and isinstance(sub.ctx, ast.Store) and isinstance(sub.value, ast.Name) and sub.value.id == 'self':
                e['self.' + sub.attr] = UNKNOWN
            elif isinstance(sub, ast.Call):
                # calls on self may rewrite any attribute
                f = sub.func
                if isinstance(f, ast.Attribute) and isinstance(f.value, ast.Name) and f.value.id == 'self':
                    for k in list(e):
                        if k.startswith('self.'):
                            e[k] = UNKNOWN
        return e

    def _calls(self, node, env):
        """account for the raises of calls inside `node`"""
        for sub in ast.walk(node):
            if not isinstance(sub, ast.Call):
                continue
            try:
                cs, kind = self.ctx.t._resolve(sub, self.fi)
            except Exception:
                continue
            if kind == 'ctor':
                ci = self.ctx.m.classes.get(cs)
                cs = [ci.methods['__init__']] if ci is not None and '__init__' in ci.methods else []
            elif kind not in ('func', 'method'):
                continue
            for callee in cs:
                if self.ctx.m.modules[callee.module].is_tool:
                    continue
                if self.depth >= self.ce.max_depth:
                    # no further specialisation: everything the callee can raise without constant facts
                    self.raises |= self.ce.feasible_raises(callee, {}, 0)
                    continue
                args = self.ce.args_from_call(self.fi, sub, callee, env)
                self.raises |= self.ce.feasible_raises(callee, args, self.depth + 1)

    def stmt(self, st, env):
        if isinstance(st, ast.Expr):
            self._calls(st, env)
            return self._kill_assigned(st, env)
        if isinstance(st, ast.Assign):
            self._calls(st.value, env)
            v = self.ev.eval(st.value, env)
            e = self._kill_assigned(st, env)
            for t in st.targets:
                if isinstance(t, ast.Name):
                    e[t.id] = v
                elif isinstance(t, ast.Attribute) and isinstance(t.value, ast.Name) and t.value.id == 'self':
                    e['self.' + t.attr] = v
            return e
        if isinstance(st, ast.AugAssign):
            self._calls(st.value, env)
            e = self._kill_assigned(st, env)
            tgt = st.target
            k = tgt.id if isinstance(tgt, ast.Name) else ('self.' + tgt.attr if isinstance(tgt, ast.Attribute) and isinstance(tgt.value, ast.Name) and tgt.value.id == 'self' else None)
            if k is not None and env.get(k) is not None:
                load = ast.Name(id=tgt.id, ctx=ast.Load()) if isinstance(tgt, ast.Name) else ast.Attribute(value=ast.Name(id='self', ctx=ast.Load()), attr=tgt.attr, ctx=ast.Load())
                expr = ast.BinOp(left=load, op=st.op, right=st.value)
                ast.fix_missing_locations(ast.Expression(body=expr))
                e[k] = self.ev.eval(expr, env)
            return e
        if isinstance(st, ast.Return):
            if st.value is not None:
                self._calls(st.value, env)
            return None
        if isinstance(st, ast.Raise):
            if st.exc is not None:
                self._calls(st.exc, env)
            cls = raises_class(st)
            if cls in self.ce.tracked:
                self.raises.add((self.fi.qual, cls, raise_message(st)[:80]))
            elif cls is None:
                self.raises.add('*')
            return None
        if isinstance(st, ast.If):
            self._calls(st.test, env)
            v = self.ev.eval(st.test, env)
            outs = []
            truth = None
            if v is not None:
                truth = set(bool(x) for x in v)
            if truth is None or True in truth:
                outs.append(self.block(st.body, dict(env)))
            if truth is None or False in truth:
                outs.append(self.block(st.orelse, dict(env)) if st.orelse else dict(env))
            res = None
            for o in outs:
                res = self._join(res, o) if (res is not None and o is not None) else (res if o is None else o)
            return res
        if isinstance(st, (ast.For, ast.While)):
            self._calls(st.iter if isinstance(st, ast.For) else st.test, env)
            e = self._kill_assigned(st, env)
            self.block(st.body, dict(e))
            e2 = self._kill_assigned(st, e)
            if st.orelse:
                self.block(st.orelse, dict(e2))
            return e2
        if isinstance(st, ast.Try):
            e = self._kill_assigned(st, env)
            self.block(st.body, dict(e))
            for h in st.handlers:
                self.block(h.body, dict(e))
            if st.orelse:
                self.block(st.orelse, dict(e))
            if st.finalbody:
                self.block(st.finalbody, dict(e))
            return e
        if isinstance(st, ast.With):
            for it in st.items:
                self._calls(it.context_expr, env)
            e = self._kill_assigned(st, env)
            return self.block(st.body, e)
        if isinstance(st, (ast.FunctionDef, ast.ClassDef, ast.Pass, ast.Import, ast.ImportFrom, ast.Global, ast.Nonlocal)):
            return env
        if isinstance(st, (ast.Break, ast.Continue)):
            return None
        self._calls(st, env)
        return self._kill_assigned(st, env)
