"""SA-IDENT.key: an identity map is never looked up with a sentinel key (C02, C07).

While an image is parsed, records are attached to inodes through maps from extent number to Inode
(`extent_to_inode`): two records that name the same extent are links to the same content.  Code that
replaces the key by a constant for some class of records ("zero-length files get extent 0") turns that
class into one big set of links - all of them share one inode, and removing one removes the others.
For every `k in D`, `D[k]` and `D[k] = v` on a dict whose values are Inode objects the rule takes the
reaching definitions of k; for each definition that is a literal constant (a sentinel) the use must be
unreachable on that path: either a governing test contradicts the condition under which the sentinel
was assigned (same expression, opposite polarity), or it tests a variable that the sentinel's own block
set to a false constant (`len_to_use = 0` ... `if len_to_use > 0 and k in D`).
"""
import ast
import copy

from ..registry import rule, props
from ..report import Ob
from ..model import norm, AnalysisError
from .. import expand as ex

VALUE_CLASSES = ('inode.Inode',)


def _normfact(t, p):
    if isinstance(t, ast.Compare) and len(t.ops) == 1 and isinstance(t.ops[0], (ast.IsNot, ast.NotEq, ast.LtE, ast.Lt)):
        t2 = copy.deepcopy(t)
        m = {ast.IsNot: ast.Is, ast.NotEq: ast.Eq, ast.LtE: ast.Gt, ast.Lt: ast.GtE}
        t2.ops = [m[type(t.ops[0])]()]
        return norm(t2), not p
    return norm(t), p


def _facts(ctx, fi, stmt, node=None):
    """facts holding when `node` (inside stmt) is evaluated"""
    out = set()
    for test, pol, at in ex.conditions(ctx, fi, stmt):
        for t, p in ex.conjuncts(test, pol):
            out.add(_normfact(t, p))
    if node is not None:
        # left siblings in an enclosing `and`
        par = ctx.parents(fi)
        cur = node
        while cur is not None and cur is not stmt:
            p = par.get(id(cur))
            if isinstance(p, ast.BoolOp) and isinstance(p.op, ast.And):
                for v in p.values:
                    if v is cur:
                        break
                    for t, pol in ex.conjuncts(v, True):
                        out.add(_normfact(t, pol))
            cur = p
    return out


def _is_dict_of_entity(ctx, fi, expr):
    t = ctx.t.expr_type(expr, fi)
    if t is None or t[0] != 'dict' or len(t) < 3:
        return False
    v = t[2]
    return v is not None and v[0] == 'cls' and v[1] in VALUE_CLASSES


@rule('SA-IDENT.key')
@props('C02', 'C07', 'C10')
def keyident(ctx):
    obs = []
    nuses = 0
    for fi in ctx.m.pkg_functions():
        uses = []
        for n in ctx.own_nodes(fi):
            if isinstance(n, ast.Compare) and len(n.ops) == 1 and isinstance(n.ops[0], (ast.In, ast.NotIn)) and \
                    _is_dict_of_entity(ctx, fi, n.comparators[0]):
                uses.append((n, n.left, n.comparators[0]))
            elif isinstance(n, ast.Subscript) and _is_dict_of_entity(ctx, fi, n.value):
                uses.append((n, n.slice, n.value))
        if not uses:
            continue
        g, RD = ex._rd(ctx, fi)
        par = ctx.parents(fi)
        for node, key, d in uses:
            nuses += 1
            st = ctx.enclosing_stmt(fi, node)
            okey = '%s|%s' % (fi.qual, norm(node))
            if not isinstance(key, ast.Name):
                obs.append(Ob('SA-IDENT.key', okey, True, ctx.loc(fi, node)))
                continue
            gn = g.node_of(st)
            sentinels = []
            for nm, dnid in RD.get(gn.id, ()):
                if nm != key.id:
                    continue
                dn = g.nodes[dnid]
                s = dn.stmt
                if dn.kind == 'stmt' and isinstance(s, ast.Assign) and isinstance(s.value, ast.Constant) and not isinstance(s.value.value, str):
                    sentinels.append(s)
            bad = None
            use_facts = _facts(ctx, fi, st, node)
            for s in sentinels:
                # (i) contradiction with the condition under which the sentinel was assigned
                sf = set()
                for test, pol, at in ex.conditions(ctx, fi, s, True):
                    # negation of a disjunction gives facts, a true disjunction does not: keep whole test too
                    for t, p in ex.conjuncts(test, pol):
                        sf.add(_normfact(t, p))
                contradiction = any((t, not p) in use_facts for t, p in sf)
                # (ii) a sibling statement of the sentinel sets V to a false constant and the use requires V
                blk = None
                p = par.get(id(s))
                for fld in ('body', 'orelse', 'finalbody'):
                    b = getattr(p, fld, None)
                    if isinstance(b, list) and any(x is s for x in b):
                        blk = b
                falsy = set()
                for x in blk or ():
                    if isinstance(x, ast.Assign) and len(x.targets) == 1 and isinstance(x.targets[0], ast.Name) and \
                            isinstance(x.value, ast.Constant) and not x.value.value:
                        falsy.add(x.targets[0].id)
                for v in falsy:
                    if ('%s > 0' % v, True) in use_facts or (v, True) in use_facts or ('%s == 0' % v, False) in use_facts:
                        contradiction = True
                if not contradiction:
                    bad = s
                    break
            obs.append(Ob('SA-IDENT.key', okey, bad is None, ctx.loc(fi, node),
                          '' if bad is None else '`%s` is evaluated with the key `%s` that `%s` (line %d) forces to a constant for a whole class of records: '
                          'every such record is attached to the one inode stored under that constant, i.e. all of them become links of each other, '
                          'and removing or modifying one affects the others' % (norm(node), key.id, norm(bad), bad.lineno)))
    if nuses < 6:
        raise AnalysisError('anchor-vanished: uses of extent->Inode maps (%d)' % nuses)
    return obs


def _block_of(par, s):
    p = par.get(id(s))
    for fld in ('body', 'orelse', 'finalbody'):
        b = getattr(p, fld, None)
        if isinstance(b, list) and any(x is s for x in b):
            return b
    return None


@rule('SA-IDENT.sanitized')
@props('C16', 'C07')
def sanitized(ctx):
    """Once a record's extent has been replaced by its sanitised copy, identity is decided on the copy.

    `extent_to_use = new_extent_loc` followed by `if <zero length or symlink>: extent_to_use = 0` introduces the
    value that stands for "the content this record names": empty files and symlinks carry arbitrary extent
    numbers (mkisofs gives an empty file the extent of the next file laid out) and must not be identified with
    whatever real content lives there.  In the rest of the block every identity decision - `==`/`!=`/`in`
    comparisons and subscripts - has to use the sanitised copy; a decision on the raw variable treats an empty
    file whose extent number happens to equal the boot catalog's (or another file's) as that object, and reading
    it then returns the other object's bytes."""
    obs = []
    npairs = 0
    for fi in ctx.m.pkg_functions():
        par = ctx.parents(fi)
        copies = [n for n in ctx.own_nodes(fi) if isinstance(n, ast.Assign) and len(n.targets) == 1 and isinstance(n.targets[0], ast.Name) and
                  isinstance(n.value, ast.Name) and n.value.id != n.targets[0].id]
        for cp in copies:
            new, raw = cp.targets[0].id, cp.value.id
            blk = _block_of(par, cp)
            if blk is None:
                continue
            idx = [i for i, x in enumerate(blk) if x is cp][0]
            # a later statement of the same block conditionally overrides the copy with a constant
            over = None
            for j in range(idx + 1, len(blk)):
                s = blk[j]
                if isinstance(s, ast.If) and any(isinstance(x, ast.Assign) and len(x.targets) == 1 and norm(x.targets[0]) == new and
                                                 isinstance(x.value, ast.Constant) for x in ast.walk(s)):
                    over = j
                    break
                if any(isinstance(x, ast.Name) and x.id == raw and isinstance(x.ctx, ast.Store) for x in ast.walk(s)):
                    break
            if over is None:
                continue
            npairs += 1
            bad = []
            for s in blk[over + 1:]:
                for n in ast.walk(s):
                    names = []
                    if isinstance(n, ast.Compare) and any(isinstance(o, (ast.Eq, ast.NotEq, ast.In, ast.NotIn)) for o in n.ops):
                        names = [x for x in [n.left] + list(n.comparators) if isinstance(x, ast.Name)]
                    elif isinstance(n, ast.Subscript) and isinstance(n.slice, ast.Name):
                        names = [n.slice]
                    for x in names:
                        if x.id == raw:
                            bad.append(n)
            key = '%s|%s stands for %s' % (fi.qual, new, raw)
            obs.append(Ob('SA-IDENT.sanitized', key, not bad, ctx.loc(fi, bad[0] if bad else cp),
                          '' if not bad else '`%s` (line %d) decides identity on the raw `%s` although `%s` (line %d: forced to a constant for a class of records) '
                          'stands for it in this block: a record of that class whose raw value happens to equal the other side is taken for that object'
                          % (norm(bad[0]), bad[0].lineno, raw, new, blk[over].lineno)))
    if npairs < 1:
        raise AnalysisError('anchor-vanished: sanitised copies of an identity value (extent_to_use) not found')
    return obs
