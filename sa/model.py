"""Resolved program model of pycdlib, built from source text only (ast).

Nothing in here imports or runs the library.  The loader takes an optional
overlay {relative path: source text} so that the self-test can analyse mutants
in memory.
"""
import ast
import os
import struct as _struct

REPO = os.environ.get('VERIF_REPO', '/repo')

PKG_FILES = ['dates', 'dr', 'eltorito', 'facade', 'headervd', 'inode',
             'isohybrid', 'path_table_record', 'pycdlib', 'pycdlibexception',
             'pycdlibio', 'rockridge', 'udf', 'utils']
TOOL_FILES = {'tool_genisoimage': 'tools/pycdlib-genisoimage',
              'tool_extract': 'tools/pycdlib-extract-files',
              'tool_explorer': 'tools/pycdlib-explorer'}


class AnalysisError(Exception):
    """The analyser could not do its job (anchor vanished, unparsable source...)."""


# --------------------------------------------------------------------------
# types
# --------------------------------------------------------------------------
# A type is a tuple:
#   ('cls', 'dr.DirectoryRecord')     a package class
#   ('prim', 'int'|'bytes'|'str'|'bool'|'float'|'None')
#   ('ext', 'IO')                     a stdlib / external type
#   ('opt', T) ('list', T) ('deque', T) ('set', T) ('dict', K, V) ('tuple', [T..]) ('union', [T..])
#   ('type', T)                       Type[T]
#   ('gen', T)                        Generator yielding T
#   ('any',)
ANY = ('any',)
NONE = ('prim', 'None')
INT = ('prim', 'int')
BYTES = ('prim', 'bytes')
STR = ('prim', 'str')
BOOL = ('prim', 'bool')


def mk_union(ts):
    out = []
    for t in ts:
        if t is None:
            continue
        if t[0] == 'union':
            for u in t[1]:
                if u not in out:
                    out.append(u)
        elif t not in out:
            out.append(t)
    if not out:
        return ANY
    if len(out) == 1:
        return out[0]
    if ANY in out:
        # keep the known members: candidates for may-analyses
        out = [t for t in out if t != ANY] + [ANY]
    return ('union', out)


def type_classes(t, acc=None):
    """All package classes a value of type t may be (looking through opt/union)."""
    if acc is None:
        acc = []
    if t is None:
        return acc
    k = t[0]
    if k == 'cls':
        if t[1] not in acc:
            acc.append(t[1])
    elif k == 'opt':
        type_classes(t[1], acc)
    elif k == 'union':
        for u in t[1]:
            type_classes(u, acc)
    return acc


def elem_type(t):
    """Element type of a container type."""
    if t is None:
        return ANY
    k = t[0]
    if k in ('list', 'deque', 'set', 'gen'):
        return t[1]
    if k == 'opt':
        return elem_type(t[1])
    if k == 'dict':
        return t[1]
    if k == 'tuple':
        return mk_union(t[1])
    if k == 'union':
        return mk_union([elem_type(u) for u in t[1]])
    if k == 'prim' and t[1] == 'bytes':
        return INT
    if k == 'prim' and t[1] == 'str':
        return STR
    return ANY


def strip_opt(t):
    if t is None:
        return ANY
    if t[0] == 'opt':
        return t[1]
    if t[0] == 'union':
        return mk_union([u for u in t[1] if u != NONE])
    return t


def type_str(t):
    if t is None:
        return '?'
    k = t[0]
    if k in ('cls', 'prim', 'ext'):
        return t[1]
    if k == 'any':
        return 'Any'
    if k in ('opt', 'list', 'deque', 'set', 'type', 'gen'):
        return '%s[%s]' % (k, type_str(t[1]))
    if k == 'dict':
        return 'dict[%s,%s]' % (type_str(t[1]), type_str(t[2]))
    if k in ('tuple', 'union'):
        return '%s[%s]' % (k, ','.join(type_str(u) for u in t[1]))
    return repr(t)


# --------------------------------------------------------------------------
# program entities
# --------------------------------------------------------------------------
class FuncInfo:
    __slots__ = ('qual', 'name', 'module', 'cls', 'node', 'params', 'ptypes',
                 'rtype', 'parent', 'is_static', 'is_classmethod', 'is_property',
                 'decorators', 'has_type_comment', 'locals_', 'path')

    def __repr__(self):
        return '<F %s>' % self.qual


class ClassInfo:
    __slots__ = ('qual', 'name', 'module', 'node', 'slots', 'methods', 'consts',
                 'bases', 'attr_types', 'parent_func', 'nested', 'path')

    def __repr__(self):
        return '<C %s>' % self.qual


class ModuleInfo:
    __slots__ = ('name', 'path', 'text', 'tree', 'aliases', 'functions',
                 'classes', 'consts', 'is_tool', 'lines')


def norm(node):
    """Normalised text of a node: the construct key used instead of line numbers."""
    try:
        return ast.unparse(node)
    except Exception:  # pragma: no cover
        return ast.dump(node)


def stmt_head(node):
    """Normalised text of a statement without the bodies of compound statements."""
    if isinstance(node, ast.If):
        return 'if ' + norm(node.test)
    if isinstance(node, ast.While):
        return 'while ' + norm(node.test)
    if isinstance(node, ast.For):
        return 'for %s in %s' % (norm(node.target), norm(node.iter))
    if isinstance(node, ast.With):
        return 'with ' + ', '.join(norm(i) for i in node.items)
    if isinstance(node, ast.Try):
        return 'try'
    if isinstance(node, (ast.FunctionDef, ast.ClassDef)):
        return 'def ' + node.name
    return norm(node)


class Model:
    def __init__(self, overlay=None, repo=None):
        self.repo = repo or REPO
        self.overlay = overlay or {}
        self.modules = {}
        self.classes = {}
        self.functions = {}
        self.class_by_name = {}     # bare name -> [qual]
        self.methods_by_name = {}   # method name -> [FuncInfo]
        self.unanalysed = []        # things the model could not handle
        self._pending_attr = {}
        self._load()

    # ---------------------------------------------------------------- loading
    def _read(self, rel):
        if rel in self.overlay:
            return self.overlay[rel]
        p = os.path.join(self.repo, rel)
        try:
            with open(p, 'r', encoding='utf-8') as f:
                return f.read()
        except OSError as e:
            raise AnalysisError('anchor-vanished file %s (%s)' % (rel, e))

    def _load(self):
        for m in PKG_FILES:
            self._load_module(m, 'pycdlib/%s.py' % m, False)
        for m, rel in TOOL_FILES.items():
            self._load_module(m, rel, True)
        for c in self.classes.values():
            self._infer_attr_types(c)

    def _load_module(self, name, rel, is_tool):
        text = self._read(rel)
        try:
            tree = ast.parse(text, filename=rel, type_comments=True)
        except SyntaxError as e:
            raise AnalysisError('unparsable source %s: %s' % (rel, e))
        mi = ModuleInfo()
        mi.name, mi.path, mi.text, mi.tree, mi.is_tool = name, rel, text, tree, is_tool
        mi.lines = text.splitlines()
        mi.aliases, mi.functions, mi.classes, mi.consts = {}, {}, {}, {}
        self.modules[name] = mi
        for node in ast.walk(tree):
            if isinstance(node, ast.ImportFrom) and node.module == 'pycdlib':
                for a in node.names:
                    mi.aliases[a.asname or a.name] = a.name
            elif isinstance(node, ast.ImportFrom) and node.module and node.module.startswith('pycdlib.'):
                sub = node.module.split('.', 1)[1]
                for a in node.names:
                    mi.aliases[a.asname or a.name] = sub + '.' + a.name
            elif isinstance(node, ast.Import):
                for a in node.names:
                    if a.name.startswith('pycdlib.'):
                        mi.aliases[a.asname or a.name] = a.name.split('.', 1)[1]
                    elif a.name == 'pycdlib' and is_tool:
                        mi.aliases[a.asname or 'pycdlib'] = '<pkg>'
        self._scan_body(mi, tree.body, None, None)
        self._resolve_handler_types(mi)

    def _resolve_handler_types(self, mi):
        """`except NAME:` where NAME is a module-level tuple of exception classes (bound once, never
        rebound through `global`) is analysed as `except (A, B, ...):` - every rule that looks at
        handler types sees the classes and not the name of the tuple."""
        import copy
        for h in ast.walk(mi.tree):
            if not (isinstance(h, ast.ExceptHandler) and isinstance(h.type, ast.Name) and h.type.id in mi.consts):
                continue
            val = mi.consts[h.type.id]
            if not (isinstance(val, ast.Tuple) and all(isinstance(e, (ast.Name, ast.Attribute)) for e in val.elts)):
                continue
            nbind = 0
            for x in ast.walk(mi.tree):
                if isinstance(x, ast.Name) and x.id == h.type.id and isinstance(x.ctx, (ast.Store, ast.Del)):
                    nbind += 1
                elif isinstance(x, ast.Global) and h.type.id in x.names:
                    nbind += 2
            if nbind != 1:
                continue
            new = copy.deepcopy(val)
            for x in ast.walk(new):
                ast.copy_location(x, h.type)
            h.type = new

    def _scan_body(self, mi, body, cls, parent_func):
        for node in body:
            if isinstance(node, (ast.FunctionDef, ast.AsyncFunctionDef)):
                self._add_function(mi, node, cls, parent_func)
            elif isinstance(node, ast.ClassDef):
                self._add_class(mi, node, parent_func)
            elif isinstance(node, ast.Assign) and cls is None and parent_func is None:
                for t in node.targets:
                    if isinstance(t, ast.Name):
                        mi.consts[t.id] = node.value
            elif isinstance(node, (ast.If, ast.Try, ast.With, ast.For, ast.While)):
                # conditional definitions (e.g. under `if sys.platform == ...`)
                for sub in ast.iter_child_nodes(node):
                    if isinstance(sub, (ast.FunctionDef, ast.ClassDef)):
                        self._scan_body(mi, [sub], cls, parent_func)
                for fld in ('body', 'orelse', 'finalbody'):
                    subs = getattr(node, fld, None)
                    if subs:
                        self._scan_body(mi, [s for s in subs if isinstance(s, (ast.If, ast.Try, ast.With))], cls, parent_func)

    def _add_class(self, mi, node, parent_func):
        ci = ClassInfo()
        ci.name = node.name
        ci.module = mi.name
        ci.parent_func = parent_func
        if parent_func is not None:
            ci.qual = parent_func.qual + '.<locals>.' + node.name
        else:
            ci.qual = mi.name + '.' + node.name
        ci.node = node
        ci.path = mi.path
        ci.slots = None
        ci.methods = {}
        ci.consts = {}
        ci.attr_types = {}
        ci.nested = {}
        ci.bases = [norm(b) for b in node.bases]
        self.classes[ci.qual] = ci
        mi.classes[node.name] = ci
        self.class_by_name.setdefault(node.name, []).append(ci.qual)
        for st in node.body:
            if isinstance(st, ast.Assign):
                for t in st.targets:
                    if isinstance(t, ast.Name):
                        if t.id == '__slots__':
                            try:
                                v = ast.literal_eval(st.value)
                                ci.slots = tuple(v) if not isinstance(v, str) else (v,)
                            except Exception:
                                self.unanalysed.append(('slots', ci.qual))
                        else:
                            ci.consts[t.id] = st.value
            elif isinstance(st, (ast.FunctionDef, ast.AsyncFunctionDef)):
                self._add_function(mi, st, ci, parent_func)
            elif isinstance(st, ast.ClassDef):
                # nested class (e.g. RRSLRecord.Component)
                sub = self._add_class_nested(mi, st, ci)
                ci.nested[st.name] = sub

    def _add_class_nested(self, mi, node, outer):
        ci = ClassInfo()
        ci.name = node.name
        ci.module = mi.name
        ci.parent_func = None
        ci.qual = outer.qual + '.' + node.name
        ci.node = node
        ci.path = mi.path
        ci.slots = None
        ci.methods = {}
        ci.consts = {}
        ci.attr_types = {}
        ci.nested = {}
        ci.bases = [norm(b) for b in node.bases]
        self.classes[ci.qual] = ci
        self.class_by_name.setdefault(node.name, []).append(ci.qual)
        for st in node.body:
            if isinstance(st, ast.Assign):
                for t in st.targets:
                    if isinstance(t, ast.Name):
                        if t.id == '__slots__':
                            try:
                                v = ast.literal_eval(st.value)
                                ci.slots = tuple(v) if not isinstance(v, str) else (v,)
                            except Exception:
                                self.unanalysed.append(('slots', ci.qual))
                        else:
                            ci.consts[t.id] = st.value
            elif isinstance(st, (ast.FunctionDef, ast.AsyncFunctionDef)):
                self._add_function(mi, st, ci, None)
        return ci

    def _add_function(self, mi, node, cls, parent_func):
        fi = FuncInfo()
        fi.name = node.name
        fi.module = mi.name
        fi.cls = cls
        fi.node = node
        fi.parent = parent_func
        fi.path = mi.path
        if cls is not None:
            fi.qual = cls.qual + '.' + node.name
        elif parent_func is not None:
            fi.qual = parent_func.qual + '.<locals>.' + node.name
        else:
            fi.qual = mi.name + '.' + node.name
        decs = [norm(d) for d in node.decorator_list]
        fi.decorators = decs
        fi.is_static = 'staticmethod' in decs
        fi.is_classmethod = 'classmethod' in decs
        fi.is_property = 'property' in decs
        a = node.args
        fi.params = [x.arg for x in a.posonlyargs + a.args]
        if a.vararg:
            fi.params.append('*' + a.vararg.arg)
        fi.params += [x.arg for x in a.kwonlyargs]
        if a.kwarg:
            fi.params.append('**' + a.kwarg.arg)
        fi.ptypes = {}
        fi.rtype = None
        fi.has_type_comment = False
        fi.locals_ = None
        tc = node.type_comment
        if tc:
            try:
                ft = ast.parse(tc, mode='func_type')
                fi.has_type_comment = True
                names = [p for p in fi.params]
                if cls is not None and not fi.is_static and names:
                    pnames = names[1:]
                else:
                    pnames = names
                ats = ft.argtypes
                if len(ats) == len(names) and len(ats) != len(pnames):
                    pnames = names
                for pn, at in zip(pnames, ats):
                    fi.ptypes[pn.lstrip('*')] = self.conv_type(at, mi, cls)
                fi.rtype = self.conv_type(ft.returns, mi, cls)
            except SyntaxError:
                self.unanalysed.append(('type-comment', fi.qual))
        # annotations (tools have none, but support them)
        for x in a.posonlyargs + a.args + a.kwonlyargs:
            if x.annotation is not None and x.arg not in fi.ptypes:
                fi.ptypes[x.arg] = self.conv_type(x.annotation, mi, cls)
        if node.returns is not None and fi.rtype is None:
            fi.rtype = self.conv_type(node.returns, mi, cls)
        if cls is not None and not fi.is_static and fi.params:
            if fi.is_classmethod:
                fi.ptypes[fi.params[0]] = ('type', ('cls', cls.qual))
            else:
                fi.ptypes[fi.params[0]] = ('cls', cls.qual)
        self.functions[fi.qual] = fi
        if cls is not None:
            cls.methods[node.name] = fi
            self.methods_by_name.setdefault(node.name, []).append(fi)
        elif parent_func is None:
            mi.functions[node.name] = fi
        # nested defs
        for sub in ast.walk(node):
            if sub is node:
                continue
        self._scan_nested(mi, node, fi)

    def _scan_nested(self, mi, fnode, fi):
        # direct nested function / class definitions (any depth of compound statements, but
        # not inside further defs)
        stack = list(fnode.body)
        while stack:
            st = stack.pop()
            if isinstance(st, (ast.FunctionDef, ast.AsyncFunctionDef)):
                self._add_function(mi, st, None, fi)
            elif isinstance(st, ast.ClassDef):
                self._add_class(mi, st, fi)
            else:
                for fld in ('body', 'orelse', 'finalbody', 'handlers'):
                    subs = getattr(st, fld, None)
                    if subs:
                        for s in subs:
                            if isinstance(s, ast.ExceptHandler):
                                stack.extend(s.body)
                            else:
                                stack.append(s)

    # ------------------------------------------------------------------ types
    def conv_type(self, node, mi, cls=None):
        """Convert a type expression AST into a type tuple."""
        if node is None:
            return ANY
        if isinstance(node, ast.Constant):
            if node.value is None:
                return NONE
            if isinstance(node.value, str):
                try:
                    return self.conv_type(ast.parse(node.value, mode='eval').body, mi, cls)
                except SyntaxError:
                    return ANY
            return ANY
        if isinstance(node, ast.Name):
            n = node.id
            if n in ('int', 'bytes', 'str', 'bool', 'float'):
                return ('prim', n)
            if n == 'bytearray':
                return BYTES
            if n == 'Any':
                return ANY
            if n == 'None':
                return NONE
            if n in mi.classes:
                return ('cls', mi.classes[n].qual)
            if cls is not None and n in cls.nested:
                return ('cls', cls.nested[n].qual)
            # forward reference to a class defined later in the module
            q = mi.name + '.' + n
            for st in mi.tree.body:
                if isinstance(st, ast.ClassDef) and st.name == n:
                    return ('cls', q)
            if n in mi.aliases and '.' in mi.aliases[n]:
                return ('cls', mi.aliases[n])
            return ('ext', n)
        if isinstance(node, ast.Attribute):
            base = node.value
            if isinstance(base, ast.Name):
                mod = mi.aliases.get(base.id)
                if mod == '<pkg>':
                    return ('ext', norm(node))
                if mod is not None:
                    return ('cls', mod + '.' + node.attr)
                if base.id in mi.classes:
                    return ('cls', mi.classes[base.id].qual + '.' + node.attr)
            return ('ext', norm(node))
        if isinstance(node, ast.Subscript):
            head = norm(node.value)
            sl = node.slice
            args = list(sl.elts) if isinstance(sl, ast.Tuple) else [sl]
            ts = [self.conv_type(a, mi, cls) for a in args]
            if head == 'Optional':
                return ('opt', ts[0])
            if head == 'Union':
                if NONE in ts:
                    rest = [t for t in ts if t != NONE]
                    return ('opt', mk_union(rest))
                return mk_union(ts)
            if head in ('List', 'list', 'Sequence', 'Iterable', 'Iterator'):
                return ('list', ts[0])
            if head in ('Deque', 'deque', 'collections.deque'):
                return ('deque', ts[0])
            if head in ('Set', 'set', 'FrozenSet'):
                return ('set', ts[0])
            if head in ('Dict', 'dict'):
                return ('dict', ts[0], ts[1] if len(ts) > 1 else ANY)
            if head in ('Tuple', 'tuple'):
                return ('tuple', [t for t in ts if t != ('ext', 'Ellipsis')])
            if head == 'Type':
                return ('type', ts[0])
            if head == 'Generator':
                return ('gen', ts[0])
            if head in ('IO', 'BinaryIO'):
                return ('ext', 'IO')
            if head == 'Callable':
                return ('ext', 'Callable')
            return ('ext', head)
        if isinstance(node, ast.BinOp) and isinstance(node.op, ast.BitOr):
            return mk_union([self.conv_type(node.left, mi, cls), self.conv_type(node.right, mi, cls)])
        return ANY

    def _infer_attr_types(self, ci):
        """Declared attribute types: `self.a = ...  # type: T`, `self.a = Ctor()`,
        `self.a = <param>` in any method of the class."""
        mi = self.modules[ci.module]
        decl = {}
        inferred = {}
        for fi in ci.methods.values():
            if fi.is_static:
                continue
            selfname = fi.params[0] if fi.params else None
            for st in ast.walk(fi.node):
                if isinstance(st, ast.Call) and isinstance(st.func, ast.Name) and st.func.id == 'setattr' \
                        and len(st.args) == 3 and isinstance(st.args[0], ast.Name) and st.args[0].id == selfname:
                    # setattr(self, <name>, V): constant name, or a name ranging over a literal
                    # tuple constant of the class (RRTFRecord.FIELDNAMES)
                    names = []
                    if isinstance(st.args[1], ast.Constant) and isinstance(st.args[1].value, str):
                        names = [st.args[1].value]
                    else:
                        for cn, cv in ci.consts.items():
                            try:
                                v = ast.literal_eval(cv)
                            except Exception:
                                continue
                            if isinstance(v, tuple) and v and all(isinstance(x, str) and x in (ci.slots or ()) for x in v):
                                names.extend(v)
                    for nm in names:
                        inferred.setdefault(nm, []).append((fi, st.args[2]))
                    continue
                if isinstance(st, ast.Assign):
                    tgts = st.targets
                    tc = st.type_comment
                    val = st.value
                elif isinstance(st, ast.AnnAssign):
                    tgts = [st.target]
                    tc = None
                    val = st.value
                    if isinstance(st.target, ast.Attribute) and isinstance(st.target.value, ast.Name) and st.target.value.id == selfname:
                        decl[st.target.attr] = self.conv_type(st.annotation, mi, ci)
                else:
                    continue
                for t in tgts:
                    if isinstance(t, ast.Attribute) and isinstance(t.value, ast.Name) and t.value.id == selfname:
                        if tc:
                            try:
                                decl[t.attr] = self.conv_type(ast.parse(tc, mode='eval').body, mi, ci)
                                continue
                            except SyntaxError:
                                pass
                        if val is not None:
                            inferred.setdefault(t.attr, []).append((fi, val))
        ci.attr_types = dict(decl)
        # second stage is done lazily by TypeEnv (needs expression typing)
        self._pending_attr[ci.qual] = inferred

    # -------------------------------------------------------------- accessors
    def func(self, qual):
        f = self.functions.get(qual)
        if f is None:
            raise AnalysisError('anchor-vanished function %s' % qual)
        return f

    def cls(self, qual):
        c = self.classes.get(qual)
        if c is None:
            raise AnalysisError('anchor-vanished class %s' % qual)
        return c

    def loc(self, fi_or_path, node):
        path = fi_or_path.path if hasattr(fi_or_path, 'path') else fi_or_path
        return '%s:%d' % (path, getattr(node, 'lineno', 0))

    def pkg_functions(self):
        return [f for f in self.functions.values() if not self.modules[f.module].is_tool]


# --------------------------------------------------------------------------
# constant folding
# --------------------------------------------------------------------------
class NotConst(Exception):
    pass


def fold(node, model=None, mi=None, cls=None, env=None, depth=0):
    """Safe constant folder.  Raises NotConst."""
    if depth > 20:
        raise NotConst()
    if isinstance(node, ast.Constant):
        return node.value
    if isinstance(node, (ast.Tuple, ast.List)):
        return tuple(fold(e, model, mi, cls, env, depth + 1) for e in node.elts)
    if isinstance(node, ast.Set):
        return frozenset(fold(e, model, mi, cls, env, depth + 1) for e in node.elts)
    if isinstance(node, ast.UnaryOp):
        v = fold(node.operand, model, mi, cls, env, depth + 1)
        if isinstance(node.op, ast.USub):
            return -v
        if isinstance(node.op, ast.Not):
            return not v
        if isinstance(node.op, ast.Invert):
            return ~v
        raise NotConst()
    if isinstance(node, ast.BinOp):
        a = fold(node.left, model, mi, cls, env, depth + 1)
        b = fold(node.right, model, mi, cls, env, depth + 1)
        try:
            op = node.op
            if isinstance(op, ast.Add):
                return a + b
            if isinstance(op, ast.Sub):
                return a - b
            if isinstance(op, ast.Mult):
                if isinstance(a, (bytes, str)) and isinstance(b, int) and b > 1 << 20:
                    raise NotConst()
                return a * b
            if isinstance(op, ast.FloorDiv):
                return a // b
            if isinstance(op, ast.Mod):
                return a % b
            if isinstance(op, ast.LShift):
                return a << b
            if isinstance(op, ast.RShift):
                return a >> b
            if isinstance(op, ast.BitOr):
                return a | b
            if isinstance(op, ast.BitAnd):
                return a & b
            if isinstance(op, ast.Pow) and isinstance(b, int) and 0 <= b < 64:
                return a ** b
        except NotConst:
            raise
        except Exception:
            raise NotConst()
        raise NotConst()
    if isinstance(node, ast.Name):
        if env is not None and node.id in env:
            return env[node.id]
        if cls is not None and node.id in cls.consts:
            return fold(cls.consts[node.id], model, mi, cls, None, depth + 1)
        if mi is not None and node.id in mi.consts:
            return fold(mi.consts[node.id], model, mi, None, None, depth + 1)
        raise NotConst()
    if isinstance(node, ast.Attribute):
        # self.CONST / Class.CONST / module.CONST / module.Class.CONST
        if model is None or mi is None:
            raise NotConst()
        v = node.value
        if isinstance(v, ast.Name):
            if v.id in ('self', 'cls') and cls is not None and node.attr in cls.consts:
                return fold(cls.consts[node.attr], model, mi, cls, None, depth + 1)
            if v.id in mi.classes and node.attr in mi.classes[v.id].consts:
                c = mi.classes[v.id]
                return fold(c.consts[node.attr], model, mi, c, None, depth + 1)
            mod = mi.aliases.get(v.id)
            if mod in model.modules and node.attr in model.modules[mod].consts:
                m2 = model.modules[mod]
                return fold(m2.consts[node.attr], model, m2, None, None, depth + 1)
        elif isinstance(v, ast.Attribute) and isinstance(v.value, ast.Name):
            mod = mi.aliases.get(v.value.id)
            if mod in model.modules and v.attr in model.modules[mod].classes:
                c = model.modules[mod].classes[v.attr]
                if node.attr in c.consts:
                    return fold(c.consts[node.attr], model, model.modules[mod], c, None, depth + 1)
        raise NotConst()
    if isinstance(node, ast.Call):
        fn = norm(node.func)
        args = [fold(a, model, mi, cls, env, depth + 1) for a in node.args]
        if node.keywords:
            raise NotConst()
        try:
            if fn == 'struct.calcsize':
                return _struct.calcsize(args[0])
            if fn == 'len':
                return len(args[0])
            if fn == 'ord':
                return ord(args[0])
            if fn in ('tuple', 'list'):
                return tuple(args[0]) if args else ()
            if fn in ('set', 'frozenset'):
                return frozenset(args[0]) if args else frozenset()
            if fn == 'range':
                if len(args) and (args[-1] if len(args) < 3 else args[1]) - 0 > 1 << 20:
                    raise NotConst()
                return tuple(range(*args))
            if fn == 'bytes' and len(args) == 1 and isinstance(args[0], (tuple, int)):
                return bytes(args[0])
            if fn in ('min', 'max'):
                return {'min': min, 'max': max}[fn](*args)
            if isinstance(node.func, ast.Attribute):
                recv = fold(node.func.value, model, mi, cls, env, depth + 1)
                m = node.func.attr
                if isinstance(recv, (bytes, str)) and m in ('ljust', 'rjust', 'encode', 'decode', 'upper', 'lower', 'format'):
                    return getattr(recv, m)(*args)
                if isinstance(recv, (bytes, str)) and m == 'join':
                    return recv.join(args[0])
        except NotConst:
            raise
        except Exception:
            raise NotConst()
        raise NotConst()
    if isinstance(node, ast.Subscript):
        v = fold(node.value, model, mi, cls, env, depth + 1)
        try:
            if isinstance(node.slice, ast.Slice):
                lo = fold(node.slice.lower, model, mi, cls, env, depth + 1) if node.slice.lower else None
                hi = fold(node.slice.upper, model, mi, cls, env, depth + 1) if node.slice.upper else None
                return v[lo:hi]
            return v[fold(node.slice, model, mi, cls, env, depth + 1)]
        except NotConst:
            raise
        except Exception:
            raise NotConst()
    if isinstance(node, ast.Compare) and len(node.ops) == 1:
        a = fold(node.left, model, mi, cls, env, depth + 1)
        b = fold(node.comparators[0], model, mi, cls, env, depth + 1)
        op = node.ops[0]
        try:
            if isinstance(op, ast.Eq):
                return a == b
            if isinstance(op, ast.NotEq):
                return a != b
            if isinstance(op, ast.Lt):
                return a < b
            if isinstance(op, ast.LtE):
                return a <= b
            if isinstance(op, ast.Gt):
                return a > b
            if isinstance(op, ast.GtE):
                return a >= b
            if isinstance(op, ast.In):
                return a in b
            if isinstance(op, ast.NotIn):
                return a not in b
            if isinstance(op, ast.Is):
                return a is b
            if isinstance(op, ast.IsNot):
                return a is not b
        except Exception:
            raise NotConst()
    if isinstance(node, ast.BoolOp):
        vals = [fold(v, model, mi, cls, env, depth + 1) for v in node.values]
        if isinstance(node.op, ast.And):
            r = True
            for v in vals:
                r = r and v
            return r
        r = False
        for v in vals:
            r = r or v
        return r
    if isinstance(node, ast.IfExp):
        t = fold(node.test, model, mi, cls, env, depth + 1)
        return fold(node.body if t else node.orelse, model, mi, cls, env, depth + 1)
    raise NotConst()
