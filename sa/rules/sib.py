"""SA-SIB: sibling enumerations must be exhaustive / consistent."""
import ast
import codecs

from ..registry import rule, props
from ..report import Ob
from ..model import norm, type_classes, AnalysisError, fold, NotConst
from ..engine import raises_class
from .. import effects
from .. import cfg as cfgmod


# ---------------------------------------------------------------------------
# (a) Rock Ridge entry kinds
# ---------------------------------------------------------------------------
@rule('SA-SIB.rr_kinds')
@props('C02', 'C05', 'C08')
def rr_kinds(ctx):
    ent = ctx.cls('rockridge.RockRidgeEntries')
    rr = ctx.cls('rockridge.RockRidge')
    slots = set(ent.slots or ())
    if len(slots) < 10:
        raise AnalysisError('anchor-vanished RockRidgeEntries slots')
    parse = rr.methods.get('parse')
    rec = rr.methods.get('_record')
    if parse is None or rec is None:
        raise AnalysisError('anchor-vanished RockRidge.parse/_record')
    obs = []
    # slots stored by parse: entry_list.X = ... / entry_list.X.append(...)
    stored = {}
    for n in ctx.own_nodes(parse):
        if isinstance(n, ast.Assign):
            for t in n.targets:
                if isinstance(t, ast.Attribute) and isinstance(t.value, ast.Name) and t.attr in slots:
                    stored[t.attr] = n
        elif isinstance(n, ast.Call) and isinstance(n.func, ast.Attribute) and n.func.attr == 'append' and \
                isinstance(n.func.value, ast.Attribute) and n.func.value.attr in slots:
            stored[n.func.value.attr] = n
    emitted = {}
    for n in ctx.own_nodes(rec):
        if isinstance(n, ast.Call) and isinstance(n.func, ast.Attribute) and n.func.attr == 'record':
            v = n.func.value
            if isinstance(v, ast.Attribute) and v.attr in slots:
                emitted[v.attr] = n
            elif isinstance(v, ast.Name):
                # for x in entries.X: x.record()
                for f in ctx.own_nodes(rec):
                    if isinstance(f, ast.For) and isinstance(f.target, ast.Name) and f.target.id == v.id and \
                            isinstance(f.iter, ast.Attribute) and f.iter.attr in slots:
                        emitted[f.iter.attr] = n
    for s in sorted(slots):
        ok = s in stored
        obs.append(Ob('SA-SIB.rr_kinds', 'parse stores %s' % s, ok, ctx.loc(parse, stored.get(s, parse.node)),
                      '' if ok else 'RockRidgeEntries.%s is never filled by RockRidge.parse' % s))
        ok = s in emitted
        obs.append(Ob('SA-SIB.rr_kinds', 'record emits %s' % s, ok, ctx.loc(rec, emitted.get(s, rec.node)),
                      '' if ok else 'RockRidge.parse keeps %s but RockRidge._record never emits it: the entry is lost on re-mastering '
                      'while the directory record length still counts it' % s))
    # signature / slot / class agreement in the parse dispatch
    for n in ctx.own_nodes(parse):
        if isinstance(n, ast.If) and isinstance(n.test, ast.Compare) and isinstance(n.test.left, ast.Name) and \
                n.test.left.id == 'rtype' and len(n.test.ops) == 1 and isinstance(n.test.ops[0], ast.Eq) and \
                isinstance(n.test.comparators[0], ast.Constant) and isinstance(n.test.comparators[0].value, bytes):
            sig = n.test.comparators[0].value.decode('ascii')
            want_slot = (sig.lower() + '_record', sig.lower() + '_records')
            want_cls = 'RR%sRecord' % sig
            slots_here, classes_here = set(), set()
            for st in n.body:
                for sub in ast.walk(st):
                    if isinstance(sub, ast.Attribute) and sub.attr in slots:
                        slots_here.add(sub.attr)
                    if isinstance(sub, ast.Call) and isinstance(sub.func, ast.Name) and sub.func.id.startswith('RR') \
                            and sub.func.id.endswith('Record'):
                        classes_here.add(sub.func.id)
            ok = bool(slots_here) and slots_here <= set(want_slot) and classes_here == {want_cls}
            obs.append(Ob('SA-SIB.rr_kinds', 'dispatch %s' % sig, ok, ctx.loc(parse, n),
                          '' if ok else 'signature %s is parsed as %s into %s' % (sig, sorted(classes_here), sorted(slots_here))))
    # single-record list == non-list slots
    init = ent.methods.get('__init__')
    single = set()
    if init is not None:
        for n in ctx.own_nodes(init):
            if isinstance(n, ast.Assign) and isinstance(n.value, ast.Constant) and n.value.value is None:
                for t in n.targets:
                    if isinstance(t, ast.Attribute):
                        single.add(t.attr)
    for n in ctx.own_nodes(parse):
        if isinstance(n, ast.Compare) and isinstance(n.left, ast.Name) and n.left.id == 'rtype' and \
                isinstance(n.ops[0], ast.In) and isinstance(n.comparators[0], ast.Tuple):
            lst = set(e.value.decode('ascii').lower() + '_record' for e in n.comparators[0].elts if isinstance(e, ast.Constant))
            ok = lst == single
            obs.append(Ob('SA-SIB.rr_kinds', 'single-record kinds', ok, ctx.loc(parse, n),
                          '' if ok else 'kinds refused when repeated %s differ from the single-valued slots %s' % (sorted(lst ^ single), '')))
    return obs


# ---------------------------------------------------------------------------
# (b) El Torito entry enumerations
# ---------------------------------------------------------------------------
@rule('SA-SIB.eltorito_entries')
@props('C02', 'C07', 'C11', 'C15')
def eltorito_entries(ctx):
    ci = ctx.cls('eltorito.EltoritoBootCatalog')
    for s in ('initial_entry', 'sections', 'standalone_entries'):
        if s not in (ci.slots or ()):
            raise AnalysisError('anchor-vanished EltoritoBootCatalog.%s' % s)
    obs = []
    n = 0
    for fi in ctx.m.pkg_functions():
        attrs = {}
        for node in ctx.own_nodes(fi):
            if isinstance(node, ast.Attribute) and node.attr in ('initial_entry', 'section_entries', 'standalone_entries'):
                attrs.setdefault(node.attr, node)
        # an "all entries" enumeration: mentions the initial entry and loops over section entries
        # ... in a loop, a comprehension, or handed whole to extend()/list()/+ (building the list with .append, or
        # measuring it with len(), is not an enumeration)
        par = ctx.parents(fi)
        loops = []
        for x in ctx.own_nodes(fi):
            if isinstance(x, ast.Attribute) and x.attr == 'section_entries' and isinstance(x.ctx, ast.Load):
                p = par.get(id(x))
                if isinstance(p, ast.Attribute) and p.attr in ('append', 'insert', 'remove', 'pop'):
                    continue
                if isinstance(p, ast.Call) and norm(p.func) == 'len':
                    continue
                if isinstance(p, ast.Subscript) and p.value is x:
                    continue
                loops.append(x)
        if 'initial_entry' in attrs and loops and fi.cls is not ctx.m.classes.get('eltorito.EltoritoSectionHeader'):
            if fi.name in ('parse',):
                continue
            n += 1
            ok = 'standalone_entries' in attrs
            obs.append(Ob('SA-SIB.eltorito_entries', fi.qual, ok, ctx.loc(fi, loops[0]),
                          '' if ok else '%s enumerates the initial entry and the section entries of the boot catalog but not '
                          'standalone_entries: such entries keep no inode / are not released / not protected' % fi.qual))
    if n < 4:
        raise AnalysisError('anchor-vanished: El Torito entry enumerations (%d)' % n)
    return obs


# ---------------------------------------------------------------------------
# (c) dispatch over Inode.linked_records
# ---------------------------------------------------------------------------
LINKED = ('eltorito.EltoritoEntry', 'udf.UDFFileEntry', 'dr.DirectoryRecord')


def _isinstance_classes(ctx, fi, test, var):
    """classes C such that `test` contains isinstance(var, C)"""
    out = set()
    for sub in ast.walk(test):
        if isinstance(sub, ast.Call) and isinstance(sub.func, ast.Name) and sub.func.id == 'isinstance' and \
                len(sub.args) == 2 and isinstance(sub.args[0], ast.Name) and sub.args[0].id == var:
            targets = sub.args[1].elts if isinstance(sub.args[1], ast.Tuple) else [sub.args[1]]
            for tg in targets:
                t = ctx.t.expr_type(tg, fi)
                if t and t[0] == 'type':
                    out |= set(type_classes(t[1]))
    return out


@rule('SA-SIB.linked_dispatch')
@props('C17', 'C07')
def linked_dispatch(ctx):
    obs = []
    n = 0
    for fi in ctx.m.pkg_functions():
        # variables that hold an element of some inode.linked_records
        vars_ = {}
        for node in ctx.own_nodes(fi):
            if isinstance(node, ast.For) and 'linked_records' in norm(node.iter):
                tg = node.target
                if isinstance(tg, ast.Tuple) and tg.elts and isinstance(tg.elts[0], ast.Name):
                    if isinstance(node.iter, ast.Call) and norm(node.iter.func) == 'enumerate':
                        continue
                    vars_[tg.elts[0].id] = (node, norm(node.iter))
            elif isinstance(node, ast.Assign) and isinstance(node.value, ast.Subscript) and 'linked_records' in norm(node.value) \
                    and norm(node.value).endswith('[0][0]') and isinstance(node.targets[0], ast.Name):
                vars_[node.targets[0].id] = (node, norm(node.value)[:-6])
        if not vars_:
            continue
        g = None
        for var, (origin, src) in vars_.items():
            n += 1
            # isinstance chains on var
            chains = []
            for node in ctx.own_nodes(fi):
                if isinstance(node, ast.If) and _isinstance_classes(ctx, fi, node.test, var):
                    chains.append(node)
            # keep only chain heads (an If that is not the sole orelse of another chain If)
            heads = [c for c in chains if not any(len(o.orelse) == 1 and o.orelse[0] is c for o in chains)]
            for head in heads:
                covered = set()
                cur = head
                default = None
                while True:
                    covered |= _isinstance_classes(ctx, fi, cur.test, var)
                    if len(cur.orelse) == 1 and isinstance(cur.orelse[0], ast.If) and _isinstance_classes(ctx, fi, cur.orelse[0].test, var):
                        cur = cur.orelse[0]
                        continue
                    default = cur.orelse
                    break
                neg = isinstance(head.test, ast.BoolOp) or (isinstance(head.test, ast.UnaryOp))
                key = '%s|dispatch on %s from %s' % (fi.qual, var, src)
                if neg:
                    obs.append(Ob('SA-SIB.linked_dispatch', key + '|filter', True, ctx.loc(fi, head), 'negative filter'))
                    continue
                default_raises = bool(default) and any(isinstance(s, ast.Raise) for s in default)
                if set(LINKED) <= covered or not default_raises:
                    obs.append(Ob('SA-SIB.linked_dispatch', key, True, ctx.loc(fi, head)))
                    continue
                # raising default: accepted only behind the El Torito gate on the same inode
                inode_expr = src.rsplit('.linked_records', 1)[0]
                gated = False
                if g is None:
                    g = ctx.cfg(fi)
                    dom = g.dominators()
                hn = g.node_of(head)
                for cn in g.nodes:
                    for e in cfgmod.node_exprs(cn):
                        for sub in ast.walk(e):
                            if isinstance(sub, ast.Call) and isinstance(sub.func, ast.Attribute) and \
                                    sub.func.attr == '_check_inode_against_eltorito' and sub.args and norm(sub.args[0]) == inode_expr:
                                if hn is not None and cn.id in dom[hn.id]:
                                    gated = True
                missing = sorted(set(LINKED) - covered)
                obs.append(Ob('SA-SIB.linked_dispatch', key, gated, ctx.loc(fi, head),
                              '' if gated else 'records linked to an inode may be %s, which this chain answers with a raise '
                              '(after earlier iterations/statements already took effect); no _check_inode_against_eltorito(%s) guards it'
                              % (missing, inode_expr)))
            # methods called on the un-narrowed variable must exist in all three classes
            narrowed_regions = []
            for c in chains:
                narrowed_regions.append(c)
            for node in ctx.own_nodes(fi):
                if isinstance(node, ast.Call) and isinstance(node.func, ast.Attribute) and isinstance(node.func.value, ast.Name) \
                        and node.func.value.id == var:
                    # inside a narrowing If?
                    par = ctx.parents(fi)
                    cur = node
                    inside = False
                    while cur is not None:
                        cur = par.get(id(cur))
                        if cur in chains:
                            inside = True
                            break
                    if inside:
                        continue
                    # after a `continue`-filter that narrows? (if not isinstance(...): continue)
                    filt = set()
                    for c in chains:
                        if isinstance(c.test, (ast.BoolOp, ast.UnaryOp)) and any(isinstance(s, ast.Continue) for s in c.body) \
                                and c.lineno < node.lineno:
                            filt |= _isinstance_classes(ctx, fi, c.test, var)
                    classes = [c for c in LINKED if not filt or c in filt]
                    # the loop variable may have been rebound from another source as well
                    missing = [c for c in classes if node.func.attr not in ctx.m.classes[c].methods]
                    ok = not missing
                    obs.append(Ob('SA-SIB.linked_dispatch', '%s|%s.%s()' % (fi.qual, var, node.func.attr), ok, ctx.loc(fi, node),
                                  '' if ok else 'called on every record linked to the inode, but %s has no method %s' % (missing, node.func.attr)))
    if n < 6:
        raise AnalysisError('anchor-vanished: linked_records iterations (%d)' % n)
    return obs


# ---------------------------------------------------------------------------
# (f) GPT mirror
# ---------------------------------------------------------------------------
def _gpt_path(e):
    """self.primary_gpt.<rest> -> ('primary', '<rest>')"""
    s = norm(e)
    for side in ('primary', 'secondary'):
        p = 'self.%s_gpt.' % side
        if s.startswith(p):
            return side, s[len(p):]
    return None, None


@rule('SA-SIB.gpt_mirror')
@props('C12')
def gpt_mirror(ctx):
    ci = ctx.cls('isohybrid.IsoHybrid')
    obs = []
    nfun = 0
    for name, fi in sorted(ci.methods.items()):
        if not name.startswith('update_') and name != 'new':
            continue
        writes = {'primary': {}, 'secondary': {}}
        for n in ctx.own_nodes(fi):
            if isinstance(n, ast.Assign) and len(n.targets) == 1:
                side, path = _gpt_path(n.targets[0])
                if side:
                    writes[side][path] = (norm(n.value), n)
            elif isinstance(n, ast.Call) and isinstance(n.func, ast.Attribute):
                side, path = _gpt_path(n.func)
                if side:
                    writes[side][path + '()'] = (tuple(norm(a) for a in n.args), n)
        if not writes['primary'] and not writes['secondary']:
            continue
        nfun += 1
        for path, (val, node) in sorted(writes['primary'].items()):
            other = writes['secondary'].get(path)
            key = '%s|%s' % (fi.qual, path)
            if other is None:
                obs.append(Ob('SA-SIB.gpt_mirror', key, False, ctx.loc(fi, node),
                              'primary GPT %s is updated but the backup GPT is not: the two tables disagree' % path))
                continue
            if path.endswith('set_lbas()'):
                ok = tuple(reversed(val)) == other[0]
                why = 'backup header must swap current/backup LBA'
            else:
                ok = val == other[0]
                why = 'backup value %s differs from primary %s' % (other[0], val)
            obs.append(Ob('SA-SIB.gpt_mirror', key, ok, ctx.loc(fi, node), '' if ok else why))
    if nfun < 2:
        raise AnalysisError('anchor-vanished: GPT update functions')
    # every partition container of GPT has a non-constant writer of its location fields
    return obs
