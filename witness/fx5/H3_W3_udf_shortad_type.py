"""
Witness C: the extent type (top two bits of the extent length, ECMA-167
4/14.14.1.1) of a UDF Short Allocation Descriptor must be read from the ISO
and survive open + write.

Part 1 feeds the four possible types to pycdlib.udf.UDFShortAD directly.
Part 2 builds a UDF image with the library, marks the extent of one file as
"allocated but not recorded" (type 1, what a foreign implementation writes for
a preallocated file; a reader returns zeros for it), opens and re-writes the
image and looks at the File Entry in the result.

Usage: python W3_udf_shortad_type.py <path-to-checkout>
"""
import io
import struct
import sys

sys.path.insert(0, sys.argv[1])

import pycdlib  # noqa: E402
from pycdlib import udf as udfmod  # noqa: E402


def crc_ccitt(data):
    crc = 0
    for byte in bytearray(data):
        crc ^= byte << 8
        for unused in range(8):
            crc = ((crc << 1) ^ 0x1021) if crc & 0x8000 else (crc << 1)
            crc &= 0xFFFF
    return crc


def retag(data, start):
    """Recompute CRC and checksum of the descriptor tag at data[start:]."""
    crc_len, = struct.unpack_from('<H', data, start + 10)
    struct.pack_into('<H', data, start + 8, crc_ccitt(data[start + 16:start + 16 + crc_len]))
    data[start + 4] = 0
    data[start + 4] = sum(data[start:start + 16]) % 256


def file_entries(data):
    """Yield (offset, info_len, [short_ad (length_field, pos)]) for each File Entry (tag 261) with short ADs."""
    for start in range(0, len(data) - 2047, 2048):
        ident, version, csum = struct.unpack_from('<HHB', data, start)
        if ident != 261 or version not in (2, 3):
            continue
        if (sum(bytearray(data[start:start + 16])) - csum) % 256 != csum:
            continue
        icb_flags, = struct.unpack_from('<H', data, start + 16 + 18)
        file_type = bytearray(data[start + 16 + 11:start + 16 + 12])[0]
        info_len, = struct.unpack_from('<Q', data, start + 56)
        l_ea, l_ad = struct.unpack_from('<LL', data, start + 168)
        if (icb_flags & 0x7) != 0:
            continue
        ads = []
        for pos in range(start + 176 + l_ea, start + 176 + l_ea + l_ad, 8):
            ads.append((struct.unpack_from('<L', data, pos)[0], pos))
        yield start, file_type, info_len, ads


def main():
    problems = []

    # Part 1: the class itself.
    for etype in range(4):
        raw = struct.pack('<LL', (etype << 30) | 0x1234, 77)
        ad = udfmod.UDFShortAD()
        ad.parse(raw)
        if ad.extent_length != 0x1234 or ad.log_block_num != 77:
            problems.append('UDFShortAD.parse: type %d: extent_length 0x%x, log_block_num %d (expected 0x1234, 77)' % (etype, ad.extent_length, ad.log_block_num))
        if ad.extent_type != etype:
            problems.append('UDFShortAD.parse: extent type %d on the ISO is read as %d' % (etype, ad.extent_type))
        if ad.record() != raw:
            problems.append('UDFShortAD: type %d: parse + record gives %r instead of %r' % (etype, ad.record(), raw))

    # Part 2: an image.
    iso = pycdlib.PyCdlib()
    iso.new(udf='2.60')
    content = b'x' * 3000
    iso.add_fp(io.BytesIO(content), len(content), '/A.;1', udf_path='/a')
    other = b'y' * 100
    iso.add_fp(io.BytesIO(other), len(other), '/B.;1', udf_path='/b')
    out = io.BytesIO()
    iso.write_fp(out)
    iso.close()
    data = bytearray(out.getvalue())

    target = None
    for start, file_type, info_len, ads in file_entries(data):
        if file_type == 5 and info_len == len(content) and len(ads) == 1:
            target = (start, ads[0])
    if target is None:
        print('could not find the File Entry of /a in the image that was built')
        return 1
    start, (length_field, pos) = target
    if length_field != len(content):
        print('unexpected allocation descriptor 0x%x in the image that was built' % (length_field))
        return 1
    struct.pack_into('<L', data, pos, (1 << 30) | len(content))
    retag(data, start)

    iso = pycdlib.PyCdlib()
    iso.open_fp(io.BytesIO(bytes(data)))
    entry = iso.get_record(udf_path='/a')
    if entry.alloc_descs[0].extent_length != len(content):
        problems.append('after open: extent length of /a is %d, expected %d' % (entry.alloc_descs[0].extent_length, len(content)))
    if entry.alloc_descs[0].extent_type != 1:
        problems.append('after open: extent type of /a is %d, the ISO says 1' % (entry.alloc_descs[0].extent_type))
    out2 = io.BytesIO()
    iso.write_fp(out2)
    iso.close()
    data2 = out2.getvalue()

    found = [ads for start, file_type, info_len, ads in file_entries(data2) if file_type == 5 and info_len == len(content)]
    if len(found) != 1 or len(found[0]) != 1:
        problems.append('after open + write: File Entry of /a not found')
    else:
        length_field = found[0][0][0]
        if length_field != ((1 << 30) | len(content)):
            problems.append('after open + write: allocation descriptor of /a is 0x%08x, was 0x%08x in the image that was opened (extent type lost)' % (length_field, (1 << 30) | len(content)))
    # the untouched file keeps type 0
    found = [ads for start, file_type, info_len, ads in file_entries(data2) if file_type == 5 and info_len == len(other)]
    if len(found) != 1 or len(found[0]) != 1 or found[0][0][0] != len(other):
        problems.append('after open + write: allocation descriptor of /b changed')

    if problems:
        for p in problems:
            print(p)
        return 1
    print('OK')
    return 0


if __name__ == '__main__':
    sys.exit(main())
