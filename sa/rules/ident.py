"""SA-IDENT: objects of the in-memory trees are told apart by identity, never by content (C02, C07, C16).

DirectoryRecord (and a few other node classes) define __eq__/__ne__/__lt__ over their *content* (name,
lengths, date, flags) because children lists are kept sorted with bisect.  Two different nodes are very
often content-equal (same name in two directories, hard links, the per-namespace records of one file),
so every search for "this very record" (unlinking it from its inode, recognising the boot catalog
record, ...) has to use `is` / id().  The rule resolves, for every ==, !=, in, not in, .index(), .remove()
and .count() whose operands are statically typed as the same entity class, which comparison Python
will run (the class's own __eq__/__ne__ if it defines one, identity otherwise) and demands identity.
"""
import ast

from ..registry import rule, props
from ..report import Ob
from ..model import norm, type_classes, AnalysisError

# nodes / shared objects of the in-memory image model: identity is what distinguishes them
ENTITY = ('dr.DirectoryRecord', 'udf.UDFFileEntry', 'udf.UDFFileIdentifierDescriptor', 'inode.Inode',
          'headervd.PrimaryOrSupplementaryVD', 'eltorito.EltoritoEntry', 'eltorito.EltoritoSectionHeader',
          'rockridge.RockRidge', 'rockridge.RockRidgeContinuationBlock', 'isohybrid.IsoHybrid')
# ordering helpers where content comparison *is* the point
ALLOWED_FUNCS = ('__eq__', '__ne__', '__lt__')


def _semantics(ctx, cq, op):
    c = ctx.m.classes.get(cq)
    if c is None:
        return 'identity'
    has_eq = '__eq__' in c.methods
    has_ne = '__ne__' in c.methods
    if op == 'ne':
        return 'content' if (has_ne or has_eq) else 'identity'
    return 'content' if has_eq else 'identity'


@rule('SA-IDENT')
@props('C01', 'C02', 'C07', 'C09', 'C16')
def ident(ctx):
    obs = []
    nsites = 0
    nidiom = 0
    for q in ENTITY:
        if q not in ctx.m.classes:
            raise AnalysisError('anchor-vanished: entity class %s' % q)
    ent = set(ENTITY)
    for fi in list(ctx.m.functions.values()):
        if fi.name in ALLOWED_FUNCS:
            continue
        for n in ctx.own_nodes(fi):
            site = None
            if isinstance(n, ast.Compare) and len(n.ops) == 1:
                op = n.ops[0]
                l, r = n.left, n.comparators[0]
                if isinstance(op, (ast.Eq, ast.NotEq)):
                    # id(a) == id(b): the repository's identity idiom
                    if all(isinstance(x, ast.Call) and isinstance(x.func, ast.Name) and x.func.id == 'id' for x in (l, r)):
                        nidiom += 1
                        continue
                    a = set(type_classes(ctx.t.expr_type(l, fi))) & ent
                    b = set(type_classes(ctx.t.expr_type(r, fi))) & ent
                    if a & b:
                        site = (sorted(a & b), 'ne' if isinstance(op, ast.NotEq) else 'eq')
                elif isinstance(op, (ast.In, ast.NotIn)):
                    a = set(type_classes(ctx.t.expr_type(l, fi))) & ent
                    if a:
                        ct = ctx.t.expr_type(r, fi)
                        if ct is not None and ct[0] in ('list', 'deque', 'set', 'tuple') and len(ct) > 1:
                            ct = ct[1] if not isinstance(ct[1], list) else ('union', ct[1])
                        b = set(type_classes(ct)) & ent
                        if a & b:
                            site = (sorted(a & b), 'eq')
                elif isinstance(op, (ast.Is, ast.IsNot)):
                    a = set(type_classes(ctx.t.expr_type(l, fi))) & ent
                    if a and not (isinstance(r, ast.Constant) and r.value is None):
                        nidiom += 1
            elif isinstance(n, ast.Call) and isinstance(n.func, ast.Attribute) and n.func.attr in ('index', 'remove', 'count') and len(n.args) == 1:
                a = set(type_classes(ctx.t.expr_type(n.args[0], fi))) & ent
                recv = ctx.t.expr_type(n.func.value, fi)
                if a and recv is not None and recv[0] in ('list', 'deque'):
                    site = (sorted(a), 'eq')
            if site is None:
                continue
            nsites += 1
            classes, op = site
            content = [c for c in classes if _semantics(ctx, c, op) == 'content']
            # keyed by the expression with the function's locals replaced by placeholders (a renamed loop variable keeps the key)
            from .vbmrule import canon_text
            key = '%s|%s' % (fi.qual, canon_text(ctx, fi.qual, norm(n)))
            obs.append(Ob('SA-IDENT', key, not content, ctx.loc(fi, n),
                          '' if not content else '`%s` compares two %s nodes with the class\'s content-based %s: a different node with the same name, '
                          'lengths, date and flags (same name in another directory, a hard link, the record of another namespace) also matches, '
                          'so the wrong node is taken for the addressed one; identity (`is` / id()) is required here'
                          % (norm(n), '/'.join(c.split('.')[-1] for c in content), '__ne__' if op == 'ne' else '__eq__')))
    if nidiom < 8:
        raise AnalysisError('anchor-vanished: identity-idiom sites on tree nodes (%d)' % nidiom)
    # make the count visible even when there are no == sites left
    obs.append(Ob('SA-IDENT', 'identity-idiom-sites>=8', True, 'pycdlib/pycdlib.py:1', '%d sites use id()/is on entity classes' % nidiom))
    return obs


def _kind(ctx, fi, e):
    """('tuple',) / ('classes', frozenset) / None for the static type of an identity operand"""
    t = ctx.t.expr_type(e, fi)
    if t is None:
        return None
    if t[0] == 'tuple':
        return ('tuple',)
    cl = frozenset(type_classes(t))
    if cl and t[0] in ('cls', 'union', 'opt'):
        return ('classes', cl)
    return None


def _related(ctx, a, b):
    """some class of a equals, or is an ancestor/descendant of, some class of b"""
    def anc(q):
        out, todo = {q}, [q]
        while todo:
            c = ctx.m.classes.get(todo.pop())
            for base in (c.bases if c is not None and c.bases else ()):
                bq = base if base in ctx.m.classes else None
                if bq is None:
                    for k in ctx.m.classes:
                        if k.split('.')[-1] == str(base).split('.')[-1]:
                            bq = k
                if bq and bq not in out:
                    out.add(bq)
                    todo.append(bq)
        return out
    return any(anc(x) & anc(y) for x in a for y in b)


@rule('SA-IDENT.operands')
@props('C02', 'C04', 'C07', 'C14')
def ident_operands(ctx):
    """An identity test compares two things that can be the same object.

    `id(a) == id(b)`, `a is b` and their negations are how this code base finds "this very record" in a list of links.
    When the static types of the two operands cannot denote the same object - one is an element of a list of
    `(record, flag)` tuples and the other a record; an Inode and a DirectoryRecord - the test is constantly false
    (or constantly true for the negation): a filter built on it removes nothing, a search never finds its target.
    The types come from the PEP-484 comments the code carries; an operand the resolver cannot type is not judged."""
    obs = []
    n = 0
    for fi in ctx.m.pkg_functions():
        for node in ctx.own_nodes(fi):
            if not (isinstance(node, ast.Compare) and len(node.ops) == 1):
                continue
            op = node.ops[0]
            a, b = node.left, node.comparators[0]
            if isinstance(op, (ast.Eq, ast.NotEq)):
                if not (isinstance(a, ast.Call) and norm(a.func) == 'id' and isinstance(b, ast.Call) and norm(b.func) == 'id' and a.args and b.args):
                    continue
                a, b = a.args[0], b.args[0]
            elif isinstance(op, (ast.Is, ast.IsNot)):
                if any(isinstance(x, ast.Constant) for x in (a, b)):
                    continue
            else:
                continue
            ka, kb = _kind(ctx, fi, a), _kind(ctx, fi, b)
            if ka is None or kb is None:
                continue
            n += 1
            ok = True
            if ka[0] != kb[0]:
                ok = False
            elif ka[0] == 'classes' and not _related(ctx, ka[1], kb[1]):
                ok = False
            ordinal = sum(1 for x in ctx.own_nodes(fi) if isinstance(x, ast.Compare) and norm(x) == norm(node) and (x.lineno, x.col_offset) < (node.lineno, node.col_offset))
            obs.append(Ob('SA-IDENT.operands', '%s|%s%s' % (fi.qual, norm(node)[:90], '#%d' % ordinal if ordinal else ''), ok, ctx.loc(fi, node),
                          '' if ok else '`%s` compares the identity of a %s with that of a %s: they are never the same object, so the test is constant - a filter built on '
                          'it keeps (or drops) everything, a search never finds the entry it is looking for' % (
                              norm(node), 'tuple' if ka[0] == 'tuple' else '/'.join(sorted(c.split('.')[-1] for c in ka[1])),
                              'tuple' if kb[0] == 'tuple' else '/'.join(sorted(c.split('.')[-1] for c in kb[1])))))
    if n < 10:
        raise AnalysisError('anchor-vanished: identity comparisons with typed operands (%d)' % n)
    return obs
