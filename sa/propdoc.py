"""Per-property documentation used in MANIFEST.json and the evidence files.

Everything here is prose; the set of rules per property comes from the registry."""

_COMMON_NOTE = ('Trusted base: the Python ast module; the type comments of the analysed source (used only to resolve '
                'calls); the frozen tables under /verif/tables (each entry one named construct with a reason). '
                'Decides necessary structural conditions of the property on every path of the current source; '
                'does not run the library and says nothing about the clauses listed as not decided in DESIGN.md section 5.')
_LEVEL = ('Static necessary-condition checking: each rule is exact on its structural clause (no heuristics armed), '
          'instances are enumerated from the current source on every run, floors fail closed if anchors vanish. '
          'Chosen because the property quantifies over histories/inputs that no static argument bounds; the clauses '
          'claimed are those whose truth is visible in the shape of the code.')


def _d(expl, technique, ref):
    return {'explanation': expl, 'technique': technique, 'level_text': _LEVEL, 'level_note': _COMMON_NOTE,
            'design_ref': ref,
            'assumptions': ['type comments in /repo describe the receivers they annotate (used for call resolution only)',
                            'no monkey-patching / dynamic attribute injection beyond the three getattr/setattr idioms handled',
                            'the spec table tables/spec_layout.json was transcribed correctly from the standards']}


PROPDOC = {
 'C01': _d('Mastering fidelity, structural part: volume size is written only by the accounting primitives (SA-OWN.space_size); '
           'insertion/removal keep the children and rr_children indexes parallel (SA-PAIR.rr_children); the continuation-block '
           'allocator contract between caller and callee is not contradicted (SA-SENTINEL); accounting deltas are not dropped (SA-ACCT); '
           'the descriptor inventories created/parsed/assigned/written coincide (SA-SIB.inventory).',
           'who-may-write tables + pairing rules + reaching-definitions contradiction rule over the ast', 'DESIGN.md 5/C01'),
 'C02': _d('Editing preserves the rest, structural part: nobody but modify_file_in_place writes to the opened image (SA-OWN.image); '
           'removal keeps both directory indexes, the link lists and the path caches in step (SA-PAIR.*); every Rock Ridge kind that parse '
           'keeps is re-emitted (SA-SIB.rr_kinds); all enumerations of boot-catalog entries cover all three collections (SA-SIB.eltorito_entries); '
           'fields emitted from an attribute are parsed back into it (SA-SYM).',
           'effect extraction + who-may-write + pairing + sibling-enumeration rules', 'DESIGN.md 5/C02'),
 'C03': _d('ECMA-119 validity, structural part: field layout of PVD/SVD, directory record, path table record, boot record and terminator '
           'equals the standard (SA-SPEC.iso9660 against an independent table); both-byte-order copies come from one expression, LE first '
           '(SA-ENDIAN); format hygiene (SA-FMT); children is mutated only by the sorted-insert/remove primitives and every mutation is '
           'followed by the offset recomputation (SA-OWN.children, SA-PAIR.offset_cache); size computation and writer pack records by the same '
           'overflow rule (SA-SIB.packing).',
           'struct-format codec model compared with a spec layout oracle; sibling agreement via canonical linear inequalities', 'DESIGN.md 5/C03'),
 'C04': _d('Sector allocation, structural part: accounting discipline (SA-ACCT), derived locations have no writer outside the recomputation '
           'pass (SA-OWN.derived), Inode.set_extent_location is called only by _set_inode which hands the same extent to all linked records '
           '(SA-OWN.inode-set-extent), mastering writes go through the bound/overlap-checked writer (SA-OWN.master), unlink releases the blob '
           '(SA-PAIR.unlink_release), UDF entry counts move with the links (SA-PAIR.udf_link_count), allocator contract (SA-SENTINEL).',
           'call-graph reachability + who-may-write/who-may-call tables + must-pass-through on the CFG', 'DESIGN.md 5/C04'),
 'C05': _d('Re-mastering fixpoint, structural part: for all parse/record pairs, a field emitted from attribute A is parsed back into A '
           '(SA-SYM); Rock Ridge kinds parsed = kinds recorded (SA-SIB.rr_kinds); layouts (SA-SPEC); format hygiene (SA-FMT); written lengths '
           'equal emitted lengths (SA-LEN); UDF tag discipline (SA-TAG).',
           'per-field def-use flow between struct.unpack targets and struct.pack arguments', 'DESIGN.md 5/C05'),
 'C06': _d('Lazy metadata transparency, structural part: the recomputation pass has no memory (no accumulation, SA-RESHUFFLE.pure); readers of '
           'derived state check the stale flag (SA-RESHUFFLE.gate); public edits that write what the pass reads mark the metadata stale on every '
           'normal exit (SA-RESHUFFLE.flag); derived state and the flag have no other writers (SA-OWN.derived, SA-OWN.needs_reshuffle).',
           'effect summaries over the call graph + must-pass-through on public method CFGs', 'DESIGN.md 5/C06'),
 'C07': _d('Hard-link semantics, structural part: link and inode registration move together (SA-PAIR.link_inode); removing a reference tests '
           'for the last one and releases the blob (SA-PAIR.unlink_release); every dispatch over the records linked to an inode handles all '
           'three kinds or sits behind the El Torito gate (SA-SIB.linked_dispatch, SA-GATE.eltorito); enumerations of boot entries are complete '
           '(SA-SIB.eltorito_entries); one data location per inode (SA-OWN.inode-set-extent).',
           'pairing rules over effect extraction; isinstance-chain exhaustiveness; dominance of gate calls', 'DESIGN.md 5/C07'),
 'C08': _d('Rock Ridge fidelity, structural part: SUSP record layouts against the standard (SA-SPEC.susp); every record stored in the directory '
           'record or continuation area is accounted with the length() of its own class in the same block (SA-PAIR.rr_placement); su_len packed '
           '= bytes emitted = Class.length (SA-LEN.susp); continuation allocator contract (SA-SENTINEL); kinds parsed = recorded (SA-SIB.rr_kinds).',
           'block-level pairing with reaching definitions; length algebra over bytes expressions', 'DESIGN.md 5/C08'),
 'C09': _d('Joliet fidelity, structural part (thin): every insertion into the Joliet tree passes the Joliet name gate, which contains the '
           'length limit followed by InvalidInput (SA-GATE.joliet); one codec at all encode/decode sites (SA-SIB.joliet_codec); the Joliet VD has '
           'its own path-table locations and directory pass in the inventories (SA-SIB.inventory).',
           'call-graph must-pass-through (gate) + literal agreement after codecs.lookup normalisation', 'DESIGN.md 5/C09'),
 'C10': _d('UDF bridge fidelity, structural part: descriptor layouts against ECMA-167 (SA-SPEC.udf); tag identifier tables new()/parse '
           'dispatch/standard agree, record() returns tag.record(body)+body, set_extent_location updates the tag location (SA-TAG); FID length '
           '(SA-LEN.fid); parse/record symmetry (SA-SYM); UDF link count pairing; fi_descs ownership.',
           'struct-format codec model + spec oracle + tag discipline rules', 'DESIGN.md 5/C10'),
 'C11': _d('El Torito, structural part: boot record / validation / initial / section layouts (SA-SPEC.eltorito); catalogue capacity constant '
           'and checksum discipline (SA-LEN.eltorito, SA-SIB.validation_csum); boot-info-table constants agree between all five sites '
           '(SA-SIB.boot_info); entry enumerations complete (SA-SIB.eltorito_entries); rm_eltorito releases (SA-PAIR.unlink_release).',
           'spec oracle + constant agreement across sibling sites', 'DESIGN.md 5/C11'),
 'C12': _d('Hybrid boot data, structural part: no stale loop variable feeds the partition sizes (SA-STALEVAR); primary and backup GPT are '
           'updated identically (SA-SIB.gpt_mirror); MBR/GPT/APM layouts against the standards (SA-SPEC.hybrid); GPT CRC span and patch offset '
           '(SA-LEN.gpt); parse/record symmetry by byte offset (SA-SYM).',
           'reaching definitions (stale loop targets); mirror-write comparison; spec oracle', 'DESIGN.md 5/C12'),
 'C13': _d('Namespace rules, structural part: each insertion primitive refuses duplicates before inserting (SA-DUPGUARD); every user-named '
           'insertion passes the namespace acceptance predicate (SA-GATE); accepted names fit the on-disc field (SA-LENBOUND); removal really '
           'removes (SA-PAIR.rr_children, SA-PAIR.removal_cache); containers have no other writers (SA-OWN).',
           'dominance of guards over insertions; call-graph must-pass-through; partial evaluation of the predicates', 'DESIGN.md 5/C13'),
 'C14': _d('Failure atomicity restricted to explicit refusals: for every public mutator and every PyCdlibInvalidInput raise site reachable '
           'from it, no persistent write precedes the refusal on any CFG path (SA-VBM).',
           'interprocedural may-dataflow of persistent writes vs. raise sites with constant-fact specialisation', 'DESIGN.md 3/SA-VBM'),
 'C15': _d('Hostile images: every explicit raise reachable from open constructs a documented class (SA-EXC.explicit); inventory of implicit '
           'exception sources reachable from open vs. the boundary conversion (SA-EXC.implicit); every parse loop matches a progress idiom '
           '(SA-TERM).',
           'call-graph reachability + loop classification with per-loop progress proofs', 'DESIGN.md 3/SA-TERM, SA-EXC'),
 'C16': _d('Reading files, structural part: the logical offset moves with the bytes consumed on every path (SA-PAIR.stream); the position is '
           're-established on the shared handle before every read (SA-SEEK.position); no read size beyond the end (SA-SEEK.bound); seek/tell '
           'consistency (SA-SEEK.seekmethod); the data context manager positions the handle and returns the inode length (SA-SEEK.opendata); '
           'copy helpers never ask for more than what is left (SA-SEEK.copy).',
           'must/may dataflow on the CFG of each stream method with linear-expression comparison', 'DESIGN.md 5/C16'),
 'C17': _d('In-place modification, structural part: only modify_file_in_place writes the opened image (SA-OWN.image); validation precedes the '
           'first write (SA-VBW); every write is preceded by a seek computed from descriptor/child extents or cached offsets (SA-VBW.seek); the '
           'dispatch over linked records is exhaustive (SA-SIB.linked_dispatch); offset caches are recomputed by every mutation of children '
           '(SA-PAIR.offset_cache).',
           'who-may-write + validate-before-write dataflow + dispatch exhaustiveness', 'DESIGN.md 5/C17'),
 'C18': _d('Derived names are legal: abstract interpretation of the mangling helpers over a string domain (length interval x character '
           'classes x dot/semicolon counts) for all inputs and interchange levels, compared with the language extracted from the acceptance '
           'predicates themselves (SA-STR).',
           'abstract interpretation over a finite string domain (sound for the string operations used)', 'DESIGN.md 3/SA-STR'),
 'C19': _d('Timestamps, structural part: broken-down fields and GMT offset come from the same localtime() of the same instant (SA-DATE); the '
           'offset is stored in the unit the standard prescribes for that field (SA-UNITS); date layouts and parse/record identity at field '
           'level (SA-SPEC.dates, SA-SYM).',
           'same-source def-use rule + dimension algebra + spec oracle', 'DESIGN.md 5/C19'),
 'C20': _d('Tools round trip, structural part: attribute and call-signature existence in the tool scripts (SA-ATTR); the three branches that '
           'build ISO paths treat a refused name alike and option-pair tests are equivalent to the pair disjunction (SA-SIB.tool); duplicate '
           'detection is dominated by a byte-wise comparison (SA-DEDUP); collision numbering returns legal distinct names (SA-STR.tool).',
           'slot-based attribute checking with narrowing; truth-table comparison of option expressions', 'DESIGN.md 5/C20'),
}
