#!/usr/bin/env python3
"""
Witness for observation K (notes item 11): a UDF symlink whose target has a
component of 255 bytes.  A UDF path component holds at most 255 bytes
including the compression id, so such a target cannot be stored; the library
must say so with PyCdlibInvalidInput (not a bare ValueError) and must not
leave a half-made symlink behind.  254 bytes must work and round-trip.

  python W12_udf_symlink_long_component.py <path-to-checkout>
"""
import os
import shutil
import subprocess
import sys
import tempfile

CHECKOUT = os.path.abspath(sys.argv[1])
sys.path.insert(0, CHECKOUT)

import pycdlib  # noqa: E402,F401  pylint: disable=wrong-import-position,unused-import


def tool(name, *args):
    """Run one of the tools of the checkout; returns (exit code, stdout, stderr)."""
    env = dict(os.environ)
    env['PYTHONPATH'] = CHECKOUT
    proc = subprocess.run([sys.executable, os.path.join(CHECKOUT, 'tools', name)] + list(args),
                          env=env, stdout=subprocess.PIPE, stderr=subprocess.PIPE,
                          universal_newlines=True, check=False)
    return proc.returncode, proc.stdout, proc.stderr


def last_line(text):
    lines = text.strip().splitlines()
    return lines[-1] if lines else ''


def make_tree(root, files):
    """files: relative path -> bytes (file), (target,) (symlink) or None (directory)."""
    os.makedirs(root)
    for rel, content in files.items():
        full = os.path.join(root, rel)
        if content is None:
            os.makedirs(full, exist_ok=True)
            continue
        os.makedirs(os.path.dirname(full), exist_ok=True)
        if isinstance(content, tuple):
            os.symlink(content[0], full)
        else:
            with open(full, 'wb') as outfp:
                outfp.write(content)


def tree(root):
    """relative path -> 'dir', ('link', target) or the file contents."""
    out = {}
    for dirpath, dirnames, filenames in os.walk(root):
        for name in dirnames + filenames:
            full = os.path.join(dirpath, name)
            rel = os.path.relpath(full, root)
            if os.path.islink(full):
                out[rel] = ('link', os.readlink(full))
            elif os.path.isdir(full):
                out[rel] = 'dir'
            else:
                with open(full, 'rb') as infp:
                    out[rel] = infp.read()
    return out


def diff_trees(want, got):
    problems = []
    for rel in sorted(set(want) - set(got)):
        problems.append('missing from the extracted tree: %s' % (rel))
    for rel in sorted(set(got) - set(want)):
        problems.append('not in the source tree: %s' % (rel))
    for rel in sorted(set(got) & set(want)):
        if got[rel] != want[rel]:
            problems.append('%s differs: source %r, extracted %r' % (rel, want[rel][:80], got[rel][:80]))
    return problems


def build(tmp, files, opts):
    """Build tmp/out.iso from a fresh tmp/src; returns (src, isoname, exit code, stderr)."""
    src = os.path.join(tmp, 'src')
    make_tree(src, files)
    isoname = os.path.join(tmp, 'out.iso')
    ret, _, err = tool('pycdlib-genisoimage', '-quiet', *(list(opts) + ['-o', isoname, src]))
    return src, isoname, ret, err


def extract(tmp, isoname, view):
    """Extract one view to a fresh directory; returns (dest, exit code, stderr)."""
    dest = os.path.join(tmp, 'dest_' + view)
    os.makedirs(dest)
    ret, _, err = tool('pycdlib-extract-files', '-path-type', view, '-extract-to', dest, isoname)
    return dest, ret, err


def run(check):
    tmp = tempfile.mkdtemp()
    try:
        problems = check(tmp)
    finally:
        shutil.rmtree(tmp, ignore_errors=True)
    if problems:
        for problem in problems:
            print(problem)
        return 1
    print('OK')
    return 0


def check(tmp):
    problems = []
    import io

    def names(iso):
        isonames = sorted(c.file_identifier() for c in iso.list_children(iso_path='/'))
        udfnames = sorted(c.file_identifier() for c in iso.list_children(udf_path='/') if c is not None)
        return isonames, udfnames

    for target in ('x' * 255 + '/a', 'Ω' * 128):
        iso = pycdlib.PyCdlib()
        iso.new(udf='2.60')
        before = names(iso)
        try:
            iso.add_symlink('/L.;1', udf_symlink_path='/l', udf_target=target)
            problems.append('a UDF symlink target with a component of %d characters was accepted' % (len(target.split('/')[0])))
        except pycdlib.pycdlibexception.PyCdlibInvalidInput:
            pass
        except ValueError as e:
            problems.append('add_symlink(udf_target=<component of %d characters>) raises ValueError: %s' % (len(target.split('/')[0]), e))
        if names(iso) != before:
            problems.append('the refused add_symlink() left entries behind: %r' % (names(iso),))
        try:
            iso.write_fp(io.BytesIO())
        except Exception as e:  # pylint: disable=broad-except
            problems.append('the image cannot be written after the refused add_symlink(): %s: %s' % (type(e).__name__, e))
        iso.close()

    # Tool level: 254 bytes round-trip; 255 bytes must not end in a ValueError.
    sub = os.path.join(tmp, '254')
    os.makedirs(sub)
    src, isoname, ret, err = build(sub, {'a.txt': b'aa\n', 'l': ('x' * 254 + '/a',), 'w': ('Ω' * 127,)}, ['-udf'])
    if ret != 0:
        problems.append('254: pycdlib-genisoimage failed: %s' % (last_line(err)))
    else:
        dest, ret, err = extract(sub, isoname, 'udf')
        if ret != 0:
            problems.append('254: pycdlib-extract-files failed: %s' % (last_line(err)))
        problems.extend('254: ' + p for p in diff_trees(tree(src), tree(dest)))
    sub = os.path.join(tmp, '255')
    os.makedirs(sub)
    src, isoname, ret, err = build(sub, {'a.txt': b'aa\n', 'l': ('x' * 255 + '/a',)}, ['-udf'])
    if 'ValueError' in last_line(err):
        problems.append('255: pycdlib-genisoimage failed: %s' % (last_line(err)))
    return problems


if __name__ == '__main__':
    sys.exit(run(check))
