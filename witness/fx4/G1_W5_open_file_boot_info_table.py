#!/usr/bin/env python
"""
Witness for observation E (and the open_file_from_iso() part of D): a boot
file that carries a Boot Info Table must read the same through
open_file_from_iso() - with any mix of read, readinto, readall, seek and tell -
as through get_file_from_iso_fp(), i.e. like an in-memory stream of the bytes
that write() stores, on an image that has not been written yet, on an opened
image, and on an opened image with pending changes; under every name of the
file (ISO9660, Rock Ridge, Joliet, UDF).

usage: W5_open_file_boot_info_table.py <pycdlib checkout>
"""
import io
import os
import random
import shutil
import struct
import sys
import tempfile

sys.path.insert(0, os.path.abspath(sys.argv[1]))
import pycdlib  # noqa: E402

S = 2048


def content(n, seed):
    return (seed * 8 + bytes(bytearray(range(256))) * (n // 256 + 1))[:n]


def get(iso, **kwargs):
    out = io.BytesIO()
    iso.get_file_from_iso_fp(out, **kwargs)
    return out.getvalue()


def table_of(data):
    return struct.unpack_from('<LLLL', data[:24].ljust(24, b'\x00'), 8)


def stream_check(iso, name, want, when, problems, other=None):
    """Compare the PyCdlibIO of 'name' against io.BytesIO(want)."""
    tag = '%s %r (%d bytes): ' % (when, name, len(want))
    with iso.open_file_from_iso(**name) as infp:
        whole = infp.read()
    if whole != want:
        problems.append(tag + 'open_file_from_iso().read() returns table %r, get_file_from_iso_fp() returns %r (lengths %d and %d, rest equal: %s)'
                        % (table_of(whole), table_of(want), len(whole), len(want), whole[64:] == want[64:]))
        return
    rnd = random.Random(len(want))
    model = io.BytesIO(want)
    with iso.open_file_from_iso(**name) as infp:
        if infp.length() != len(want):
            problems.append(tag + 'length() is %d' % (infp.length()))
        for step in range(300):
            choice = rnd.randrange(6)
            if choice == 0:
                size = rnd.choice([0, 1, 3, 7, 8, 9, 15, 16, 24, 56, 57, 64, 100, 2048])
                got, exp = infp.read(size), model.read(size)
            elif choice == 1:
                size = rnd.choice([1, 5, 8, 16, 56, 63, 64, 65, 500])
                buf1, buf2 = bytearray(size), bytearray(size)
                n1, n2 = infp.readinto(buf1), model.readinto(buf2)
                got, exp = (n1, bytes(buf1)), (n2, bytes(buf2))
            elif choice == 2:
                pos = rnd.choice([0, 1, 7, 8, 9, 12, 20, 23, 24, 63, 64, 65, max(len(want) - 1, 0), len(want), len(want) + 5])
                got, exp = infp.seek(pos), model.seek(pos)
            elif choice == 3:
                got, exp = infp.tell(), model.tell()
            elif choice == 4:
                back = rnd.choice([0, 1, 8, 30, 64])
                if back > len(want):
                    continue
                got, exp = infp.seek(-back, 2), model.seek(-back, 2)
            else:
                if rnd.randrange(4):
                    continue
                got, exp = infp.readall(), model.read()
            if other is not None and step % 7 == 0:
                # something else going on on the same image in between
                get(iso, **other)
                with iso.open_file_from_iso(**other) as otherfp:
                    otherfp.read(10)
            if got != exp:
                problems.append(tag + 'step %d (kind %d): stream gives %r, an in-memory stream of the file gives %r' % (step, choice, got, exp))
                return


def one(kind, length, problems):
    raw = content(length, b'X')
    plain = content(777, b'P')
    iso = pycdlib.PyCdlib()
    if kind == 'iso':
        iso.new()
        kw = lambda n: {}  # noqa: E731
        names = [{'iso_path': '/B1.;1'}]
        other = {'iso_path': '/PLAIN.;1'}
        dirkw = {}
    elif kind == 'rrjoliet':
        iso.new(rock_ridge='1.09', joliet=3)
        kw = lambda n: {'rr_name': n, 'joliet_path': '/' + n}  # noqa: E731
        names = [{'iso_path': '/B1.;1'}, {'rr_path': '/b1'}, {'joliet_path': '/b1'}]
        other = {'joliet_path': '/plain'}
        dirkw = {'rr_name': 'dir2', 'joliet_path': '/dir2'}
    else:
        iso.new(udf='2.60')
        kw = lambda n: {'udf_path': '/' + n}  # noqa: E731
        names = [{'iso_path': '/B1.;1'}, {'udf_path': '/b1'}]
        other = {'udf_path': '/plain'}
        dirkw = {'udf_path': '/dir2'}
    iso.add_fp(io.BytesIO(raw), len(raw), '/B1.;1', **kw('b1'))
    iso.add_fp(io.BytesIO(plain), len(plain), '/PLAIN.;1', **kw('plain'))
    iso.add_eltorito('/B1.;1', '/BOOT.CAT;1', boot_info_table=True)

    when = '%s, not yet written,' % (kind)
    want = get(iso, iso_path='/B1.;1')
    if length >= 24 and table_of(want)[2] != length:
        problems.append(when + ' precondition failed: get_file_from_iso_fp() has no table')
    for name in names:
        stream_check(iso, name, want, when, problems, other)
    stream_check(iso, other, plain, when, problems)

    iso.write('image.iso')
    iso.close()
    with open('image.iso', 'rb') as infp:
        image = infp.read()
    cat = struct.unpack_from('<L', image, 17 * S + 71)[0]
    rba = struct.unpack_from('<L', image, cat * S + 32 + 8)[0]
    stored = image[rba * S:rba * S + length]

    iso = pycdlib.PyCdlib()
    iso.open('image.iso')
    when = '%s, opened,' % (kind)
    for name in names:
        stream_check(iso, name, stored, when, problems, other)
    stream_check(iso, other, plain, when, problems)

    if length >= 64:
        when = '%s, opened and changed,' % (kind)
        iso.add_directory('/DIR2', **dirkw)
        want = get(iso, iso_path='/B1.;1')
        for name in names:
            stream_check(iso, name, want, when, problems, other)
        out = io.BytesIO()
        iso.write_fp(out)
        image = out.getvalue()
        cat = struct.unpack_from('<L', image, 17 * S + 71)[0]
        rba = struct.unpack_from('<L', image, cat * S + 32 + 8)[0]
        if image[rba * S:rba * S + length] != want:
            problems.append(when + ' bytes read before write() are not the bytes that were written')
    iso.close()


def main():
    problems = []
    for kind in ('iso', 'rrjoliet', 'udf'):
        for length in (3000, 2048, 70, 64, 30, 9, 5):
            try:
                one(kind, length, problems)
            except Exception as err:  # pylint: disable=broad-except
                problems.append('%s %d: %s: %s' % (kind, length, type(err).__name__, err))

    if problems:
        for problem in problems[:40]:
            print('PROBLEM: ' + problem)
        if len(problems) > 40:
            print('... and %d more' % (len(problems) - 40))
        return 1
    print('OK')
    return 0


if __name__ == '__main__':
    tmpdir = tempfile.mkdtemp(prefix='w5')
    olddir = os.getcwd()
    os.chdir(tmpdir)
    try:
        ret = main()
    finally:
        os.chdir(olddir)
        shutil.rmtree(tmpdir, ignore_errors=True)
    sys.exit(ret)
