"""SA-COORD: a position is computed from the cached coordinates of exactly one record (C02, C09, C17).

DirectoryRecord caches where it sits inside its parent directory (extents_to_here, offset_to_here,
index_in_parent).  Code that turns these into an absolute image offset (modify_file_in_place) or hands an
index to the parent (remove_child(child, index)) must take every coordinate - and the parent, and the
record length - from the *same* record.  Mixing two records (e.g. the ISO9660 record found by path and
the Joliet/link record being rewritten) is right whenever both happen to sit in the same sector of
their directories, which is what every small test image does.

For each block of statements that reads a coordinate attribute, the rule collects the receiver
expressions of all coordinate attributes, of `.parent` / `.dr_len` read in the same statements, and the
record-typed arguments of calls that are passed `<r>.index_in_parent`; there must be exactly one.
"""
import ast

from ..registry import rule, props
from ..report import Ob
from ..model import norm, type_classes, AnalysisError

COORD = ('extents_to_here', 'offset_to_here', 'index_in_parent')
# where a record was found in the opened image: a coordinate for SA-COORD, but not part of the cache that
# _recalculate_extents_and_offsets refreshes
FOUND_AT = ('orig_offset',)
WITH = ('parent', 'dr_len')
REC = 'dr.DirectoryRecord'


@rule('SA-COORD')
@props('C02', 'C09', 'C17')
def coord(ctx):
    obs = []
    ngroups = 0
    for fi in ctx.m.pkg_functions():
        if fi.cls is not None and fi.cls.qual == REC:
            continue           # the record maintains its own cache
        par = None
        groups = {}
        for n in ctx.own_nodes(fi):
            if isinstance(n, ast.Attribute) and n.attr in COORD + FOUND_AT and isinstance(n.ctx, ast.Load) and \
                    REC in type_classes(ctx.t.expr_type(n.value, fi)):
                st = ctx.enclosing_stmt(fi, n)
                if par is None:
                    par = ctx.parents(fi)
                if isinstance(par.get(id(n)), ast.Compare):
                    continue      # comparing the coordinates of two records is not computing a position
                blk = id(par.get(id(st)))
                groups.setdefault(blk, []).append(st)
        for blk, stmts in groups.items():
            ngroups += 1
            recvs = {}
            seen = set()
            for st in stmts:
                if id(st) in seen:
                    continue
                seen.add(id(st))
                for n in ast.walk(st):
                    if isinstance(n, ast.Attribute) and isinstance(n.ctx, ast.Load) and (n.attr in COORD + FOUND_AT or n.attr in WITH) and \
                            REC in type_classes(ctx.t.expr_type(n.value, fi)):
                        recvs.setdefault(norm(n.value), []).append(n)
                    if isinstance(n, ast.Call) and any(isinstance(a, ast.Attribute) and a.attr == 'index_in_parent' for a in n.args):
                        for a in n.args:
                            if not isinstance(a, ast.Attribute) or a.attr not in COORD + FOUND_AT:
                                if REC in type_classes(ctx.t.expr_type(a, fi)):
                                    recvs.setdefault(norm(a), []).append(a)
            # `x.parent.<something>`: x is the receiver, x.parent is not a second record
            roots = set(recvs)
            key = '%s|%s' % (fi.qual, norm(stmts[0])[:90])
            ok = len(roots) == 1
            obs.append(Ob('SA-COORD', key, ok, ctx.loc(fi, stmts[0]),
                          '' if ok else 'the position is put together from the cached coordinates of different records (%s): they agree only while both records '
                          'sit in the same sector / at the same index of their directories, otherwise the bytes of another record (or another directory) are addressed'
                          % ', '.join('`%s`' % r for r in sorted(roots))))
    # inside a loop over the records linked to an inode the record whose bytes are rewritten is the loop variable:
    # every coordinate read there has the loop variable as its receiver (the record that was looked up by path to
    # find the inode is a different record as soon as the file has a second name)
    nloop = 0
    for fi in ctx.m.pkg_functions():
        for loop in ctx.own_nodes(fi):
            if not (isinstance(loop, ast.For) and isinstance(loop.iter, ast.Attribute) and loop.iter.attr == 'linked_records'):
                continue
            t = loop.target
            var = t.elts[0].id if isinstance(t, ast.Tuple) and t.elts and isinstance(t.elts[0], ast.Name) else t.id if isinstance(t, ast.Name) else None
            if var is None:
                continue
            reads = [n for s in loop.body for n in ast.walk(s) if isinstance(n, ast.Attribute) and n.attr in COORD + FOUND_AT and isinstance(n.ctx, ast.Load)]
            if not reads:
                continue
            nloop += 1
            bad = [n for n in reads if not (isinstance(n.value, ast.Name) and n.value.id == var)]
            obs.append(Ob('SA-COORD', '%s|for %s in %s: coordinates of the loop record' % (fi.qual, var, norm(loop.iter)), not bad, ctx.loc(fi, bad[0] if bad else loop),
                          '' if not bad else '`%s` (line %d) is read inside the loop that rewrites each record linked to the inode, but it is a coordinate of `%s`, not of '
                          'the loop record `%s`: every other name of the file is written at the position of that one record' % (
                              norm(bad[0]), bad[0].lineno, norm(bad[0].value), var)))
    if ngroups < 5:
        raise AnalysisError('anchor-vanished: coordinate computations (%d)' % ngroups)
    if nloop < 1:
        raise AnalysisError('anchor-vanished: no loop over linked_records reads a record coordinate (modify_file_in_place)')
    return obs


@rule('SA-COORD.refresh')
@props('C01', 'C02', 'C07')
def refresh(ctx):
    """The coordinate cache is refreshed totally: the loop that renumbers the children of a directory
    (the only writer of extents_to_here / offset_to_here / index_in_parent) assigns all three on every
    iteration, runs to the end of the children list and has no early exit.  The three values do not move
    together (an insertion that is absorbed by the slack of a sector leaves the offsets of later records
    unchanged but still shifts their index), so a "nothing changed, stop" shortcut on some of them leaves
    the others stale; removal by index then deletes a neighbour of the addressed record."""
    obs = []
    found = 0
    for fi in ctx.m.pkg_functions():
        if fi.cls is None or fi.cls.qual != REC:
            continue
        for loop in [n for n in ctx.own_nodes(fi) if isinstance(n, (ast.For, ast.While))]:
            written = {}
            for n in ast.walk(loop):
                if isinstance(n, (ast.Assign, ast.AugAssign)):
                    for t in (n.targets if isinstance(n, ast.Assign) else [n.target]):
                        if isinstance(t, ast.Attribute) and t.attr in COORD and isinstance(t.value, ast.Name) and t.value.id != 'self':
                            written.setdefault(t.value.id, set()).add(t.attr)
            for var, attrs in written.items():
                found += 1
                key = '%s|loop over %s' % (fi.qual, norm(loop.iter) if isinstance(loop, ast.For) else norm(loop.test))
                problems = []
                if attrs != set(COORD):
                    problems.append('assigns only %s of the cached coordinates' % sorted(attrs))
                # early exits inside the loop body
                for n in ast.walk(loop):
                    if isinstance(n, (ast.Return, ast.Break)) and n is not loop:
                        # a break/return that belongs to a nested loop still ends this iteration early only for `return`
                        problems.append('leaves the loop early at line %d (`%s`): the records behind that point keep their old values'
                                        % (n.lineno, norm(n).split('\n')[0][:60]))
                # every path through the body assigns all of them (must-def on the CFG, restricted to the loop)
                g = ctx.cfg(fi)
                head = g.node_of(loop)
                body_ids = set()
                for s in ast.walk(loop):
                    nd = g.node_of(s) if isinstance(s, ast.stmt) else None
                    if nd is not None:
                        body_ids.add(nd.id)

                def wr(n):
                    st = n.stmt
                    out = set()
                    if n.kind == 'stmt' and isinstance(st, (ast.Assign, ast.AugAssign)):
                        for t in (st.targets if isinstance(st, ast.Assign) else [st.target]):
                            if isinstance(t, ast.Attribute) and t.attr in COORD and isinstance(t.value, ast.Name) and t.value.id == var:
                                out.add(t.attr)
                    return out

                def transfer(n, st, lab):
                    if n is head:
                        return frozenset() if lab == 'T' else st
                    return st | frozenset(wr(n))
                IN = g.forward(frozenset(), transfer, lambda a, b: a & b, start=head)
                # state arriving back at the head along back edges
                back = None
                for n in g.nodes:
                    if n.id in body_ids and n is not head:
                        for m, lab in n.succ:
                            if m is head:
                                outst = IN.get(n.id)
                                if outst is None:
                                    continue
                                outst = outst | frozenset(wr(n))
                                back = outst if back is None else (back & outst)
                if back is not None and set(COORD) - set(back) and attrs == set(COORD):
                    problems.append('some path through the loop body does not assign %s' % sorted(set(COORD) - set(back)))
                if isinstance(loop, ast.For):
                    it = norm(loop.iter)
                    if 'len(self.children)' not in it and it != 'self.children' and not it.startswith('enumerate(self.children'):
                        problems.append('does not run to the end of self.children (`%s`)' % it)
                obs.append(Ob('SA-COORD.refresh', key, not problems, ctx.loc(fi, loop),
                              '' if not problems else 'the refresh of the cached coordinates of `%s` %s' % (var, '; '.join(problems))))
    if found < 1:
        raise AnalysisError('anchor-vanished: no loop refreshes the cached coordinates of DirectoryRecord children')
    return obs


@rule('SA-COORD.seekwrite')
@props('C01', 'C03', 'C17')
def seekwrite(ctx):
    """What is written at a descriptor's location is that descriptor.

    The image is assembled by pairs "seek to X.extent_location(), write Y.record()" (volume descriptors, boot records,
    UDF descriptors, in write() and in modify_file_in_place()).  For every write whose data is the record of an object
    (directly, or through a local `rec = Y.record(...)`) the positioning that precedes it on the path - the last seek
    before the write - has to be computed from the same object expression: X == Y.  Inside `for pvd in self.pvds` the
    loop variable and `self.pvd` are different objects for every copy but the first; mixing them writes each copy
    over the first one."""
    from .. import expand as ex
    from .. import cfg as cfgmod
    obs = []
    npairs = 0
    import re
    for fi in ctx.m.pkg_functions():
        if fi.module != 'pycdlib':
            continue
        g = None
        for n in ctx.own_nodes(fi):
            if not (isinstance(n, ast.Call) and isinstance(n.func, ast.Attribute) and n.func.attr in ('write', '_outfp_write_with_check')):
                continue
            data = n.args[-1] if n.args else None
            if data is None:
                continue
            st = ctx.enclosing_stmt(fi, n)
            x = ex.expand(ctx, fi, data, st)
            if not (isinstance(x, ast.Call) and isinstance(x.func, ast.Attribute) and x.func.attr == 'record'):
                continue
            written = norm(x.func.value)
            if g is None:
                g = ctx.cfg(fi)
            wn = g.node_of(st)
            if wn is None:
                continue
            # last seek before the write: walk predecessors (straight-line within the block is what the code does)
            seek = None
            par = ctx.parents(fi)
            blk = None
            p = par.get(id(st))
            for fld in ('body', 'orelse', 'finalbody'):
                b = getattr(p, fld, None)
                if isinstance(b, list) and any(z is st for z in b):
                    blk = b
            if blk is None:
                continue
            i = [k for k, z in enumerate(blk) if z is st][0]
            for z in reversed(blk[:i]):
                cs = [c for c in ast.walk(z) if isinstance(c, ast.Call) and isinstance(c.func, ast.Attribute) and c.func.attr in ('seek', '_seek_to_extent')]
                if cs:
                    seek = cs[-1]
                    break
                if any(isinstance(c, ast.Call) and isinstance(c.func, ast.Attribute) and c.func.attr in ('write', '_outfp_write_with_check') for c in ast.walk(z)):
                    break
            if seek is None or not seek.args:
                continue
            locs = [c for c in ast.walk(ex.expand(ctx, fi, seek.args[0], ctx.enclosing_stmt(fi, seek))) if isinstance(c, ast.Call) and isinstance(c.func, ast.Attribute) and c.func.attr == 'extent_location']
            if len(locs) != 1:
                continue
            npairs += 1
            at = norm(locs[0].func.value)
            ok = at == written or written.startswith(at + '.')      # a part of the located object (the boot info table inside its file)
            obs.append(Ob('SA-COORD.seekwrite', '%s|write %s.record() at its own location' % (fi.qual, written), ok, ctx.loc(fi, n),
                          '' if ok else 'the handle is positioned at `%s.extent_location()` and then `%s.record()` is written there: the record of one object lands on the '
                          'sectors of another (for every copy of a duplicated descriptor but the first, the copy is never updated and the first is overwritten)' % (at, written)))
    if npairs < 4:
        raise AnalysisError('anchor-vanished: seek-to-location / write-record pairs (%d)' % npairs)
    return obs
