"""
Witness for observation A: VolumeDescriptorDate.parse() followed by record()
should give back the 17 bytes that were parsed.

Usage: W1_voldate_parse_record_identity.py <path-to-checkout>
"""
import sys

sys.path.insert(0, sys.argv[1])

import pycdlib.dates  # noqa: E402  pylint: disable=wrong-import-position


def roundtrip(raw):
    date = pycdlib.dates.VolumeDescriptorDate()
    date.parse(raw)
    return date.record()


def main():
    problems = []

    # Timestamps that are valid according to Ecma-119 8.4.26.1; these must
    # always survive.
    valid = [
        b'2019010721250000\x00',
        b'2024022923595999\x04',
        b'0001010100000000\xd0',
        b'9999123123595999\x34',
        b'0000000000000000\x00',
    ]
    for raw in valid:
        out = roundtrip(raw)
        if out != raw:
            problems.append('valid field %r came back as %r' % (raw, out))

    # Fields whose digits are not a calendar time (or that are all zero with
    # a non-zero offset byte).
    invalid = [
        b'2024023012000000\x04',  # 30th of February
        b'2024010124000000\x00',  # hour 24
        b'0000000000000000\x04',  # all-zero digits, offset +1h
    ]
    for raw in invalid:
        out = roundtrip(raw)
        if out != raw:
            problems.append('field %r came back as %r' % (raw, out))

    if problems:
        print('parse-then-record of a Volume Descriptor Date is not the identity:')
        for problem in problems:
            print('  ' + problem)
        return 1

    print('OK')
    return 0


if __name__ == '__main__':
    sys.exit(main())
