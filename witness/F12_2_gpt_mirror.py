"""F-12.2: update_mac sets the Mac partition in the primary GPT only; the backup GPT keeps zeros."""
import io, sys
sys.path.insert(0, '/repo')
import pycdlib

iso = pycdlib.PyCdlib()
iso.new()
bios = b'\x00' * 0x40 + b'\xfb\xc0\x78\x70' + b'\x00' * (2048 - 0x44)
iso.add_fp(io.BytesIO(bios), len(bios), '/BOOT.;1')
iso.add_fp(io.BytesIO(b'e' * 4096), 4096, '/EFI.;1')
iso.add_fp(io.BytesIO(b'm' * 6144), 6144, '/MAC.;1')
iso.add_eltorito('/BOOT.;1', '/BOOT.CAT;1', boot_load_size=4)
iso.add_eltorito('/EFI.;1', efi=True, platform_id=0xef, boot_load_size=8)
iso.add_eltorito('/MAC.;1', efi=True, platform_id=0xef, boot_load_size=12)
iso.add_isohybrid(mac=True)
iso.force_consistency()
p = iso.isohybrid_mbr.primary_gpt.parts[2]
s = iso.isohybrid_mbr.secondary_gpt.parts[2]
print('primary', p.first_lba, p.last_lba, 'backup', s.first_lba, s.last_lba)
ok = (p.first_lba, p.last_lba) == (s.first_lba, s.last_lba) and p.first_lba != 0
iso.close()
print('OK' if ok else 'DEFECT')
sys.exit(0 if ok else 1)
