"""SA-OWN who-may-write: frozen (state, allowed writers) tables checked against the direct
writes of *all* functions (tables/owners.json), plus two derived instances:

SA-OWN.derived   every set_*/update_* method reachable from the recomputation pass
                 (_reshuffle_extents) is called only from functions reachable from that pass:
                 derived locations have no writer outside it.
SA-OWN.image     nobody but modify_file_in_place writes to the opened image (self._cdfp, aliases
                 of it, or a helper that is handed it as its output file).
SA-OWN.master    during mastering every direct .write on the output file is inside the checked
                 writer or one of the listed functions.
"""
import ast

from ..registry import rule, props, RULES
from ..report import Ob, load_json
from ..model import norm, AnalysisError
from .. import effects

TABLE = load_json('tables/owners.json', None)


def _mk_attr_rule(ent):
    rid = 'SA-OWN.' + ent['id']

    def check(ctx, ent=ent, rid=rid):
        obs = []
        ci = ctx.cls(ent['class'])
        if ci.slots is not None and ent['attr'] not in ci.slots:
            raise AnalysisError('anchor-vanished slot %s.%s' % (ent['class'], ent['attr']))
        ws = effects.writers_of(ctx, ent['class'], ent['attr'])
        if not ws:
            raise AnalysisError('anchor-vanished: no writer of %s.%s at all' % (ent['class'], ent['attr']))
        allowed = set(ent['allowed'])

        def delegated(fi, depth=0):
            # a private helper that only owners call (directly or through other such helpers) writes on their behalf:
            # extracting a few lines of an owner into a helper does not add a writer
            if not fi.name.startswith('_') or fi.name.startswith('__') or depth > 3:
                return False
            cs = ctx.callers().get(fi.qual, [])
            if not cs:
                return False
            return all(c.qual in allowed or delegated(c, depth + 1) for c, call in cs)
        for w in ws:
            q = w.fi.qual
            ok = q in allowed or delegated(w.fi)
            key = '%s.%s|writer %s' % (ent['class'], ent['attr'], q)
            obs.append(Ob(rid, key, ok, ctx.loc(w.fi, w.node),
                          '' if ok else '%s writes %s.%s (%s) but is not one of its owners %s: %s'
                          % (q, ent['class'], ent['attr'], norm(w.stmt)[:80] if w.stmt is not None else w.kind,
                             [a.split('.')[-1] for a in ent['allowed']], ent['reason'])))
        for a in ent['allowed']:
            if a not in ctx.m.functions:
                raise AnalysisError('anchor-vanished owner %s of %s.%s' % (a, ent['class'], ent['attr']))
        return obs
    check.props = tuple(ent['props'])
    check.rule_id = rid
    RULES[rid] = check


def _mk_caller_rule(ent):
    rid = 'SA-OWN.' + ent['id']

    def check(ctx, ent=ent, rid=rid):
        obs = []
        ctx.func(ent['callee'])
        cs = ctx.callers().get(ent['callee'], [])
        # unresolved calls with that method name count as possible callers
        name = ent['callee'].rsplit('.', 1)[1]
        for fi in ctx.m.functions.values():
            for c in ctx.calls(fi):
                if c.name == name and not c.callees and c.kind == 'unresolved':
                    cs = cs + [(fi, c)]
        if not cs:
            raise AnalysisError('anchor-vanished: %s has no caller' % ent['callee'])
        for caller, c in cs:
            ok = caller.qual in ent['allowed']
            obs.append(Ob(rid, '%s|caller %s' % (ent['callee'], caller.qual), ok, ctx.loc(caller, c.node),
                          '' if ok else '%s calls %s; only %s may: %s' % (caller.qual, ent['callee'], ent['allowed'], ent['reason'])))
        return obs
    check.props = tuple(ent['props'])
    check.rule_id = rid
    RULES[rid] = check


if TABLE is None:
    raise AnalysisError('tables/owners.json missing')
for _e in TABLE['attr_writers']:
    _mk_attr_rule(_e)
for _e in TABLE['callers']:
    _mk_caller_rule(_e)


@rule('SA-OWN.derived')
@props('C04', 'C06')
def derived(ctx):
    root = ctx.func('pycdlib.PyCdlib._reshuffle_extents')
    R = ctx.reachable_from([root])
    # a setter is "derived" when it writes at least one attribute that has no direct writer outside the pass
    # (set_data_length, called from the pass for the enhanced VD's root record, writes data_length, which the
    # edits maintain incrementally: not a derived location)
    from .reshuffle import derived as _derived_attrs
    D = _derived_attrs(ctx)[1]
    from .. import effects as _eff

    def _writes_derived(q):
        fi = ctx.m.functions[q]
        return any((cl, w.attr) in D for w in _eff.direct_writes(ctx, fi) for cl in w.classes)
    setters = [q for q in R if ctx.m.functions[q].name.startswith(('set_', 'update_')) and ctx.m.functions[q].cls is not None
               and _writes_derived(q)]
    if len(setters) < 30:
        raise AnalysisError('anchor-vanished: only %d derived setters reachable from _reshuffle_extents' % len(setters))
    obs = []
    callers = ctx.callers()
    for q in sorted(setters):
        cs = callers.get(q, [])
        bad = [(c, call) for c, call in cs if c.qual not in R]
        if not bad:
            obs.append(Ob('SA-OWN.derived', q, True, ctx.loc(ctx.m.functions[q], ctx.m.functions[q].node),
                          '%d call sites, all inside the recomputation pass' % len(cs)))
        for c, call in bad:
            obs.append(Ob('SA-OWN.derived', '%s|caller %s' % (q, c.qual), False, ctx.loc(c, call.node),
                          '%s assigns a derived location via %s outside the recomputation pass (not reachable from _reshuffle_extents)'
                          % (c.qual, q)))
    return obs


def _mentions_cdfp(e):
    for sub in ast.walk(e):
        if isinstance(sub, ast.Attribute) and sub.attr == '_cdfp':
            return True
    return False


WRITE_METHODS = ('write', 'writelines', 'truncate')


def _param_written(ctx, callee, idx, depth=0):
    """Does callee write to its idx-th positional parameter (file-like)?"""
    if depth > 4:
        return True
    params = callee.params[1:] if (callee.cls is not None and not callee.is_static) else callee.params
    if idx >= len(params):
        return False
    p = params[idx]
    for n in ctx.own_nodes(callee):
        if isinstance(n, ast.Call):
            if isinstance(n.func, ast.Attribute) and n.func.attr in WRITE_METHODS and isinstance(n.func.value, ast.Name) \
                    and n.func.value.id == p:
                return True
            for j, a in enumerate(n.args):
                if isinstance(a, ast.Name) and a.id == p:
                    cs, kind = ctx.t._resolve(n, callee)
                    if kind in ('func', 'method'):
                        for c2 in cs:
                            if _param_written(ctx, c2, j, depth + 1):
                                return True
                    elif norm(n.func) in ('os.sendfile',):
                        if j == 0:
                            return True
    return False


@rule('SA-OWN.image')
@props('C02', 'C17')
def image(ctx):
    ent = TABLE['image_writers']
    obs = []
    nsites = 0
    for fi in ctx.m.pkg_functions():
        aliases = set()
        for n in ctx.own_nodes(fi):
            if isinstance(n, ast.Assign) and _mentions_cdfp(n.value) and isinstance(n.value, ast.Attribute):
                for t in n.targets:
                    if isinstance(t, ast.Name):
                        aliases.add(t.id)

        def is_image(e):
            if isinstance(e, ast.Attribute) and e.attr == '_cdfp':
                return True
            if isinstance(e, ast.Name) and e.id in aliases:
                return True
            return False
        for n in ctx.own_nodes(fi):
            if not isinstance(n, ast.Call):
                continue
            hit = None
            if isinstance(n.func, ast.Attribute) and n.func.attr in WRITE_METHODS and is_image(n.func.value):
                hit = norm(n.func)
            else:
                for j, a in enumerate(n.args):
                    if is_image(a):
                        cs, kind = ctx.t._resolve(n, fi)
                        if kind in ('func', 'method'):
                            if any(_param_written(ctx, c2, j) for c2 in cs):
                                hit = '%s(arg %d)' % (norm(n.func), j)
            if hit is None:
                continue
            nsites += 1
            ok = fi.qual in ent['allowed']
            obs.append(Ob('SA-OWN.image', '%s|%s' % (fi.qual, hit), ok, ctx.loc(fi, n),
                          '' if ok else '%s writes to the opened image through %s; only %s may: %s'
                          % (fi.qual, hit, ent['allowed'], ent['reason'])))
    # data handles of parsed inodes alias the image: nobody writes through Inode.data_fp / InodeOpenData.data_fp
    for fi in ctx.m.pkg_functions():
        for n in ctx.own_nodes(fi):
            if isinstance(n, ast.Call) and isinstance(n.func, ast.Attribute) and n.func.attr in WRITE_METHODS:
                r = n.func.value
                if isinstance(r, ast.Attribute) and r.attr == 'data_fp':
                    obs.append(Ob('SA-OWN.image', '%s|%s' % (fi.qual, norm(n.func)), False, ctx.loc(fi, n),
                                  'writes through an inode data handle, which for parsed inodes is the opened image'))
                if isinstance(r, ast.Name) and r.id == 'data_fp':
                    obs.append(Ob('SA-OWN.image', '%s|%s' % (fi.qual, norm(n.func)), False, ctx.loc(fi, n),
                                  'writes through a handle obtained from InodeOpenData (the opened image for parsed inodes)'))
    if nsites < 4:
        raise AnalysisError('anchor-vanished: only %d writes to the opened image found (modify_file_in_place)' % nsites)
    return obs


@rule('SA-OWN.master')
@props('C04')
def master(ctx):
    ent = TABLE['master_writers']
    root = ctx.func('pycdlib.PyCdlib._write_fp')
    R = ctx.reachable_from([root])
    obs = []
    n = 0
    for q in sorted(R):
        fi = ctx.m.functions[q]
        if fi.module != 'pycdlib':
            continue
        for node in ctx.own_nodes(fi):
            if isinstance(node, ast.Call) and isinstance(node.func, ast.Attribute) and node.func.attr in WRITE_METHODS \
                    and isinstance(node.func.value, ast.Name) and node.func.value.id == 'outfp':
                n += 1
                ok = q in ent['allowed_direct']
                obs.append(Ob('SA-OWN.master', '%s|%s' % (q, norm(node)[:60]), ok, ctx.loc(fi, node),
                              '' if ok else 'direct write to the output image outside the bound/overlap-checked writer: %s' % ent['reason']))
    if n < 3:
        raise AnalysisError('anchor-vanished: mastering writes not found')
    return obs
