#!/usr/bin/env python
"""
Observation G: the first directory at depth 8 of a Rock Ridge ISO needs the
relocation directory RR_MOVED (Rock Ridge name 'rr_moved').  If the root
already has an entry with the Rock Ridge name 'rr_moved', add_directory() has
to be refused with PyCdlibInvalidInput before anything is changed: the image
written after the refused call must be the image written before it.

usage: W8_rr_moved_rr_name_taken.py <path-to-checkout>
"""
import io
import sys

sys.path.insert(0, sys.argv[1])

import pycdlib  # noqa: E402
from pycdlib import pycdlibexception  # noqa: E402


def build(first):
    iso = pycdlib.PyCdlib()
    iso.new(rock_ridge='1.09', interchange_level=3)
    first(iso)
    path = ''
    for i in range(7):
        path += '/D%d' % i
        iso.add_directory(path, rr_name='d%d' % i)
    return iso


def written(iso):
    out = io.BytesIO()
    iso.write_fp(out)
    return out.getvalue()


def main():
    problems = []

    takers = [
        ("directory /FOO with rr_name 'rr_moved'", lambda iso: iso.add_directory('/FOO', rr_name='rr_moved')),
        ("file /FOO.;1 with rr_name 'rr_moved'", lambda iso: iso.add_fp(io.BytesIO(b'abc'), 3, '/FOO.;1', rr_name='rr_moved')),
        ("directory /RR_MOVED with rr_name 'other'", lambda iso: iso.add_directory('/RR_MOVED', rr_name='other')),
    ]
    for label, first in takers:
        iso = build(first)
        before = written(iso)
        try:
            iso.add_directory('/D0/D1/D2/D3/D4/D5/D6/D7', rr_name='d7')
            problems.append('%s: the deep add_directory was accepted' % label)
        except pycdlibexception.PyCdlibInvalidInput as e:
            after = written(iso)
            if after != before:
                diffs = [i for i in range(min(len(before), len(after))) if before[i] != after[i]]
                problems.append('%s: refused (%s), but the ISO was changed: the written image differs in %d bytes (first at offset %d), length %d -> %d' % (
                    label, e, len(diffs), diffs[0] if diffs else -1, len(before), len(after)))
            names = [c.file_identifier() for c in iso.list_children(iso_path='/')]
            if label.startswith('directory /RR_MOVED'):
                if names.count(b'RR_MOVED') != 1:
                    problems.append('%s: root lists %r' % (label, names))
            elif b'RR_MOVED' in names:
                problems.append('%s: refused, but /RR_MOVED was left behind' % label)
        except Exception as e:  # pylint: disable=broad-except
            problems.append('%s: %s: %s' % (label, type(e).__name__, e))
        iso.close()

    # Without the clash the relocation works.
    iso = build(lambda iso: iso.add_directory('/FOO', rr_name='foo'))
    try:
        iso.add_directory('/D0/D1/D2/D3/D4/D5/D6/D7', rr_name='d7')
        out = io.BytesIO(written(iso))
        iso2 = pycdlib.PyCdlib()
        iso2.open_fp(out)
        iso2.get_record(rr_path='/d0/d1/d2/d3/d4/d5/d6/d7')
        iso2.get_record(rr_path='/rr_moved')
        iso2.close()
    except Exception as e:  # pylint: disable=broad-except
        problems.append('plain relocation: %s: %s' % (type(e).__name__, e))
    iso.close()

    if problems:
        print('\n'.join(problems))
        return 1
    print('OK')
    return 0


if __name__ == '__main__':
    sys.exit(main())
