"""F-14.x: refused edits that leave the image object changed.

Each scenario builds two identical objects; on one of them a call is made that the library refuses
with PyCdlibInvalidInput.  Afterwards the observable state of the two objects (volume sizes, the
trees of all namespaces, Rock Ridge link counts, inode / boot-record counts, hybrid and El Torito
presence) must be equal and the object must still be writable.  Usage: F14_atomicity.py [name ...]
Exit 1 if any scenario shows a difference (DEFECT), 0 otherwise."""
import io
import sys
sys.path.insert(0, '/repo')
import pycdlib
from pycdlib.pycdlibexception import PyCdlibInvalidInput


def snapshot(iso):
    snap = {}
    try:
        iso.force_consistency()
        snap['consistency'] = None
    except Exception as e:     # noqa
        snap['consistency'] = '%s: %s' % (type(e).__name__, e)
    snap.update({'space': iso.pvd.space_size, 'inodes': len(iso.inodes), 'brs': len(iso.brs),
                 'eltorito': iso.eltorito_boot_catalog is not None, 'hybrid': iso.isohybrid_mbr is not None})
    if iso.joliet_vd is not None:
        snap['jspace'] = iso.joliet_vd.space_size
    trees = {}
    links = {}
    try:
        kinds = ['iso_path']
        if iso.has_joliet():
            kinds.append('joliet_path')
        if iso.has_udf():
            kinds.append('udf_path')
        for k in kinds:
            items = []
            for root, dirs, files in iso.walk(**{k: '/'}):
                for d in dirs:
                    items.append(root.rstrip('/') + '/' + d + '/')
                for f in files:
                    items.append(root.rstrip('/') + '/' + f)
            trees[k] = sorted(items)
        if iso.has_rock_ridge():
            stack = [iso.pvd.root_directory_record()]
            while stack:
                rec = stack.pop()
                dot = rec.children[0].rock_ridge
                px = dot.dr_entries.px_record or dot.ce_entries.px_record
                links[iso.full_path_from_dirrecord(rec)] = px.posix_file_links
                for c in rec.children[2:]:
                    if c.is_dir():
                        stack.append(c)
    except Exception as e:     # noqa
        trees['error'] = '%s: %s' % (type(e).__name__, e)
    snap['trees'] = trees
    snap['links'] = links
    snap['bitables'] = sum(1 for i in iso.inodes if i.boot_info_table is not None)
    if iso.has_udf():
        snap['partlen'] = iso.udf_main_descs.partitions[0].part_length
    werr = None
    try:
        iso.write_fp(io.BytesIO())
    except Exception as e:     # noqa
        werr = '%s: %s' % (type(e).__name__, e)
    snap['write'] = werr
    return snap


def fp(data=b'x'):
    return io.BytesIO(data)


def base(**kw):
    iso = pycdlib.PyCdlib()
    iso.new(**kw)
    return iso


SCENARIOS = {}


def scenario(name, keys):
    def deco(fn):
        SCENARIOS[name] = (fn, keys)
        return fn
    return deco


@scenario('add_fp_joliet_parent_missing', ['pycdlib.PyCdlib._add_fp|num_bytes_to_add += self._add_hard_link_to_inode(ino, thislen, fmode, eltorito_catalog, joliet_new_path=joliet_path, continuation=offset > 0)'])
def s1():
    mk = lambda: base(joliet=3)
    return mk, lambda iso: iso.add_fp(fp(), 1, '/A.;1', joliet_path='/nodir/a')


@scenario('add_fp_udf_parent_missing', ['pycdlib.PyCdlib._add_fp|num_bytes_to_add += self._add_hard_link_to_inode(ino, length, fmode, eltorito_catalog, udf_new_path=udf_path)'])
def s2():
    mk = lambda: base(udf='2.60')
    return mk, lambda iso: iso.add_fp(fp(), 1, '/A.;1', udf_path='/nodir/a')


@scenario('add_directory_duplicate_rr_linkcount', ['pycdlib.PyCdlib.add_directory|num_bytes_to_add += self._add_child_to_dr(rec)'])
def s3():
    def mk():
        iso = base(rock_ridge='1.09')
        iso.add_directory('/DIR1', rr_name='dir1')
        return iso
    return mk, lambda iso: iso.add_directory('/DIR1', rr_name='dir1')


@scenario('add_directory_joliet_parent_missing', ['pycdlib.PyCdlib.add_directory|num_bytes_to_add += self._add_joliet_dir(self._normalize_joliet_path(joliet_path))'])
def s4():
    mk = lambda: base(joliet=3)
    return mk, lambda iso: iso.add_directory('/DIR1', joliet_path='/nodir/dir1')


@scenario('add_directory_udf_on_non_udf', ["pycdlib.PyCdlib.add_directory|raise pycdlibexception.PyCdlibInvalidInput('Can only specify a UDF path for a UDF ISO')"])
def s5():
    mk = lambda: base()
    return mk, lambda iso: iso.add_directory('/DIR1', udf_path='/dir1')


@scenario('add_directory_udf_path_relative', ['pycdlib.PyCdlib.add_directory|udf_path_bytes = utils.normpath(udf_path)'])
def s6():
    mk = lambda: base(udf='2.60')
    return mk, lambda iso: iso.add_directory('/DIR1', udf_path='dir1')


@scenario('add_directory_udf_parent_missing', ['pycdlib.PyCdlib.add_directory|udf_name, udf_parent = self._udf_name_and_parent_from_path(udf_path_bytes)'])
def s7():
    mk = lambda: base(udf='2.60')
    return mk, lambda iso: iso.add_directory('/DIR1', udf_path='/nodir/dir1')


@scenario('add_directory_udf_duplicate', ['pycdlib.PyCdlib.add_directory|num_new_extents = udf_parent.add_file_ident_desc(file_ident, self.logical_block_size)'])
def s8():
    def mk():
        iso = base(udf='2.60')
        iso.add_directory('/DIR0', udf_path='/same')
        return iso
    return mk, lambda iso: iso.add_directory('/DIR1', udf_path='/same')


@scenario('add_directory_udf_name_too_long', ['pycdlib.PyCdlib.add_directory|file_ident.new(True, False, udf_name, udf_parent)'])
def s9():
    mk = lambda: base(udf='2.60')
    return mk, lambda iso: iso.add_directory('/DIR1', udf_path='/' + 'u' * 300)


@scenario('add_symlink_udf_parent_missing', ['pycdlib.PyCdlib.add_symlink|udf_name, udf_parent = self._udf_name_and_parent_from_path(udf_symlink_path_bytes)'])
def s10():
    def mk():
        iso = base(rock_ridge='1.09', udf='2.60')
        iso.add_fp(fp(), 1, '/F.;1', rr_name='f', udf_path='/f')
        return iso
    return mk, lambda iso: iso.add_symlink('/SYM.;1', 'sym', 'f', udf_symlink_path='/nodir/sym', udf_target='f')


@scenario('add_symlink_udf_path_relative', ['pycdlib.PyCdlib.add_symlink|udf_symlink_path_bytes = utils.normpath(udf_symlink_path)'])
def s11():
    def mk():
        iso = base(rock_ridge='1.09', udf='2.60')
        return iso
    return mk, lambda iso: iso.add_symlink('/SYM.;1', 'sym', 'f', udf_symlink_path='sym', udf_target='f')


@scenario('add_symlink_udf_duplicate', ['pycdlib.PyCdlib.add_symlink|num_new_extents = udf_parent.add_file_ident_desc(file_ident, self.logical_block_size)'])
def s12():
    def mk():
        iso = base(rock_ridge='1.09', udf='2.60')
        iso.add_fp(fp(), 1, '/F.;1', rr_name='f', udf_path='/same')
        return iso
    return mk, lambda iso: iso.add_symlink('/SYM.;1', 'sym', 'f', udf_symlink_path='/same', udf_target='f')


@scenario('add_symlink_udf_name_too_long', ['pycdlib.PyCdlib.add_symlink|file_ident.new(False, False, udf_name, udf_parent)'])
def s13():
    mk = lambda: base(rock_ridge='1.09', udf='2.60')
    return mk, lambda iso: iso.add_symlink('/SYM.;1', 'sym', 'f', udf_symlink_path='/' + 'u' * 300, udf_target='f')


@scenario('add_symlink_joliet_on_non_joliet', [])
def s14():
    mk = lambda: base(rock_ridge='1.09')
    return mk, lambda iso: iso.add_symlink('/SYM.;1', 'sym', 'f', joliet_path='/sym')


@scenario('add_symlink_joliet_parent_missing', ['pycdlib.PyCdlib.add_symlink|joliet_name, joliet_parent = self._joliet_name_and_parent_from_path(joliet_path_bytes)'])
def s15():
    mk = lambda: base(rock_ridge='1.09', joliet=3)
    return mk, lambda iso: iso.add_symlink('/SYM.;1', 'sym', 'f', joliet_path='/nodir/sym')


@scenario('add_symlink_joliet_duplicate', ['pycdlib.PyCdlib.add_symlink|num_bytes_to_add += self._add_child_to_dr(joliet_rec)'])
def s16():
    def mk():
        iso = base(rock_ridge='1.09', joliet=3)
        iso.add_directory('/DIR1', rr_name='dir1', joliet_path='/same')
        return iso
    return mk, lambda iso: iso.add_symlink('/SYM.;1', 'sym', 'f', joliet_path='/same')


@scenario('add_eltorito_bad_platform', ['pycdlib.PyCdlib.add_eltorito|self.eltorito_boot_catalog.new(br, boot_dirrecord.inode, sector_count, boot_load_seg, media_name, system_type, platform_id, bootable)'])
def s17():
    def mk():
        iso = base()
        iso.add_fp(fp(b'b' * 2048), 2048, '/BOOT.;1')
        return iso
    return mk, lambda iso: iso.add_eltorito('/BOOT.;1', '/BOOT.CAT;1', platform_id=5)


@scenario('add_eltorito_bad_media_name', ['eltorito.EltoritoBootCatalog.new|self.initial_entry.new(sector_count, load_seg, media_name, system_type, bootable)'])
def s18():
    def mk():
        iso = base()
        iso.add_fp(fp(b'b' * 2048), 2048, '/BOOT.;1')
        return iso
    return mk, lambda iso: iso.add_eltorito('/BOOT.;1', '/BOOT.CAT;1', media_name='bogus')


@scenario('add_eltorito_bootcat_parent_missing', ['pycdlib.PyCdlib.add_eltorito|num_bytes_to_add += self._add_fp(None, self.logical_block_size, False, bootcatfile, rrname, joliet_bootcatfile, udf_bootcatfile, None, True)'])
def s19():
    def mk():
        iso = base()
        iso.add_fp(fp(b'b' * 2048), 2048, '/BOOT.;1')
        return iso
    return mk, lambda iso: iso.add_eltorito('/BOOT.;1', '/NODIR/BOOT.CAT;1')


@scenario('add_eltorito_second_section_bad_media', ['pycdlib.PyCdlib.add_eltorito|self.eltorito_boot_catalog.add_section(boot_dirrecord.inode, sector_count, boot_load_seg, media_name, system_type, efi, bootable)'])
def s20():
    def mk():
        iso = base()
        iso.add_fp(fp(b'b' * 2048), 2048, '/BOOT.;1')
        iso.add_fp(fp(b'c' * 2048), 2048, '/BOOT2.;1')
        iso.add_eltorito('/BOOT.;1', '/BOOT.CAT;1')
        return iso
    return mk, lambda iso: iso.add_eltorito('/BOOT2.;1', media_name='bogus', boot_info_table=True)


@scenario('add_eltorito_hdemul_bad_mbr', ['pycdlib.PyCdlib.add_eltorito|system_type = eltorito.hdmbrcheck(disk_mbr, sector_count, bootable)',
                                          "pycdlib.PyCdlib.add_eltorito|raise pycdlibexception.PyCdlibInvalidInput('Could not read entire HD MBR, must be at least 512 bytes')"])
def s21():
    def mk():
        iso = base()
        iso.add_fp(fp(b'b' * 2048), 2048, '/BOOT.;1')
        return iso
    return mk, lambda iso: iso.add_eltorito('/BOOT.;1', '/BOOT.CAT;1', media_name='hdemul', boot_info_table=True)


@scenario('add_isohybrid_bad_geometry', ['pycdlib.PyCdlib.add_isohybrid|self.isohybrid_mbr.new(efi, mac, part_entry, mbr_id, part_offset, geometry_sectors, geometry_heads, part_type)'])
def s22():
    def mk():
        iso = base()
        boot = b'\x00' * 0x40 + b'\xfb\xc0\x78\x70' + b'\x00' * (2048 - 0x44)
        iso.add_fp(fp(boot), len(boot), '/BOOT.;1')
        iso.add_eltorito('/BOOT.;1', '/BOOT.CAT;1', boot_load_size=4)
        return iso
    return mk, lambda iso: iso.add_isohybrid(geometry_sectors=99)


@scenario('rm_directory_joliet_missing', ['pycdlib.PyCdlib.rm_directory|num_bytes_to_remove += self._rm_joliet_dir(self._normalize_joliet_path(joliet_path))'])
def s23():
    def mk():
        iso = base(joliet=3)
        iso.add_directory('/DIR1', joliet_path='/dir1')
        return iso
    return mk, lambda iso: iso.rm_directory('/DIR1', joliet_path='/other')


@scenario('rm_directory_udf_on_non_udf', ["pycdlib.PyCdlib.rm_directory|raise pycdlibexception.PyCdlibInvalidInput('Can only specify a UDF path for a UDF ISO')"])
def s24():
    def mk():
        iso = base()
        iso.add_directory('/DIR1')
        return iso
    return mk, lambda iso: iso.rm_directory('/DIR1', udf_path='/dir1')


@scenario('rm_directory_udf_missing', ['pycdlib.PyCdlib.rm_directory|num_extents_to_remove = udf_parent.remove_file_ident_desc_by_name(udf_name, self.logical_block_size)',
                                       'pycdlib.PyCdlib.rm_directory|udf_name, udf_parent = self._udf_name_and_parent_from_path(udf_path_bytes)'])
def s25():
    def mk():
        iso = base(udf='2.60')
        iso.add_directory('/DIR1', udf_path='/dir1')
        return iso
    return mk, lambda iso: iso.rm_directory('/DIR1', udf_path='/other')


@scenario('add_fp_udf_duplicate', ['pycdlib.PyCdlib._add_fp|num_bytes_to_add += self._add_hard_link_to_inode(ino, length, fmode, eltorito_catalog, udf_new_path=udf_path)'])
def s2b():
    def mk():
        iso = base(udf='2.60')
        iso.add_fp(fp(), 1, '/A.;1', udf_path='/a')
        return iso
    return mk, lambda iso: iso.add_fp(fp(), 1, '/B.;1', udf_path='/a')


@scenario('add_fp_joliet_duplicate', ['pycdlib.PyCdlib._add_fp|num_bytes_to_add += self._add_hard_link_to_inode(ino, thislen, fmode, eltorito_catalog, joliet_new_path=joliet_path, continuation=offset > 0)'])
def s1b():
    def mk():
        iso = base(joliet=3)
        iso.add_fp(fp(), 1, '/A.;1', joliet_path='/a')
        return iso
    return mk, lambda iso: iso.add_fp(fp(), 1, '/B.;1', joliet_path='/a')


@scenario('add_directory_joliet_duplicate', ['pycdlib.PyCdlib.add_directory|num_bytes_to_add += self._add_joliet_dir(self._normalize_joliet_path(joliet_path))'])
def s4b():
    def mk():
        iso = base(joliet=3)
        iso.add_directory('/DIR1', joliet_path='/dir1')
        return iso
    return mk, lambda iso: iso.add_directory('/DIR2', joliet_path='/dir1')


@scenario('rm_directory_udf_is_file', ["pycdlib.PyCdlib.rm_directory|raise pycdlibexception.PyCdlibInvalidInput('Cannot remove a file with rm_directory (try rm_file instead)') (the UDF one)"])
def s25b():
    def mk():
        iso = base(udf='2.60')
        iso.add_directory('/DIR1', udf_path='/dir1')
        iso.add_fp(fp(), 1, '/FILE.;1', udf_path='/file')
        return iso
    return mk, lambda iso: iso.rm_directory('/DIR1', udf_path='/file')


@scenario('rm_directory_udf_nonempty', ['pycdlib.PyCdlib.rm_directory|num_extents_to_remove = udf_parent.remove_file_ident_desc_by_name(udf_ident.fi, self.logical_block_size)'])
def s25c():
    def mk():
        iso = base(udf='2.60')
        iso.add_directory('/DIR1', udf_path='/dir1')
        iso.add_fp(fp(), 1, udf_path='/dir1/inner')
        return iso
    return mk, lambda iso: iso.rm_directory('/DIR1', udf_path='/dir1')


@scenario('rm_directory_udf_relative', ['pycdlib.PyCdlib.rm_directory|udf_path_bytes = utils.normpath(udf_path)'])
def s26():
    def mk():
        iso = base(udf='2.60')
        iso.add_directory('/DIR1', udf_path='/dir1')
        return iso
    return mk, lambda iso: iso.rm_directory('/DIR1', udf_path='dir1')


@scenario('rm_directory_udf_root', ["pycdlib.PyCdlib.rm_directory|raise pycdlibexception.PyCdlibInvalidInput('Cannot remove base directory')"])
def s27():
    def mk():
        iso = base(udf='2.60')
        iso.add_directory('/DIR1', udf_path='/dir1')
        return iso
    return mk, lambda iso: iso.rm_directory('/DIR1', udf_path='/')


@scenario('add_hard_link_duplicate_dir_record', ['pycdlib.PyCdlib._add_hard_link_to_inode|num_bytes_to_add += self._add_child_to_dr(new_rec)'])
def s28():
    def mk():
        iso = base(rock_ridge='1.09')
        iso.add_directory('/FOO', rr_name='foo')
        iso.add_fp(fp(), 1, '/BAR.;1', rr_name='bar')
        return iso
    return mk, lambda iso: iso.add_hard_link(iso_old_path='/BAR.;1', iso_new_path='/FOO', rr_name='foo2')


@scenario('relocation_rr_moved_name_taken', ['pycdlib.PyCdlib._find_or_create_rr_moved|num_bytes_to_add = self._add_child_to_dr(rec)'])
def s29():
    def mk():
        iso = base(rock_ridge='1.09')
        # the user's own entry called RR_MOVED, then a chain deep enough to need relocation
        iso.add_directory('/RR_MOVED', rr_name='rr_moved')
        p = ''
        for i in range(7):
            p += '/D%d' % i
            iso.add_directory(p, rr_name='d%d' % i)
        return iso
    return mk, lambda iso: iso.add_directory('/D0/D1/D2/D3/D4/D5/D6/D7', rr_name='d7')


@scenario('add_symlink_joliet_relative', ['pycdlib.PyCdlib.add_symlink|joliet_path_bytes = self._normalize_joliet_path(joliet_path)'])
def s31():
    mk = lambda: base(rock_ridge='1.09', joliet=3)
    return mk, lambda iso: iso.add_symlink('/SYM.;1', 'sym', 'f', joliet_path='sym')


@scenario('relocation_name_leaves_no_room_for_rock_ridge', ['pycdlib.PyCdlib.add_directory|v0.new_dir(...)'])
def s40():
    # level 3 allows a 207 character directory name, a Rock Ridge directory record has no room for it; without
    # relocation that is refused before anything happens, with relocation RR_MOVED has been created by then
    def mk():
        iso = pycdlib.PyCdlib()
        iso.new(interchange_level=3, rock_ridge='1.09')
        p = ''
        for i in range(7):
            p += '/D%d' % i
            iso.add_directory(p, rr_name='d%d' % i)
        return iso
    return mk, lambda iso: iso.add_directory('/D0/D1/D2/D3/D4/D5/D6/' + 'L' * 200, rr_name='long')


@scenario('add_directory_joliet_empty_path', ['pycdlib.PyCdlib.add_directory|prevalidation'])
def s41():
    mk = lambda: base(joliet=3)
    return mk, lambda iso: iso.add_directory('/DIR1', joliet_path='')


@scenario('add_fp_udf_parent_missing_with_joliet', ['pycdlib.PyCdlib._add_fp|prevalidation'])
def s42():
    mk = lambda: base(joliet=3, udf='2.60')
    return mk, lambda iso: iso.add_fp(io.BytesIO(b'x'), 1, '/A.;1', joliet_path='/a', udf_path='/missing/a')


@scenario('add_eltorito_bootcat_joliet_duplicate', ['pycdlib.PyCdlib.add_eltorito|rollback'])
def s43():
    def mk():
        iso = base(joliet=3)
        iso.add_fp(io.BytesIO(b'b' * 2048), 2048, '/BOOT.;1', joliet_path='/boot')
        iso.add_fp(io.BytesIO(b'c'), 1, '/OTHER.;1', joliet_path='/boot.cat')
        return iso
    return mk, lambda iso: iso.add_eltorito('/BOOT.;1', bootcatfile='/BOOT.CAT;1', joliet_bootcatfile='/boot.cat')


def run(names):
    bad = []
    for name in names:
        fn, keys = SCENARIOS[name]
        mk, call = fn()
        a, b = mk(), mk()
        try:
            call(a)
            print('%-40s call was ACCEPTED (scenario does not apply)' % name)
            continue
        except PyCdlibInvalidInput as e:
            msg = str(e)
        except Exception as e:    # noqa
            msg = '%s: %s' % (type(e).__name__, e)
        sa, sb = snapshot(a), snapshot(b)
        diff = sorted(k for k in sb if sa.get(k) != sb.get(k))
        if diff:
            detail = '; '.join('%s: %r != %r' % (k, sa.get(k), sb.get(k)) for k in diff)
            print('%-40s refused (%s) but object changed: %s' % (name, msg[:50], detail[:300]))
            bad.append(name)
        else:
            print('%-40s refused (%s), object unchanged' % (name, msg[:50]))
    return bad


if __name__ == '__main__':
    names = sys.argv[1:] or sorted(SCENARIOS)
    bad = run(names)
    print('DEFECT (%d of %d scenarios)' % (len(bad), len(names)) if bad else 'OK')
    sys.exit(1 if bad else 0)
