"""
On a Rock Ridge image without XA records, a Rock Ridge name that happens to put
the letters 'XA' 6 bytes behind the file identifier (e.g. rr_name 'abXA' on
'/FOO.;1' with 1.09, 'aXA' with 1.12) is mistaken for an XA record when the
image is opened: open() fails with "Unused fields should be 0".
"""
import io
import sys

sys.dont_write_bytecode = True
sys.path.insert(0, sys.argv[1])
import pycdlib  # noqa: E402


def main():
    problems = []
    cases = []
    for version in ('1.09', '1.12'):
        for ident in ('/FO.;1', '/FOO.;1', '/FOOBAR.;1'):
            for lead in range(0, 16):
                for tail in ('', 'cdefghijk'):
                    cases.append((version, ident, 'a' * lead + 'XA' + tail))

    for version, ident, rr_name in cases:
        iso = pycdlib.PyCdlib()
        iso.new(rock_ridge=version)
        iso.add_fp(io.BytesIO(b'hello'), 5, ident, rr_name=rr_name)
        out = io.BytesIO()
        iso.write_fp(out)
        iso.close()

        where = 'rr %s %s rr_name=%r' % (version, ident, rr_name)
        iso = pycdlib.PyCdlib()
        try:
            iso.open_fp(io.BytesIO(out.getvalue()))
        except Exception as exc:  # pylint: disable=broad-except
            problems.append('%s: cannot open the written image: %s: %s'
                            % (where, type(exc).__name__, exc))
            continue
        rec = iso.get_record(iso_path=ident)
        if rec.rock_ridge is None or rec.rock_ridge.name() != rr_name.encode():
            problems.append('%s: name read back wrong' % where)
        if rec.xa_record is not None:
            problems.append('%s: an XA record was found on a non-XA image' % where)
        data = io.BytesIO()
        iso.get_file_from_iso_fp(data, iso_path=ident)
        if data.getvalue() != b'hello':
            problems.append('%s: file content read back wrong' % where)
        iso.close()

    # Real XA records must still be recognised.
    iso = pycdlib.PyCdlib()
    iso.new(rock_ridge='1.09', xa=True)
    iso.add_fp(io.BytesIO(b'hello'), 5, '/FOO.;1', rr_name='abXA')
    out = io.BytesIO()
    iso.write_fp(out)
    iso.close()
    iso = pycdlib.PyCdlib()
    iso.open_fp(io.BytesIO(out.getvalue()))
    rec = iso.get_record(iso_path='/FOO.;1')
    if rec.xa_record is None or rec.rock_ridge is None or rec.rock_ridge.name() != b'abXA':
        problems.append('XA image: XA record or Rock Ridge name not read back')
    iso.close()

    if problems:
        for line in problems[:12]:
            print(line)
        if len(problems) > 12:
            print('... %d problems in total' % len(problems))
        return 1
    print('OK')
    return 0


if __name__ == '__main__':
    sys.exit(main())
