"""Position-dependent copy propagation and path conditions (shared by the packing / fit rules).

expand(ctx, fi, expr, at_stmt)   AST copy of `expr` in which every local Name whose *only* reaching
                                 definition at `at_stmt` is a plain `name = value` is replaced by
                                 (the expansion of) that value.
conditions(ctx, fi, stmt)        the list of (test expr, polarity, at_stmt) that hold whenever `stmt`
                                 executes: enclosing if-tests, and the negation of every earlier
                                 `if t: raise/return/continue/break` in an enclosing block.
"""
import ast
import copy

from . import cfg as cfgmod


def _rd(ctx, fi):
    c = getattr(ctx, '_rdcache', None)
    if c is None:
        c = ctx._rdcache = {}
    if fi.qual not in c:
        g = ctx.cfg(fi)
        c[fi.qual] = (g, cfgmod.reaching_defs(g, [p.lstrip('*') for p in fi.params]))
    return c[fi.qual]


def _node_for(g, stmt):
    n = g.node_of(stmt)
    return n


_SCALAR = (ast.Attribute, ast.Name, ast.Constant, ast.BinOp, ast.BoolOp, ast.Compare, ast.UnaryOp, ast.Subscript, ast.IfExp,
           ast.operator, ast.boolop, ast.cmpop, ast.unaryop, ast.expr_context, ast.Slice)


def expand(ctx, fi, expr, at_stmt, depth=0, only=None):
    """only='pure': replace a name only by a defining expression made of attribute accesses, operators and method calls
    on names (no constructor / function calls at the top: `x = C()` stays `x`)"""
    g, RD = _rd(ctx, fi)
    node = _node_for(g, at_stmt)
    if node is None or depth > 12:
        return expr
    reach = RD.get(node.id) or frozenset()
    bynm = {}
    for nm, d in reach:
        bynm.setdefault(nm, set()).add(d)

    class T(ast.NodeTransformer):
        def visit_Name(self, n):
            if not isinstance(n.ctx, ast.Load):
                return n
            ds = bynm.get(n.id)
            if not ds or len(ds) != 1:
                return n
            dn = g.nodes[next(iter(ds))]
            st = dn.stmt
            if dn.kind == 'stmt' and isinstance(st, ast.Assign) and len(st.targets) == 1 and \
                    isinstance(st.targets[0], ast.Name) and st.targets[0].id == n.id:
                if st is at_stmt:
                    return n
                if only == 'pure' and (isinstance(st.value, ast.Call) and not isinstance(st.value.func, ast.Attribute) or
                                       isinstance(st.value, ast.Call) and _is_ctor_like(st.value)):
                    return n
                return expand(ctx, fi, copy.deepcopy(st.value), st, depth + 1, only)
            return n

    return T().visit(copy.deepcopy(expr))


def _is_ctor_like(call):
    """mod.Class(...) - a capitalised last component"""
    f = call.func
    name = f.attr if isinstance(f, ast.Attribute) else getattr(f, 'id', '')
    return bool(name) and name[0].isupper()


def _terminates(body):
    return bool(body) and isinstance(body[-1], (ast.Raise, ast.Return, ast.Continue, ast.Break))


def conditions(ctx, fi, stmt, enclosing_only=False):
    """[(test, polarity, at_stmt)] holding at `stmt` (structural, sound for single-entry blocks)."""
    par = ctx.parents(fi)
    out = []
    cur = stmt
    while True:
        p = par.get(id(cur))
        if p is None or isinstance(p, (ast.FunctionDef, ast.AsyncFunctionDef)) and p is fi.node:
            blocks = [fi.node.body] if p is not None else []
        else:
            blocks = []
        if p is None:
            break
        # which block of p holds cur?
        for fld in ('body', 'orelse', 'finalbody'):
            blk = getattr(p, fld, None)
            if isinstance(blk, list) and any(s is cur for s in blk):
                # earlier refusals in this block
                for s in blk:
                    if s is cur or enclosing_only:
                        break
                    if isinstance(s, ast.If) and not s.orelse and _terminates(s.body):
                        out.append((s.test, False, s))
                if isinstance(p, ast.If):
                    out.append((p.test, fld == 'body', p))
                elif isinstance(p, ast.While) and fld == 'body':
                    out.append((p.test, True, p))
                break
        if isinstance(p, (ast.FunctionDef, ast.AsyncFunctionDef)):
            break
        cur = p
    return out


def conjuncts(test, polarity):
    """Split a boolean test into atomic (expr, polarity) facts that all hold."""
    if isinstance(test, ast.UnaryOp) and isinstance(test.op, ast.Not):
        return conjuncts(test.operand, not polarity)
    if isinstance(test, ast.BoolOp):
        if isinstance(test.op, ast.And) and polarity:
            return [c for v in test.values for c in conjuncts(v, True)]
        if isinstance(test.op, ast.Or) and not polarity:
            return [c for v in test.values for c in conjuncts(v, False)]
        return [(test, polarity)]
    return [(test, polarity)]


NEG = {ast.Gt: ast.LtE, ast.GtE: ast.Lt, ast.Lt: ast.GtE, ast.LtE: ast.Gt, ast.Eq: ast.NotEq, ast.NotEq: ast.Eq}


def negate_compare(test):
    if isinstance(test, ast.Compare) and len(test.ops) == 1 and type(test.ops[0]) in NEG:
        t = copy.deepcopy(test)
        t.ops = [NEG[type(test.ops[0])]()]
        return t
    return None
