"""struct format model: fields with offsets, pack / unpack site extraction, field flow."""
import ast
import re
import struct

from .model import fold, NotConst, norm, AnalysisError
from . import cfg as cfgmod

_CODE_SIZE = {'x': 1, 'c': 1, 'b': 1, 'B': 1, '?': 1, 'h': 2, 'H': 2, 'i': 4, 'I': 4, 'l': 4,
              'L': 4, 'q': 8, 'Q': 8, 'e': 2, 'f': 4, 'd': 8, 's': 1, 'p': 1}


class Field:
    __slots__ = ('index', 'offset', 'width', 'code', 'endian')

    def __init__(self, index, offset, width, code, endian):
        self.index, self.offset, self.width, self.code, self.endian = index, offset, width, code, endian

    def __repr__(self):
        return '<%d@%d %s w%d %s>' % (self.index, self.offset, self.code, self.width, self.endian)


def parse_fmt(fmt):
    """-> (prefix, [Field]) for standard-size formats; value-carrying fields only (pads skipped
    but counted in offsets).  Raises ValueError for things we do not model."""
    if isinstance(fmt, bytes):
        fmt = fmt.decode('ascii')
    prefix = ''
    body = fmt
    if fmt and fmt[0] in '<>=!@':
        prefix = fmt[0]
        body = fmt[1:]
    fields = []
    off = 0
    idx = 0
    for cnt, code in re.findall(r'\s*(\d*)([a-zA-Z?])', body):
        if code not in _CODE_SIZE:
            raise ValueError('unknown struct code %r' % code)
        n = int(cnt) if cnt else 1
        if code in 'sp':
            fields.append(Field(idx, off, n, code, prefix))
            idx += 1
            off += n
        elif code == 'x':
            off += n
        else:
            for _ in range(n):
                fields.append(Field(idx, off, _CODE_SIZE[code], code, prefix))
                idx += 1
                off += _CODE_SIZE[code]
    return prefix, fields, off


class Site:
    """One struct.pack / unpack / unpack_from call."""
    __slots__ = ('kind', 'fi', 'call', 'fmt', 'fmt_src', 'prefix', 'fields', 'size', 'items',
                 'base_offset', 'buf', 'stmt')

    def __repr__(self):
        return '<%s %s %r>' % (self.kind, self.fi.qual, self.fmt)


def _fmt_value(ctx, fi, node, sdefs):
    mi = ctx.m.modules[fi.module]
    try:
        v = fold(node, ctx.m, mi, fi.cls)
        if isinstance(v, (str, bytes)):
            return v if isinstance(v, str) else v.decode('ascii')
    except NotConst:
        pass
    if isinstance(node, ast.Name) and node.id in sdefs:
        return _fmt_value(ctx, fi, sdefs[node.id], sdefs)
    return None


def sites(ctx, fi):
    """All struct pack/unpack sites in fi."""
    cache = getattr(ctx, '_struct_sites', None)
    if cache is None:
        cache = ctx._struct_sites = {}
    if fi.qual in cache:
        return cache[fi.qual]
    out = []
    sdefs = ctx.single_defs(fi)
    par = ctx.parents(fi)
    for n in ctx.own_nodes(fi):
        if not (isinstance(n, ast.Call) and isinstance(n.func, ast.Attribute) and
                isinstance(n.func.value, ast.Name) and n.func.value.id == 'struct' and
                n.func.attr in ('pack', 'unpack', 'unpack_from', 'pack_into')):
            continue
        if not n.args:
            continue
        s = Site()
        s.kind = n.func.attr
        s.fi = fi
        s.call = n
        s.fmt_src = norm(n.args[0])
        s.fmt = _fmt_value(ctx, fi, n.args[0], sdefs)
        s.prefix = s.fields = s.size = None
        s.items = None
        s.base_offset = None
        s.buf = None
        s.stmt = ctx.enclosing_stmt(fi, n)
        if s.fmt is not None:
            try:
                s.prefix, s.fields, s.size = parse_fmt(s.fmt)
            except ValueError:
                s.fields = None
        if s.kind == 'pack':
            s.items = list(n.args[1:])
        else:
            s.buf = n.args[1] if len(n.args) > 1 else None
            if s.kind == 'unpack_from':
                s.base_offset = n.args[2] if len(n.args) > 2 else ast.Constant(value=0)
                for kw in n.keywords:
                    if kw.arg == 'offset':
                        s.base_offset = kw.value
            # targets
            p = par.get(id(n))
            tg = None
            if isinstance(p, ast.Assign) and p.value is n and len(p.targets) == 1:
                tg = p.targets[0]
                if isinstance(tg, (ast.Tuple, ast.List)):
                    s.items = list(tg.elts)
                else:
                    s.items = None   # whole tuple stored in one name
            elif isinstance(p, ast.Subscript) and p.value is n and isinstance(p.slice, ast.Constant):
                # struct.unpack(...)[0]
                pp = par.get(id(p))
                if isinstance(pp, ast.Assign) and pp.value is p and len(pp.targets) == 1 and s.fields and len(s.fields) == 1:
                    s.items = [pp.targets[0]]
                elif isinstance(pp, ast.Return) and s.fields and len(s.fields) == 1:
                    s.items = [ast.Name(id='<return>', ctx=ast.Store())]
        out.append(s)
    cache[fi.qual] = out
    return out


def all_sites(ctx, pkg_only=True):
    fs = ctx.m.pkg_functions() if pkg_only else list(ctx.m.functions.values())
    out = []
    for fi in fs:
        out.extend(sites(ctx, fi))
    return out


def swab_width(call):
    """bit width if `call` is utils.swab_NNbit(E), else None."""
    if isinstance(call, ast.Call) and len(call.args) == 1:
        f = call.func
        nm = f.attr if isinstance(f, ast.Attribute) else (f.id if isinstance(f, ast.Name) else '')
        m = re.match(r'swab_(\d+)bit$', nm)
        if m:
            return int(m.group(1))
    return None


def resolve_local(expr, sdefs, depth=0):
    """Copy-propagate single-definition locals."""
    if depth > 8:
        return expr
    if isinstance(expr, ast.Name) and expr.id in sdefs:
        return resolve_local(sdefs[expr.id], sdefs, depth + 1)
    return expr
