"""SA-COORD.ce_tracked: every continuation area found on an opened image is handed to the allocator, the ER sector of
the root aside (C04, C08, C02).

When extents are assigned, the Rock Ridge continuation areas are placed through the blocks the volume descriptor knows
about (`track_rr_ce_entry` on open, `add_rr_ce_entry` on add) and each record's CE pointer is rewritten from its block
(`update_ce_block`).  A continuation area the parser read but did not register keeps the sector it had on the old
image: after the first edit that moves anything, the allocator gives that sector to a directory or to file data while
the record still points at it - two objects in one sector, and a long name or symlink target that reads as garbage.

Exactly one record is exempt: the `.` record of the root directory, whose continuation area is the ER sector and gets
a sector of its own (dr.py adds the ER entry only when `file_ident == b'\\x00' and parent.is_root`).  So the condition
under which the parser does *not* register a continuation area it has just read has to imply both "the directory being
walked is the root" and "the record is its dot entry".  The rule evaluates the guard over all truth assignments of its
atoms (temporaries expanded): an assignment that skips the registration while one of the two facts is false is
reported - `not A and not B` skips every record of the root and every dot record, where `not (A and B)` was meant.
"""
import ast
import itertools

from ..registry import rule, props
from ..report import Ob
from ..model import norm, AnalysisError
from .. import expand as ex


def _atoms(t, out):
    if isinstance(t, ast.BoolOp):
        for v in t.values:
            _atoms(v, out)
    elif isinstance(t, ast.UnaryOp) and isinstance(t.op, ast.Not):
        _atoms(t.operand, out)
    else:
        k = norm(t)
        if k not in out:
            out[k] = t
    return out


def _ev(t, env):
    if isinstance(t, ast.BoolOp):
        vals = [_ev(v, env) for v in t.values]
        return all(vals) if isinstance(t.op, ast.And) else any(vals)
    if isinstance(t, ast.UnaryOp) and isinstance(t.op, ast.Not):
        return not _ev(t.operand, env)
    return env[norm(t)]


def _is_root_atom(k):
    return k.endswith('.is_root')


def _is_dot_atom(k):
    k = k.replace(' ', '')
    return k.endswith('.is_dot()') or k.endswith(".file_ident==b'\\x00'") or k.endswith(".file_identifier()==b'\\x00'")


@rule('SA-COORD.ce_tracked')
@props('C04', 'C08', 'C02')
def ce_tracked(ctx):
    obs = []
    n = 0
    for fi in ctx.m.pkg_functions():
        for c in ctx.own_nodes(fi):
            if not (isinstance(c, ast.Call) and isinstance(c.func, ast.Attribute) and c.func.attr == 'track_rr_ce_entry'):
                continue
            n += 1
            st = ctx.enclosing_stmt(fi, c)
            # the guards between the read of the continuation area (the enclosing `ce_record is not None` block) and the call
            guards = []
            for test, pol, at in ex.conditions(ctx, fi, st, True):
                t = ex.expand(ctx, fi, test, at if isinstance(at, ast.stmt) else st, only='pure')
                if 'ce_record' in norm(t) and 'is not None' in norm(t):
                    break
                guards.append((t, pol))
            if not guards:
                obs.append(Ob('SA-COORD.ce_tracked', '%s|every continuation area read is registered' % fi.qual, True, ctx.loc(fi, c), 'unconditional'))
                continue
            atoms = {}
            for t, _p in guards:
                _atoms(t, atoms)
            keys = sorted(atoms)
            if len(keys) > 8:
                raise AnalysisError('SA-COORD.ce_tracked: guard of track_rr_ce_entry in %s has %d atoms' % (fi.qual, len(keys)))
            roots = [k for k in keys if _is_root_atom(k)]
            dots = [k for k in keys if _is_dot_atom(k)]
            bad = None
            for vals in itertools.product((False, True), repeat=len(keys)):
                env = dict(zip(keys, vals))
                run = all(_ev(t, env) == p for t, p in guards)
                if run:
                    continue
                if not (roots and dots and all(env[k] for k in roots) and all(env[k] for k in dots)):
                    bad = env
                    break
            obs.append(Ob('SA-COORD.ce_tracked', '%s|only the root dot record is exempt from registration' % fi.qual, bad is None, ctx.loc(fi, c),
                          '' if bad is None else 'the continuation area that was just read is not registered with the allocator (track_rr_ce_entry / update_ce_block '
                          'skipped) when %s; only the dot record of the root - whose continuation area is the ER sector - may be left out, so the guard has to '
                          'fail only when the directory is the root AND the record is its dot entry.  After the next edit the unregistered area keeps its old '
                          'sector, which the allocator hands to something else'
                          % ', '.join('%s is %s' % (k, v) for k, v in sorted(bad.items()))))
    if n < 1:
        raise AnalysisError('anchor-vanished: track_rr_ce_entry call in the parser')
    return obs
