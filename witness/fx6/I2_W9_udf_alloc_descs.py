#!/usr/bin/env python
"""
Observation H (2): udf._parse_allocation_descriptors() copies the rest of
the buffer for every 8 byte descriptor, so a File Entry with many allocation
descriptors makes open() take time quadratic in their number.  The image is
a pycdlib UDF image in which the File Entry of /foo is replaced by one with N
short allocation descriptors (the tag CRC is kept valid).  Opening four times
as many descriptors must take about four times as long (sixteen times when
quadratic); the limit used is eight times.

usage: W9_udf_alloc_descs.py <path-to-checkout>
"""
import binascii
import io
import struct
import sys
import time

sys.path.insert(0, sys.argv[1])

import pycdlib

problems = []

BS = 2048


def fix_tag(desc):
    # Recompute the CRC and the checksum of the descriptor tag at the start of desc.
    crclen, = struct.unpack_from('<H', desc, 10)
    struct.pack_into('<H', desc, 8, binascii.crc_hqx(bytes(desc[16:16 + crclen]), 0))
    desc[4] = 0
    desc[4] = sum(desc[:16]) % 256


def tag_ok(block, ident):
    if struct.unpack_from('<H', block, 0)[0] != ident:
        return False
    return (sum(block[:16]) - block[4]) % 256 == block[4]


def build(numdescs, long_ad):
    iso = pycdlib.PyCdlib()
    iso.new(udf='2.60')
    iso.add_fp(io.BytesIO(b'x' * 10), 10, '/FOO.;1', udf_path='/foo')
    out = io.BytesIO()
    iso.write_fp(out)
    iso.close()
    img = bytearray(out.getvalue())

    part_start = None
    dirblock = None
    for blk in range(len(img) // BS):
        block = img[blk * BS:(blk + 1) * BS]
        if part_start is None and tag_ok(block, 5):
            part_start, = struct.unpack_from('<L', block, 188)
        if dirblock is None and tag_ok(block, 257):
            dirblock = blk
    # Walk the File Identifier Descriptors of the root directory to 'foo'.
    off = dirblock * BS
    while True:
        (l_fi,) = struct.unpack_from('<B', img, off + 19)
        (l_iu,) = struct.unpack_from('<H', img, off + 36)
        fidlen = (38 + l_iu + l_fi + 3) & ~3
        if img[off + 38 + l_iu:off + 38 + l_iu + l_fi] == b'\x08foo':
            break
        off += fidlen
    fe_lbn, = struct.unpack_from('<L', img, off + 24)
    fe_off = (part_start + fe_lbn) * BS
    l_ea, l_ad = struct.unpack_from('<LL', img, fe_off + 168)
    header = bytearray(img[fe_off:fe_off + 176 + l_ea])
    first_len, first_pos = struct.unpack_from('<LL', img, fe_off + 176 + l_ea)
    if long_ad:
        # ICB tag flags: allocation descriptor type 1 (long_ad).
        flags, = struct.unpack_from('<H', header, 34)
        struct.pack_into('<H', header, 34, (flags & ~7) | 1)
        descs = struct.pack('<LLH6s', first_len, first_pos, 0, b'') + struct.pack('<LLH6s', 0, 0, 0, b'') * (numdescs - 1)
    else:
        descs = struct.pack('<LL', first_len, first_pos) + struct.pack('<LL', 0, 0) * (numdescs - 1)
    struct.pack_into('<L', header, 172, len(descs))
    # The CRC covers the fixed part of the File Entry only.
    struct.pack_into('<H', header, 10, len(header) - 16)
    fix_tag(header)
    newfe = bytes(header) + descs
    newfe += b'\x00' * (-len(newfe) % BS)

    new_blk = len(img) // BS
    img += newfe
    fid = bytearray(img[off:off + fidlen])
    struct.pack_into('<LL', fid, 20, len(newfe), new_blk - part_start)
    fix_tag(fid)
    img[off:off + fidlen] = fid
    return bytes(img)


def timed_open(img):
    best = None
    for attempt_unused in range(2):
        iso = pycdlib.PyCdlib()
        start = time.time()
        iso.open_fp(io.BytesIO(img))
        elapsed = time.time() - start
        got = io.BytesIO()
        iso.get_file_from_iso_fp(got, udf_path='/foo')
        if got.getvalue() != b'x' * 10:
            problems.append('/foo does not read back')
        iso.close()
        if best is None or elapsed < best:
            best = elapsed
    return best


for long_ad in (False, True):
    small = 24 * 1024
    large = 4 * small
    tsmall = timed_open(build(small, long_ad))
    tlarge = timed_open(build(large, long_ad))
    if tlarge > 8 * tsmall and tlarge > 0.5:
        problems.append('open() with %d %s allocation descriptors: %.2f s, with %d: %.2f s (%.1f times as long for 4 times the descriptors)' % (small, 'long' if long_ad else 'short', tsmall, large, tlarge, tlarge / tsmall))

if problems:
    print('\n'.join(problems))
    sys.exit(1)
print('OK')
