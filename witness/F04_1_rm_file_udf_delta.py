"""F-04.1: _rm_file_via_udf_path drops the byte delta returned by _rm_udf_file_ident (rm_hard_link adds it).
A UDF directory whose File Identifiers just spill into a second sector, one of them pointing at an all-zero File
Entry (seen on images in the wild): removing that entry with rm_file leaves the volume one sector larger than removing
it with rm_hard_link, although both end up with the same tree."""
import io, sys
sys.path.insert(0, '/repo')
import pycdlib

iso = pycdlib.PyCdlib()
iso.new(udf='2.60')
for i in range(46):
    iso.add_fp(io.BytesIO(b'x'), 1, '/F%02d.;1' % i, udf_path='/f%03d' % i)
out = io.BytesIO(); iso.write_fp(out)
victim = [f for f in iso.udf_root.fi_descs if f.fi == b'f045'][0]
fe_extent = victim.file_entry.extent_location()
nfid_extents = iso.udf_root.log_block_recorded
iso.close()
img = bytearray(out.getvalue())
img[fe_extent * 2048:(fe_extent + 1) * 2048] = b'\x00' * 2048      # the File Entry is blank on disc
sizes = {}
for how in ('rm_file', 'rm_hard_link'):
    i2 = pycdlib.PyCdlib(); i2.open_fp(io.BytesIO(bytes(img)))
    before = i2.pvd.space_size
    getattr(i2, how)(udf_path='/f045')
    i2.force_consistency()
    sizes[how] = before - i2.pvd.space_size
    i2.close()
print('sectors of file identifiers before:', nfid_extents, ' sectors released:', sizes)
ok = sizes['rm_file'] == sizes['rm_hard_link']
print('OK' if ok else 'DEFECT')
sys.exit(0 if ok else 1)
