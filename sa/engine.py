"""Analysis context shared by all rules: model + typer + call graph + CFG cache."""
import ast

from .model import Model, AnalysisError, norm, stmt_head
from .types import Typer
from . import cfg as cfgmod

RESOLUTION_FLOOR = 0.97   # confirmed by hand at 0.998 when the engine was built


class Ctx:
    def __init__(self, overlay=None, repo=None):
        self.m = Model(overlay=overlay, repo=repo)
        self.t = Typer(self.m)
        self._cfg = {}
        self._callers = None
        self._parents = {}
        self.notes = []

    # ---------------------------------------------------------------- basics
    def func(self, qual):
        return self.m.func(qual)

    def cls(self, qual):
        return self.m.cls(qual)

    def cfg(self, fi):
        c = self._cfg.get(fi.qual)
        if c is None:
            c = cfgmod.CFG(fi.node)
            if c.unknown:
                self.m.unanalysed.append(('stmt-kind', fi.qual, sorted(set(c.unknown))))
            self._cfg[fi.qual] = c
        return c

    def calls(self, fi):
        return self.t.calls(fi)

    def loc(self, fi, node):
        return '%s:%d' % (fi.path, getattr(node, 'lineno', 0) or 0)

    def own_nodes(self, fi):
        return self.t._own_nodes(fi.node)

    def parents(self, fi):
        """child ast node id -> parent ast node, within fi."""
        p = self._parents.get(fi.qual)
        if p is None:
            p = {}
            for n in ast.walk(fi.node):
                for c in ast.iter_child_nodes(n):
                    p[id(c)] = n
            self._parents[fi.qual] = p
        return p

    def enclosing_stmt(self, fi, node):
        p = self.parents(fi)
        cur = node
        while cur is not None and not isinstance(cur, ast.stmt):
            cur = p.get(id(cur))
        return cur

    def single_defs(self, fi):
        """name -> defining expression for locals bound exactly once by a plain
        `name = expr` (and never rebound by loops / aug-assign / with / params)."""
        c = getattr(self, '_sdefs', None)
        if c is None:
            c = self._sdefs = {}
        if fi.qual in c:
            return c[fi.qual]
        cnt = {}
        val = {}
        for p in fi.params:
            cnt[p.lstrip('*')] = 2
        for n in self.own_nodes(fi):
            if isinstance(n, ast.Assign):
                for t in n.targets:
                    if isinstance(t, ast.Name):
                        cnt[t.id] = cnt.get(t.id, 0) + 1
                        val[t.id] = n.value
                    else:
                        for nm in cfgmod.target_names(t):
                            cnt[nm] = cnt.get(nm, 0) + 2
            elif isinstance(n, (ast.AugAssign, ast.AnnAssign)):
                for nm in cfgmod.target_names(n.target):
                    cnt[nm] = cnt.get(nm, 0) + 2
            elif isinstance(n, (ast.For, ast.comprehension)):
                for nm in cfgmod.target_names(n.target):
                    cnt[nm] = cnt.get(nm, 0) + 2
            elif isinstance(n, ast.With):
                for it in n.items:
                    if it.optional_vars is not None:
                        for nm in cfgmod.target_names(it.optional_vars):
                            cnt[nm] = cnt.get(nm, 0) + 2
            elif isinstance(n, ast.NamedExpr):
                for nm in cfgmod.target_names(n.target):
                    cnt[nm] = cnt.get(nm, 0) + 2
        out = {k: v for k, v in val.items() if cnt.get(k) == 1}
        c[fi.qual] = out
        return out

    # ------------------------------------------------------------ call graph
    def callers(self):
        if self._callers is None:
            cs = {}
            for fi in self.m.functions.values():
                for c in self.calls(fi):
                    for cal in c.callees:
                        cs.setdefault(cal.qual, []).append((fi, c))
            self._callers = cs
        return self._callers

    def reachable_from(self, roots, stop=(), include_candidates=True):
        """Qualified names of functions reachable from the given FuncInfos."""
        seen = {}
        stack = [(r, None) for r in roots]
        while stack:
            fi, via = stack.pop()
            if fi.qual in seen or fi.qual in stop:
                continue
            seen[fi.qual] = via
            for c in self.calls(fi):
                tg = list(c.callees)
                if include_candidates and not tg:
                    tg = list(c.candidates)
                for cal in tg:
                    if cal.qual not in seen:
                        stack.append((cal, fi.qual))
            # nested functions defined inside are reachable when the parent is
            for q, f in self.m.functions.items():
                if f.parent is fi and q not in seen:
                    stack.append((f, fi.qual))
        return seen

    def chain(self, seen, qual):
        out = [qual]
        while seen.get(out[-1]) is not None:
            out.append(seen[out[-1]])
        return list(reversed(out))

    def resolution(self):
        tot, res, un = self.t.resolution_stats()
        rate = (res / tot) if tot else 0.0
        if rate < RESOLUTION_FLOOR:
            raise AnalysisError('call resolution rate %.3f below floor %.2f' % (rate, RESOLUTION_FLOOR))
        return tot, res, un

    def analysed(self):
        tot, res, un = self.resolution()
        return {
            'modules': len(self.m.modules),
            'classes': len(self.m.classes),
            'functions': len(self.m.functions),
            'attribute_call_sites': tot,
            'resolved_call_sites': res,
            'resolution_rate': round(res / tot, 4) if tot else 0,
            'unresolved_calls': ['%s: %s (%s)' % (u[0], u[1], u[2]) for u in un][:20],
            'unanalysed_constructs': [repr(u) for u in self.m.unanalysed][:20],
        }


def is_self_attr(node, attr=None, selfname='self'):
    return isinstance(node, ast.Attribute) and isinstance(node.value, ast.Name) and \
        node.value.id == selfname and (attr is None or node.attr == attr)


def call_name(call):
    f = call.func
    if isinstance(f, ast.Attribute):
        return f.attr
    if isinstance(f, ast.Name):
        return f.id
    return None


def raises_class(st):
    """Exception class name raised by an ast.Raise, or None."""
    if not isinstance(st, ast.Raise) or st.exc is None:
        return None
    f = st.exc.func if isinstance(st.exc, ast.Call) else st.exc
    if isinstance(f, ast.Attribute):
        return f.attr
    if isinstance(f, ast.Name):
        return f.id
    return None


def raise_message(st):
    if isinstance(st, ast.Raise) and isinstance(st.exc, ast.Call) and st.exc.args:
        a = st.exc.args[0]
        if isinstance(a, ast.Constant) and isinstance(a.value, str):
            return a.value
        return norm(a)
    return ''
