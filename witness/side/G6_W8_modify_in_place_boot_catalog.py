"""
modify_file_in_place() on the El Torito boot catalog file (which pycdlib
generates itself and which has no inode) raises PyCdlibInternalError('Child
file found without inode') instead of rejecting the request as invalid input.
"""
import io
import os
import shutil
import sys
import tempfile

sys.path.insert(0, sys.argv[1])
import pycdlib  # noqa: E402


def main():
    tmpdir = tempfile.mkdtemp()
    try:
        path = os.path.join(tmpdir, 'img.iso')
        iso = pycdlib.PyCdlib()
        iso.new()
        iso.add_fp(io.BytesIO(b'boot' * 30), 120, '/BOOT.;1')
        iso.add_eltorito('/BOOT.;1', '/BOOT.CAT;1')
        iso.write(path)
        iso.close()
        with open(path, 'rb') as fp:
            before = fp.read()

        iso = pycdlib.PyCdlib()
        iso.open(path, 'r+b')
        result = None
        try:
            iso.modify_file_in_place(io.BytesIO(b'y' * 2048), 2048, '/BOOT.CAT;1')
        except pycdlib.pycdlibexception.PyCdlibInvalidInput:
            result = 'refused'
        except Exception as e:  # pylint: disable=broad-except
            result = '%s: %s' % (type(e).__name__, e)
        iso.close()
        with open(path, 'rb') as fp:
            after = fp.read()
    finally:
        shutil.rmtree(tmpdir)

    if result is None:
        # Accepting the request is fine as long as the image stays usable.
        try:
            iso = pycdlib.PyCdlib()
            iso.open_fp(io.BytesIO(after))
            iso.close()
        except Exception as e:  # pylint: disable=broad-except
            print('modify_file_in_place on the boot catalog was accepted and broke the image: %r' % (e))
            return 1
        print('OK')
        return 0
    if result != 'refused':
        print('modify_file_in_place on the boot catalog: ' + result)
        return 1
    if before != after:
        print('modify_file_in_place refused the boot catalog but changed the image')
        return 1
    print('OK')
    return 0


if __name__ == '__main__':
    sys.exit(main())
