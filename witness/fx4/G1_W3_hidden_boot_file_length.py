#!/usr/bin/env python
"""
Witness for observation C: a boot file that is hidden from ISO9660 (with
rm_hard_link) but still has a name in Joliet or UDF, is bigger than its El
Torito load size and has no Boot Info Table, must keep its full length and
contents when the image is opened again, read, and written again.

usage: W3_hidden_boot_file_length.py <pycdlib checkout>
"""
import io
import os
import shutil
import struct
import sys
import tempfile

sys.path.insert(0, os.path.abspath(sys.argv[1]))
import pycdlib  # noqa: E402

S = 2048


def content(n, seed):
    return (seed * 8 + bytes(bytearray(range(256))) * (n // 256 + 1))[:n]


def entry_rbas(image):
    cat = struct.unpack_from('<L', image, 17 * S + 71)[0]
    rbas = [struct.unpack_from('<L', image, cat * S + 32 + 8)[0]]
    off = cat * S + 64
    while image[off] in (0x90, 0x91):
        nent = struct.unpack_from('<H', image, off + 2)[0]
        for index in range(nent):
            rbas.append(struct.unpack_from('<L', image, off + 32 * (index + 1) + 8)[0])
        last = image[off] == 0x91
        off += 32 * (1 + nent)
        if last:
            break
    return rbas


def read(iso, **kwargs):
    out = io.BytesIO()
    iso.get_file_from_iso_fp(out, **kwargs)
    return out.getvalue()


def one(namespace, problems):
    tag = '%s: ' % (namespace)
    b1 = content(7000, b'X')
    b2 = content(9000, b'Y')
    other = content(5000, b'O')
    if namespace == 'joliet':
        newkw = {'joliet': 3}
        names = lambda n: {'joliet_path': '/' + n}  # noqa: E731
    else:
        newkw = {'udf': '2.60'}
        names = lambda n: {'udf_path': '/' + n}  # noqa: E731

    iso = pycdlib.PyCdlib()
    iso.new(**newkw)
    iso.add_fp(io.BytesIO(b1), len(b1), '/B1.;1', **names('b1'))
    iso.add_fp(io.BytesIO(b2), len(b2), '/B2.;1', **names('b2'))
    iso.add_fp(io.BytesIO(other), len(other), '/OTHER.;1', **names('other'))
    iso.add_eltorito('/B1.;1', '/BOOT.CAT;1', boot_load_size=4)
    iso.add_eltorito('/B2.;1', '/BOOT.CAT;1', boot_load_size=4)
    iso.rm_hard_link(iso_path='/B1.;1')
    iso.rm_hard_link(iso_path='/B2.;1')
    iso.write('first.iso')
    iso.close()

    with open('first.iso', 'rb') as infp:
        first = infp.read()
    rbas = entry_rbas(first)
    if len(rbas) != 2 or first[rbas[0] * S:rbas[0] * S + len(b1)] != b1 or first[rbas[1] * S:rbas[1] * S + len(b2)] != b2:
        problems.append(tag + 'precondition failed: first image does not hold the boot files at their load addresses')
        return

    iso = pycdlib.PyCdlib()
    iso.open('first.iso')
    for name, data in (('b1', b1), ('b2', b2), ('other', other)):
        got = read(iso, **names(name))
        if got != data:
            problems.append(tag + 'after opening, reading %r returns %d bytes, the file has %d (a prefix: %s)'
                            % (names(name), len(got), len(data), data.startswith(got)))
        reclen = iso.get_record(**names(name)).get_data_length()
        if reclen != len(data):
            problems.append(tag + 'after opening, the record of %r says %d bytes' % (names(name), reclen))
        with iso.open_file_from_iso(**names(name)) as infp:
            got = infp.read()
        if got != data:
            problems.append(tag + 'after opening, open_file_from_iso(%r) returns %d bytes, the file has %d' % (names(name), len(got), len(data)))
    if iso.eltorito_boot_catalog.initial_entry.sector_count != 4:
        problems.append(tag + 'load size changed')

    # Change the layout and write again.
    if namespace == 'joliet':
        iso.add_directory('/D1', joliet_path='/d1')
    else:
        iso.add_directory('/D1', udf_path='/d1')
    iso.write('second.iso')
    iso.close()

    with open('second.iso', 'rb') as infp:
        second = infp.read()
    rbas = entry_rbas(second)
    for index, data in enumerate((b1, b2)):
        if second[rbas[index] * S:rbas[index] * S + len(data)] != data:
            stored = second[rbas[index] * S:rbas[index] * S + len(data)]
            good = 0
            while good < len(data) and stored[good:good + 1] == data[good:good + 1]:
                good += 1
            problems.append(tag + 'second image: only the first %d of %d bytes of boot file %d are at its load address (data loss)'
                            % (good, len(data), index + 1))
    iso = pycdlib.PyCdlib()
    iso.open('second.iso')
    for name, data in (('b1', b1), ('b2', b2), ('other', other)):
        got = read(iso, **names(name))
        if got != data:
            problems.append(tag + 'second image: reading %r returns %d bytes, the file has %d' % (names(name), len(got), len(data)))
    iso.close()


def main():
    problems = []
    for namespace in ('joliet', 'udf'):
        try:
            one(namespace, problems)
        except Exception as err:  # pylint: disable=broad-except
            problems.append('%s: %s: %s' % (namespace, type(err).__name__, err))

    # A boot file that has no name at all keeps working as before: its length
    # is the load size.
    b1 = content(2048, b'H')
    iso = pycdlib.PyCdlib()
    iso.new()
    iso.add_fp(io.BytesIO(b1), len(b1), '/B1.;1')
    iso.add_eltorito('/B1.;1', '/BOOT.CAT;1', boot_load_size=4)
    iso.rm_hard_link(iso_path='/B1.;1')
    iso.write('hidden.iso')
    iso.close()
    iso = pycdlib.PyCdlib()
    iso.open('hidden.iso')
    iso.add_directory('/D1')
    out = io.BytesIO()
    iso.write_fp(out)
    iso.close()
    image = out.getvalue()
    rba = entry_rbas(image)[0]
    if image[rba * S:rba * S + len(b1)] != b1:
        problems.append('completely hidden boot file is not at its load address after re-mastering')

    if problems:
        for problem in problems:
            print('PROBLEM: ' + problem)
        return 1
    print('OK')
    return 0


if __name__ == '__main__':
    tmpdir = tempfile.mkdtemp(prefix='w3')
    olddir = os.getcwd()
    os.chdir(tmpdir)
    try:
        ret = main()
    finally:
        os.chdir(olddir)
        shutil.rmtree(tmpdir, ignore_errors=True)
    sys.exit(ret)
