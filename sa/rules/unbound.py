"""SA-EXC.unbound: no local variable is read on a path on which it was never assigned (C15, C20).

UnboundLocalError is a NameError: neither the API boundary of open()/open_fp() (which converts
struct.error, IndexError, ... into PyCdlibInvalidISO) nor the tools catch it, so a read of a possibly
unassigned local on the parse path lets an undocumented exception escape on exactly the damaged images
that take the unusual branch.  Definite-assignment analysis on the statement CFG: the pseudo definition
"unassigned" is generated at function entry for every local, killed by an assignment (not along the
exception edge of the assigning statement), and must not reach a read.  Names bound by comprehensions,
parameters, globals and nonlocals are excluded.  Path-insensitive: correlated branches that cannot be
decided this way are listed one by one in tables/reviewed.json with the reason.
"""
import ast

from ..registry import rule, props
from ..report import Ob
from ..model import AnalysisError, norm
from .. import cfg as cfgmod
from .. import expand as ex


def _facts(ctx, fi, stmt, enclosing_only=False):
    """normalised (text, polarity) facts that hold at stmt; `x is not None` is the negation of `x is None`"""
    out = set()
    exprs = []
    for test, pol, at in ex.conditions(ctx, fi, stmt, enclosing_only):
        for t, p in ex.conjuncts(test, pol):
            if isinstance(t, ast.Compare) and len(t.ops) == 1 and isinstance(t.ops[0], (ast.IsNot, ast.NotEq)):
                import copy
                t2 = copy.deepcopy(t)
                t2.ops = [ast.Is() if isinstance(t.ops[0], ast.IsNot) else ast.Eq()]
                t, p = t2, not p
            out.add((norm(t), p))
            exprs.append(t)
    return out, exprs


def _expression_guards(ctx, fi, use_node, name):
    """facts that hold whenever `name` is read inside the expressions of this node because of the expression's own
    control flow: the test of an enclosing conditional expression (with the polarity of the branch the read is in)
    and the operands to the left in an enclosing `and` (true) / `or` (false)"""
    par = ctx.parents(fi)
    per_read = []
    for e in cfgmod.node_exprs(use_node):
        for sub in ast.walk(e):
            if isinstance(sub, ast.Name) and sub.id == name and isinstance(sub.ctx, ast.Load):
                facts = set()
                cur = sub
                while cur is not None and cur is not e:
                    p = par.get(id(cur))
                    if p is None:
                        break
                    if isinstance(p, ast.IfExp) and cur is not p.test:
                        for t, pol in ex.conjuncts(p.test, cur is p.body):
                            facts.add(_norm_fact(t, pol))
                    if isinstance(p, ast.BoolOp):
                        for v in p.values:
                            if v is cur:
                                break
                            for t, pol in ex.conjuncts(v, isinstance(p.op, ast.And)):
                                facts.add(_norm_fact(t, pol))
                    cur = p
                per_read.append(facts)
    if not per_read:
        return set()
    out = per_read[0]
    for f in per_read[1:]:
        out &= f
    return out


def _norm_fact(t, p):
    if isinstance(t, ast.Compare) and len(t.ops) == 1 and isinstance(t.ops[0], (ast.IsNot, ast.NotEq)):
        import copy
        t2 = copy.deepcopy(t)
        t2.ops = [ast.Is() if isinstance(t.ops[0], ast.IsNot) else ast.Eq()]
        return (norm(t2), not p)
    return (norm(t), p)


def _correlated(ctx, fi, use_node, name):
    """some assignment of `name` sits under conditions that all hold again at the use, over
    expressions that are not modified in between: the assignment has then been executed."""
    if use_node.stmt is None:
        return False
    U, _ = _facts(ctx, fi, use_node.stmt)
    U = set(U) | _expression_guards(ctx, fi, use_node, name)
    if not U:
        return False
    par = ctx.parents(fi)

    def loops_of(st):
        out = []
        cur = par.get(id(st))
        while cur is not None and cur is not fi.node:
            if isinstance(cur, (ast.For, ast.While, ast.Try, ast.ExceptHandler)):
                out.append(id(cur))
            cur = par.get(id(cur))
        return set(out)

    use_loops = loops_of(use_node.stmt)
    for st in ctx.own_nodes(fi):
        if not isinstance(st, (ast.Assign, ast.AugAssign, ast.AnnAssign)):
            continue
        tg = st.targets if isinstance(st, ast.Assign) else [st.target]
        if name not in [nm for t in tg for nm in cfgmod.target_names(t)]:
            continue
        if st.lineno >= use_node.stmt.lineno:
            continue
        in_other_loop = not loops_of(st) <= use_loops
        # flag idiom: `x = ...; found = True` in one block, `found = False` everywhere else, use under `found`
        blk = None
        pst = par.get(id(st))
        for fld in ('body', 'orelse', 'finalbody'):
            b = getattr(pst, fld, None)
            if isinstance(b, list) and any(z is st for z in b):
                blk = b
        flags = [z.targets[0].id for z in (blk or ()) if isinstance(z, ast.Assign) and len(z.targets) == 1 and isinstance(z.targets[0], ast.Name)
                 and isinstance(z.value, ast.Constant) and z.value.value is True]
        for fl in flags:
            if (fl, True) in U:
                others = [z for z in ctx.own_nodes(fi) if isinstance(z, ast.Assign) and any(isinstance(t, ast.Name) and t.id == fl for t in z.targets)
                          and not (isinstance(z.value, ast.Constant) and z.value.value in (True, False))]
                trues = [z for z in ctx.own_nodes(fi) if isinstance(z, ast.Assign) and any(isinstance(t, ast.Name) and t.id == fl for t in z.targets)
                         and isinstance(z.value, ast.Constant) and z.value.value is True]
                if not others and all(any(z is q for q in (blk or ())) for z in trues):
                    return True
        if in_other_loop:
            continue
        D, dexprs = _facts(ctx, fi, st, True)
        if not D or not D <= U:
            continue
        # the condition expressions are not assigned between the definition's guard and the use
        watched = set()
        for e in dexprs:
            for sub in ast.walk(e):
                if isinstance(sub, (ast.Name, ast.Attribute)):
                    watched.add(norm(sub))
        first = min(e.lineno for e in dexprs)
        clean = True
        for n in ctx.own_nodes(fi):
            if isinstance(n, (ast.Assign, ast.AugAssign, ast.AnnAssign, ast.For)) and first <= n.lineno <= use_node.stmt.lineno:
                tgs = n.targets if isinstance(n, ast.Assign) else [n.target]
                for t in tgs:
                    for el in (t.elts if isinstance(t, (ast.Tuple, ast.List)) else [t]):
                        tn = norm(el)
                        if any(w == tn or w.startswith(tn + '.') or w.startswith(tn + '[') for w in watched):
                            clean = False
        if clean:
            return True
    return False


def _comp_bound(expr):
    out = set()
    for n in ast.walk(expr):
        if isinstance(n, ast.comprehension):
            out |= set(cfgmod.target_names(n.target))
        elif isinstance(n, ast.Lambda):
            out |= set(a.arg for a in n.args.args)
    return out


def _analyse(ctx, fi):
    g = ctx.cfg(fi)
    params = [p.lstrip('*') for p in fi.params]
    locs = set()
    for n in g.nodes:
        for d in cfgmod.node_defs(n):
            locs.add(d)
    locs -= set(params)
    for n in ctx.own_nodes(fi):
        if isinstance(n, (ast.Global, ast.Nonlocal)):
            locs -= set(n.names)
    if not locs:
        return [], 0
    entry = frozenset((l, -1) for l in locs)
    defs_at = {n.id: cfgmod.node_defs(n) for n in g.nodes}

    def transfer(n, st, lab):
        ds = defs_at[n.id]
        if not ds or (n.kind == 'iter' and lab == 'F') or lab in ('exc', 'callexc'):
            return st
        names = set(ds)
        return frozenset(d for d in st if d[0] not in names)

    IN = g.forward(entry, transfer, lambda a, b: a | b)
    res = []
    nuses = 0
    for n in g.nodes:
        st = IN.get(n.id)
        if st is None:
            continue
        bound_here = set()
        for e in cfgmod.node_exprs(n):
            bound_here |= _comp_bound(e)
        for u in sorted(set(cfgmod.node_uses(n))):
            if u not in locs or u in bound_here:
                continue
            nuses += 1
            if (u, -1) in st and not _correlated(ctx, fi, n, u):
                res.append((n, u))
    return res, nuses


def _run(ctx, funcs, rid):
    obs = []
    total = 0
    for fi in funcs:
        res, nuses = _analyse(ctx, fi)
        total += nuses
        seen = set()
        for n, u in res:
            key = '%s|%s' % (fi.qual, u)
            if key in seen:
                continue
            seen.add(key)
            obs.append(Ob(rid, key, False, '%s:%d' % (fi.path, n.lineno),
                          'local `%s` is read here but some path from the function entry reaches this point without assigning it: '
                          'UnboundLocalError (a NameError, not one of the documented exception types and not converted at the API boundary)' % u))
        if not res and nuses:
            obs.append(Ob(rid, fi.qual, True, '%s:%d' % (fi.path, fi.node.lineno)))
    return obs, total


@rule('SA-EXC.unbound')
@props('C15')
def unbound_pkg(ctx):
    obs, total = _run(ctx, sorted(ctx.m.pkg_functions(), key=lambda f: f.qual), 'SA-EXC.unbound')
    if total < 3000:
        raise AnalysisError('anchor-vanished: reads of locals analysed (%d)' % total)
    return obs


@rule('SA-EXC.unbound_tool')
@props('C20')
def unbound_tool(ctx):
    fs = [f for f in ctx.m.functions.values() if ctx.m.modules[f.module].is_tool]
    obs, total = _run(ctx, sorted(fs, key=lambda f: f.qual), 'SA-EXC.unbound_tool')
    if total < 300:
        raise AnalysisError('anchor-vanished: reads of locals analysed in tools (%d)' % total)
    return obs
