"""
add_isohybrid(efi=True, part_entry=2) (or mac=True, part_entry=3, or a
part_entry outside 1..4) is accepted, but the written MBR then has no bootable
(0x80) partition at all and pycdlib itself refuses to open the image again
('No valid partition found in IsoHybrid!').
"""
import io
import sys

sys.path.insert(0, sys.argv[1])
import pycdlib  # noqa: E402

BOOT = b'\x00' * 0x40 + b'\xfb\xc0\x78\x70'


def attempt(kwargs, second_efi):
    iso = pycdlib.PyCdlib()
    iso.new()
    iso.add_fp(io.BytesIO(BOOT), len(BOOT), '/ISOLINUX.BIN;1')
    iso.add_eltorito('/ISOLINUX.BIN;1', boot_load_size=4)
    iso.add_fp(io.BytesIO(b'E' * 3000), 3000, '/EFIBOOT.IMG;1')
    iso.add_eltorito('/EFIBOOT.IMG;1', efi=True)
    if second_efi:
        iso.add_fp(io.BytesIO(b'M' * 3000), 3000, '/MACBOOT.IMG;1')
        iso.add_eltorito('/MACBOOT.IMG;1', efi=True)
    try:
        iso.add_isohybrid(**kwargs)
    except pycdlib.pycdlibexception.PyCdlibInvalidInput:
        # Refusing the request is fine.
        iso.close()
        return None
    out = io.BytesIO()
    iso.write_fp(out)
    iso.close()
    raw = out.getvalue()
    active = [i + 1 for i in range(4) if raw[446 + 16 * i] == 0x80]
    if len(active) != 1:
        return 'add_isohybrid(%r) accepted, but the MBR has %d bootable partitions' % (kwargs, len(active))
    try:
        iso2 = pycdlib.PyCdlib()
        iso2.open_fp(io.BytesIO(raw))
        iso2.close()
    except pycdlib.pycdlibexception.PyCdlibException as e:
        return 'add_isohybrid(%r) accepted, but the image cannot be opened again: %s' % (kwargs, e)
    return None


def main():
    problems = []
    for kwargs, second_efi in (({'efi': True, 'part_entry': 2}, False),
                               ({'mac': True, 'part_entry': 3}, True),
                               ({'efi': True, 'part_entry': 0}, False),
                               ({'efi': True, 'part_entry': 5}, False),
                               # These must keep working.
                               ({'efi': True, 'part_entry': 3}, False),
                               ({'efi': True, 'part_entry': 4}, False),
                               ({'mac': True, 'part_entry': 4}, True)):
        res = attempt(kwargs, second_efi)
        if res is not None:
            problems.append(res)

    # A usable slot must still be usable.
    iso = pycdlib.PyCdlib()
    iso.new()
    iso.add_fp(io.BytesIO(BOOT), len(BOOT), '/ISOLINUX.BIN;1')
    iso.add_eltorito('/ISOLINUX.BIN;1', boot_load_size=4)
    try:
        iso.add_isohybrid(part_entry=2)
        out = io.BytesIO()
        iso.write_fp(out)
        if out.getvalue()[446 + 16] != 0x80:
            problems.append('part_entry=2 without EFI did not produce a bootable partition 2')
    except pycdlib.pycdlibexception.PyCdlibException as e:
        problems.append('part_entry=2 without EFI was refused: %s' % (e))
    iso.close()

    if problems:
        print('\n'.join(problems))
        return 1
    print('OK')
    return 0


if __name__ == '__main__':
    sys.exit(main())
