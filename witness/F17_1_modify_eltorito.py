"""F-17.1: modify_file_in_place on a file that is also an El Torito boot file modifies the image and
then raises an internal error (unhandled record type in the linked-records loop)."""
import io, os, sys, tempfile
sys.path.insert(0, '/repo')
import pycdlib

iso = pycdlib.PyCdlib()
iso.new()
iso.add_fp(io.BytesIO(b'b' * 2048), 2048, '/BOOT.;1')
iso.add_fp(io.BytesIO(b'other'), 5, '/ZZ.;1')
iso.add_eltorito('/BOOT.;1', '/BOOT.CAT;1')
d = tempfile.mkdtemp(prefix='pycdlib-w-')
p = os.path.join(d, 'a.iso')
iso.write(p)
iso.close()
before = open(p, 'rb').read()
iso = pycdlib.PyCdlib()
iso.open(p, 'r+b')
err = None
try:
    iso.modify_file_in_place(io.BytesIO(b'c' * 2048), 2048, '/BOOT.;1')
except Exception as e:   # noqa
    err = '%s: %s' % (type(e).__name__, e)
iso.close()
after = open(p, 'rb').read()
os.remove(p); os.rmdir(d)
print('raised:', err, '| image changed:', before != after)
ok = err is None or before == after
print('OK' if ok else 'DEFECT')
sys.exit(0 if ok else 1)
