#!/usr/bin/env python3
"""
Witness for observation D (notes item 4): UDF false duplicate.  The files
'ab' and U+6162 (whose UTF-16BE bytes are 'ab') are different names, so both
must be accepted in one UDF directory, and each must read its own data.

  python W5_udf_false_duplicate.py <path-to-checkout>
"""
import os
import shutil
import subprocess
import sys
import tempfile

CHECKOUT = os.path.abspath(sys.argv[1])
sys.path.insert(0, CHECKOUT)

import pycdlib  # noqa: E402,F401  pylint: disable=wrong-import-position,unused-import


def tool(name, *args):
    """Run one of the tools of the checkout; returns (exit code, stdout, stderr)."""
    env = dict(os.environ)
    env['PYTHONPATH'] = CHECKOUT
    proc = subprocess.run([sys.executable, os.path.join(CHECKOUT, 'tools', name)] + list(args),
                          env=env, stdout=subprocess.PIPE, stderr=subprocess.PIPE,
                          universal_newlines=True, check=False)
    return proc.returncode, proc.stdout, proc.stderr


def last_line(text):
    lines = text.strip().splitlines()
    return lines[-1] if lines else ''


def make_tree(root, files):
    """files: relative path -> bytes (file), (target,) (symlink) or None (directory)."""
    os.makedirs(root)
    for rel, content in files.items():
        full = os.path.join(root, rel)
        if content is None:
            os.makedirs(full, exist_ok=True)
            continue
        os.makedirs(os.path.dirname(full), exist_ok=True)
        if isinstance(content, tuple):
            os.symlink(content[0], full)
        else:
            with open(full, 'wb') as outfp:
                outfp.write(content)


def tree(root):
    """relative path -> 'dir', ('link', target) or the file contents."""
    out = {}
    for dirpath, dirnames, filenames in os.walk(root):
        for name in dirnames + filenames:
            full = os.path.join(dirpath, name)
            rel = os.path.relpath(full, root)
            if os.path.islink(full):
                out[rel] = ('link', os.readlink(full))
            elif os.path.isdir(full):
                out[rel] = 'dir'
            else:
                with open(full, 'rb') as infp:
                    out[rel] = infp.read()
    return out


def diff_trees(want, got):
    problems = []
    for rel in sorted(set(want) - set(got)):
        problems.append('missing from the extracted tree: %s' % (rel))
    for rel in sorted(set(got) - set(want)):
        problems.append('not in the source tree: %s' % (rel))
    for rel in sorted(set(got) & set(want)):
        if got[rel] != want[rel]:
            problems.append('%s differs: source %r, extracted %r' % (rel, want[rel][:80], got[rel][:80]))
    return problems


def build(tmp, files, opts):
    """Build tmp/out.iso from a fresh tmp/src; returns (src, isoname, exit code, stderr)."""
    src = os.path.join(tmp, 'src')
    make_tree(src, files)
    isoname = os.path.join(tmp, 'out.iso')
    ret, _, err = tool('pycdlib-genisoimage', '-quiet', *(list(opts) + ['-o', isoname, src]))
    return src, isoname, ret, err


def extract(tmp, isoname, view):
    """Extract one view to a fresh directory; returns (dest, exit code, stderr)."""
    dest = os.path.join(tmp, 'dest_' + view)
    os.makedirs(dest)
    ret, _, err = tool('pycdlib-extract-files', '-path-type', view, '-extract-to', dest, isoname)
    return dest, ret, err


def run(check):
    tmp = tempfile.mkdtemp()
    try:
        problems = check(tmp)
    finally:
        shutil.rmtree(tmp, ignore_errors=True)
    if problems:
        for problem in problems:
            print(problem)
        return 1
    print('OK')
    return 0


def check(tmp):
    problems = []
    wide = '慢'

    # Library level.
    import io
    for first, second in (('ab', wide), (wide, 'ab')):
        iso = pycdlib.PyCdlib()
        iso.new(udf='2.60')
        iso.add_fp(io.BytesIO(b'one\n'), 4, '/ONE.;1', udf_path='/' + first)
        try:
            iso.add_fp(io.BytesIO(b'two\n'), 4, '/TWO.;1', udf_path='/' + second)
        except pycdlib.pycdlibexception.PyCdlibInvalidInput as e:
            problems.append('add_fp(udf_path=%r) after %r: %s' % ('/' + second, '/' + first, e))
        else:
            for name, want in ((first, b'one\n'), (second, b'two\n')):
                out = io.BytesIO()
                iso.get_file_from_iso_fp(out, udf_path='/' + name)
                if out.getvalue() != want:
                    problems.append('udf_path %r reads %r, expected %r' % ('/' + name, out.getvalue(), want))
            # A real duplicate must still be refused.
            try:
                iso.add_fp(io.BytesIO(b'xxx\n'), 4, '/THREE.;1', udf_path='/' + second)
                problems.append('a second %r was accepted' % ('/' + second))
            except pycdlib.pycdlibexception.PyCdlibInvalidInput:
                pass
            # Removing one of the two must leave the other one alone.
            iso.rm_hard_link(udf_path='/' + second)
            out = io.BytesIO()
            try:
                iso.get_file_from_iso_fp(out, udf_path='/' + first)
            except pycdlib.pycdlibexception.PyCdlibInvalidInput as e:
                problems.append('after rm_hard_link(udf_path=%r), reading %r: %s' % ('/' + second, '/' + first, e))
            if out.getvalue() != b'one\n':
                problems.append('after rm_hard_link(udf_path=%r), %r reads %r' % ('/' + second, '/' + first, out.getvalue()))
        iso.close()

    # Tool level.
    src, isoname, ret, err = build(tmp, {'ab': b'narrow\n', wide: b'wide\n'}, ['-udf'])
    if ret != 0:
        problems.append('pycdlib-genisoimage failed: %s' % (last_line(err)))
        return problems
    dest, ret, err = extract(tmp, isoname, 'udf')
    if ret != 0:
        problems.append('pycdlib-extract-files failed: %s' % (last_line(err)))
    problems.extend(diff_trees(tree(src), tree(dest)))
    return problems


if __name__ == '__main__':
    sys.exit(run(check))
