#!/venv/bin/python
"""Preliminary look at a changed copy of the repository without touching /repo:
run every quick check with VERIF_REPO=<dir> (the evidence files written are those of <dir>:
run tools/run_all.py quick afterwards).  usage: try_worktree.py <dir> [props...]"""
import subprocess, sys, os, json
from concurrent.futures import ThreadPoolExecutor
d = os.path.abspath(sys.argv[1])
props = sys.argv[2:]
man = json.load(open('/verif/MANIFEST.json'))
env = dict(os.environ, VERIF_REPO=d)
checks = [c for c in man['checks'] if not props or c['property_id'] in props]


def run(c):
    return c, subprocess.run(c['quick_cmd'], shell=True, capture_output=True, text=True, cwd='/verif', env=env)


silent = []
with ThreadPoolExecutor(10) as ex:
    for c, r in ex.map(run, checks):
        if r.returncode == 0:
            silent.append(c['property_id'])
            continue
        print('CAUGHT' if r.returncode == 1 else 'ERROR', c['property_id'])
        for l in r.stdout.splitlines():
            if l.startswith('  SA-') or l.startswith('ANALYSIS-ERROR'):
                print('    ', l.strip()[:300])
print('silent:', ' '.join(silent))
