"""
duplicate_pvd() combined with add_eltorito() (in either order) puts the
El Torito boot record at sector 18, because all PVD copies are placed in front
of the boot records.  El Torito requires the boot record at sector 17; pycdlib
itself refuses to open the image it wrote.
"""
import io
import sys

sys.path.insert(0, sys.argv[1])
import pycdlib  # noqa: E402

ELTORITO_BR = b'\x00CD001\x01EL TORITO SPECIFICATION'


def build(dup_first):
    boot = bytes(range(256)) * 8
    iso = pycdlib.PyCdlib()
    iso.new()
    iso.add_fp(io.BytesIO(boot), len(boot), '/BOOT.;1')
    if dup_first:
        iso.duplicate_pvd()
    iso.add_eltorito('/BOOT.;1', '/BOOT.CAT;1')
    if not dup_first:
        iso.duplicate_pvd()
    out = io.BytesIO()
    iso.write_fp(out)
    iso.close()
    return out.getvalue()


def main():
    problems = []
    for dup_first in (True, False):
        what = 'duplicate_pvd + add_eltorito' if dup_first else 'add_eltorito + duplicate_pvd'
        img = build(dup_first)
        kinds = []
        for sector in range(16, 32):
            head = img[sector * 2048:sector * 2048 + 7]
            kinds.append(head[0])
            if head[1:6] != b'CD001' or head[0] == 255:
                break
        if not img[17 * 2048:].startswith(ELTORITO_BR):
            where = [s for s in range(16, 32) if img[s * 2048:].startswith(ELTORITO_BR)]
            problems.append('%s: El Torito boot record is at sector %s, must be at 17 (descriptor types from 16 on: %s)'
                            % (what, where, kinds))
        if kinds.count(1) != 2 or kinds[0] != 1:
            problems.append('%s: expected two PVDs, the first at sector 16 (descriptor types: %s)' % (what, kinds))
        try:
            iso = pycdlib.PyCdlib()
            iso.open_fp(io.BytesIO(img))
            if iso.eltorito_boot_catalog is None or len(iso.pvds) != 2:
                problems.append('%s: re-opened image lost El Torito or the second PVD' % what)
            iso.close()
        except pycdlib.pycdlibexception.PyCdlibException as e:
            # (an unrelated clock-dependent problem can make the PVD copies differ)
            if 'did not agree' not in str(e):
                problems.append('%s: image written by pycdlib cannot be opened: %s' % (what, e))

    if problems:
        for p in problems:
            print(p)
        return 1
    print('OK')
    return 0


if __name__ == '__main__':
    sys.exit(main())
