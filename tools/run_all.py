#!/venv/bin/python
"""Run every registered check (quick or thorough) and validate the evidence files."""
import json, subprocess, sys, os, time
os.chdir(os.path.dirname(os.path.dirname(os.path.abspath(__file__))))
tier = sys.argv[1] if len(sys.argv) > 1 else 'quick'
m = json.load(open('MANIFEST.json'))
bad = 0
from concurrent.futures import ThreadPoolExecutor
def run(c):
    cmd = c['quick_cmd'] if tier == 'quick' else c.get('thorough_cmd', c['quick_cmd'])
    t = time.time()
    r = subprocess.run(cmd, shell=True, capture_output=True, text=True)
    return c, r, time.time() - t
with ThreadPoolExecutor(8) as ex:
    res = list(ex.map(run, m['checks']))
for c, r, dt in res:
    first = r.stdout.strip().splitlines()[0] if r.stdout.strip() else ''
    flag = 'ok ' if r.returncode == 0 and 'VIOLATION' not in r.stdout else 'BAD'
    if flag == 'BAD':
        bad += 1
    print(flag, c['property_id'], 'exit=%d' % r.returncode, '%.1fs' % dt, first[:150])
    if flag == 'BAD':
        print(r.stdout[-1500:], r.stderr[-1500:])
    for l in r.stdout.splitlines():
        if l.startswith('KNOWN-FINDING'):
            print('   ', l[:200])
v = subprocess.run(['python3-vt', '-c', '''
import json, jsonschema, sys
s = json.load(open("/root/.vp/EVIDENCE.schema.json"))
m = json.load(open("MANIFEST.json"))
jsonschema.validate(m, json.load(open("/root/.vp/MANIFEST.schema.json")))
for c in m["checks"]:
    jsonschema.validate(json.load(open(c["evidence_file"])), s)
print("manifest + %d evidence files valid" % len(m["checks"]))
'''], capture_output=True, text=True)
print(v.stdout.strip(), v.stderr.strip()[-800:])
sys.exit(1 if bad or v.returncode else 0)
