"""
Witness F: pycdlib-genisoimage -b boot.img -c boot.cat -no-emul-boot on a tree
that already has a top-level boot.cat must build the image; the name belongs
to the boot catalog, as it does for a catalog below the top directory.

Usage: python W6_toplevel_boot_cat.py <path-to-checkout>
"""
import io
import os
import struct
import subprocess
import sys
import tempfile

sys.path.insert(0, sys.argv[1])

import pycdlib


def run_tool(checkout, name, args, cwd):
    env = dict(os.environ)
    env['PYTHONPATH'] = checkout
    return subprocess.run([sys.executable, os.path.join(checkout, 'tools', name)] + args,
                          cwd=cwd, env=env, stdout=subprocess.PIPE,
                          stderr=subprocess.STDOUT, universal_newlines=True)


def check_image(out, catalog_iso_path, boot_iso_path, boot, others, what, problems):
    with open(out, 'rb') as infp:
        img = infp.read()
    cat = struct.unpack_from('<L', img, 17 * 2048 + 0x47)[0]
    catalog = img[cat * 2048:(cat + 1) * 2048]
    if catalog[0] != 1 or catalog[30:32] != b'\x55\xaa' or sum(struct.unpack_from('<16H', catalog, 0)) & 0xffff != 0:
        problems.append('%s: sector %d is not a boot catalog' % (what, cat))
    rba = struct.unpack_from('<L', catalog, 32 + 8)[0]
    if img[rba * 2048:rba * 2048 + len(boot)] != boot:
        problems.append('%s: the initial entry does not point at the boot file' % (what))

    iso = pycdlib.PyCdlib()
    iso.open(out)
    try:
        rec = iso.get_record(iso_path=catalog_iso_path)
        if rec.extent_location() != cat:
            problems.append('%s: %s is at sector %d, the boot catalog at %d' % (what, catalog_iso_path, rec.extent_location(), cat))
        got = io.BytesIO()
        iso.get_file_from_iso_fp(got, iso_path=catalog_iso_path)
        if got.getvalue() != catalog:
            problems.append('%s: %s does not read as the boot catalog' % (what, catalog_iso_path))
        if iso.get_record(iso_path=boot_iso_path).extent_location() != rba:
            problems.append('%s: %s is not where the initial entry points' % (what, boot_iso_path))
        for path, data in others:
            got = io.BytesIO()
            iso.get_file_from_iso_fp(got, iso_path=path)
            if got.getvalue() != data:
                problems.append('%s: %s has the wrong content' % (what, path))
    except pycdlib.pycdlibexception.PyCdlibException as e:
        problems.append('%s: %s' % (what, e))
    iso.close()


def main():
    checkout = os.path.abspath(sys.argv[1])
    problems = []
    boot = b'BOOTCODE' * 300
    with tempfile.TemporaryDirectory() as tmp:
        # 1. catalog in the top directory, tree has a file of that name
        src = os.path.join(tmp, 'src')
        os.makedirs(os.path.join(src, 'sub'))
        for rel, data in (('boot.img', boot), ('boot.cat', b'stale catalog\n'),
                          ('readme.txt', b'hello\n'), ('sub/boot.cat', b'not a catalog\n')):
            with open(os.path.join(src, rel), 'wb') as outfp:
                outfp.write(data)
        out = os.path.join(tmp, 'top.iso')
        res = run_tool(checkout, 'pycdlib-genisoimage',
                       ['-quiet', '-o', out, '-b', 'boot.img', '-c', 'boot.cat',
                        '-no-emul-boot', src], tmp)
        if res.returncode != 0:
            problems.append('catalog in the top directory: pycdlib-genisoimage failed: ' + res.stdout.strip().splitlines()[-1])
        else:
            check_image(out, '/BOOT.CAT;1', '/BOOT.IMG;1', boot,
                        [('/README.TXT;1', b'hello\n'), ('/SUB/BOOT.CAT;1', b'not a catalog\n')],
                        'catalog in the top directory', problems)

        # 2. the same with two directories on the command line, the second
        #    of which has the boot.cat
        src2 = os.path.join(tmp, 'src2')
        os.mkdir(src2)
        with open(os.path.join(src2, 'boot.cat'), 'wb') as outfp:
            outfp.write(b'another stale catalog\n')
        with open(os.path.join(src2, 'other.txt'), 'wb') as outfp:
            outfp.write(b'other\n')
        os.remove(os.path.join(src, 'boot.cat'))
        out = os.path.join(tmp, 'two.iso')
        res = run_tool(checkout, 'pycdlib-genisoimage',
                       ['-quiet', '-o', out, '-b', 'boot.img', '-c', 'boot.cat',
                        '-no-emul-boot', src, src2], tmp)
        if res.returncode != 0:
            problems.append('boot.cat in the second directory: pycdlib-genisoimage failed: ' + res.stdout.strip().splitlines()[-1])
        else:
            check_image(out, '/BOOT.CAT;1', '/BOOT.IMG;1', boot,
                        [('/README.TXT;1', b'hello\n'), ('/OTHER.TXT;1', b'other\n')],
                        'boot.cat in the second directory', problems)

        # 3. catalog below the top directory (this has always worked)
        src3 = os.path.join(tmp, 'src3')
        os.makedirs(os.path.join(src3, 'boot'))
        for rel, data in (('boot/boot.img', boot), ('boot/boot.cat', b'stale catalog\n'),
                          ('boot.cat', b'just a file\n')):
            with open(os.path.join(src3, rel), 'wb') as outfp:
                outfp.write(data)
        out = os.path.join(tmp, 'sub.iso')
        res = run_tool(checkout, 'pycdlib-genisoimage',
                       ['-quiet', '-o', out, '-b', 'boot/boot.img', '-c', 'boot/boot.cat',
                        '-no-emul-boot', src3], tmp)
        if res.returncode != 0:
            problems.append('catalog in a subdirectory: pycdlib-genisoimage failed: ' + res.stdout.strip().splitlines()[-1])
        else:
            check_image(out, '/BOOT/BOOT.CAT;1', '/BOOT/BOOT.IMG;1', boot,
                        [('/BOOT.CAT;1', b'just a file\n')],
                        'catalog in a subdirectory', problems)

    if problems:
        print('\n'.join(problems))
        return 1
    print('OK')
    return 0


if __name__ == '__main__':
    sys.exit(main())
