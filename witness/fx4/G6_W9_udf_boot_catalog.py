#!/usr/bin/env python3
"""
Witness for observation H (notes item 8): the El Torito boot catalog in the
UDF view.  get_file_from_iso(udf_path=<boot catalog>) must return the same
data as the ISO9660 and Joliet views of the catalog, and
pycdlib-extract-files -path-type udf must be able to extract an El Torito
image.

  python W9_udf_boot_catalog.py <path-to-checkout>
"""
import os
import shutil
import subprocess
import sys
import tempfile

CHECKOUT = os.path.abspath(sys.argv[1])
sys.path.insert(0, CHECKOUT)

import pycdlib  # noqa: E402,F401  pylint: disable=wrong-import-position,unused-import


def tool(name, *args):
    """Run one of the tools of the checkout; returns (exit code, stdout, stderr)."""
    env = dict(os.environ)
    env['PYTHONPATH'] = CHECKOUT
    proc = subprocess.run([sys.executable, os.path.join(CHECKOUT, 'tools', name)] + list(args),
                          env=env, stdout=subprocess.PIPE, stderr=subprocess.PIPE,
                          universal_newlines=True, check=False)
    return proc.returncode, proc.stdout, proc.stderr


def last_line(text):
    lines = text.strip().splitlines()
    return lines[-1] if lines else ''


def make_tree(root, files):
    """files: relative path -> bytes (file), (target,) (symlink) or None (directory)."""
    os.makedirs(root)
    for rel, content in files.items():
        full = os.path.join(root, rel)
        if content is None:
            os.makedirs(full, exist_ok=True)
            continue
        os.makedirs(os.path.dirname(full), exist_ok=True)
        if isinstance(content, tuple):
            os.symlink(content[0], full)
        else:
            with open(full, 'wb') as outfp:
                outfp.write(content)


def tree(root):
    """relative path -> 'dir', ('link', target) or the file contents."""
    out = {}
    for dirpath, dirnames, filenames in os.walk(root):
        for name in dirnames + filenames:
            full = os.path.join(dirpath, name)
            rel = os.path.relpath(full, root)
            if os.path.islink(full):
                out[rel] = ('link', os.readlink(full))
            elif os.path.isdir(full):
                out[rel] = 'dir'
            else:
                with open(full, 'rb') as infp:
                    out[rel] = infp.read()
    return out


def diff_trees(want, got):
    problems = []
    for rel in sorted(set(want) - set(got)):
        problems.append('missing from the extracted tree: %s' % (rel))
    for rel in sorted(set(got) - set(want)):
        problems.append('not in the source tree: %s' % (rel))
    for rel in sorted(set(got) & set(want)):
        if got[rel] != want[rel]:
            problems.append('%s differs: source %r, extracted %r' % (rel, want[rel][:80], got[rel][:80]))
    return problems


def build(tmp, files, opts):
    """Build tmp/out.iso from a fresh tmp/src; returns (src, isoname, exit code, stderr)."""
    src = os.path.join(tmp, 'src')
    make_tree(src, files)
    isoname = os.path.join(tmp, 'out.iso')
    ret, _, err = tool('pycdlib-genisoimage', '-quiet', *(list(opts) + ['-o', isoname, src]))
    return src, isoname, ret, err


def extract(tmp, isoname, view):
    """Extract one view to a fresh directory; returns (dest, exit code, stderr)."""
    dest = os.path.join(tmp, 'dest_' + view)
    os.makedirs(dest)
    ret, _, err = tool('pycdlib-extract-files', '-path-type', view, '-extract-to', dest, isoname)
    return dest, ret, err


def run(check):
    tmp = tempfile.mkdtemp()
    try:
        problems = check(tmp)
    finally:
        shutil.rmtree(tmp, ignore_errors=True)
    if problems:
        for problem in problems:
            print(problem)
        return 1
    print('OK')
    return 0


def check(tmp):
    problems = []
    boot = bytes(bytearray(range(256))) * 8

    # Library level, before and after a round trip through write/open.
    import io
    iso = pycdlib.PyCdlib()
    iso.new(joliet=3, udf='2.60')
    iso.add_fp(io.BytesIO(boot), len(boot), '/BOOT.IMG;1', joliet_path='/boot.img', udf_path='/boot.img')
    iso.add_eltorito('/BOOT.IMG;1', bootcatfile='/BOOT.CAT;1', joliet_bootcatfile='/boot.cat',
                     udf_bootcatfile='/boot.cat', boot_load_size=4)
    for stage in ('new', 'reopened'):
        got = {}
        for key, path in (('iso_path', '/BOOT.CAT;1'), ('joliet_path', '/boot.cat'), ('udf_path', '/boot.cat')):
            out = io.BytesIO()
            try:
                iso.get_file_from_iso_fp(out, **{key: path})
                got[key] = out.getvalue()
            except pycdlib.pycdlibexception.PyCdlibInvalidInput as e:
                problems.append('%s image: get_file_from_iso_fp(%s=%r): %s' % (stage, key, path, e))
        if 'udf_path' in got and got['udf_path'] != got.get('iso_path'):
            problems.append('%s image: the UDF view of the boot catalog differs from the ISO9660 view' % (stage))
        if stage == 'new':
            out = io.BytesIO()
            iso.write_fp(out)
            iso.close()
            iso = pycdlib.PyCdlib()
            iso.open_fp(out)
    iso.close()

    # Tool level.
    src, isoname, ret, err = build(tmp, {'boot.img': boot, 'a.txt': b'aa\n'},
                                   ['-R', '-J', '-udf', '-b', 'boot.img', '-c', 'boot.cat',
                                    '-no-emul-boot', '-boot-load-size', '4'])
    if ret != 0:
        problems.append('pycdlib-genisoimage failed: %s' % (last_line(err)))
        return problems
    trees = {}
    for view in ('udf', 'rockridge'):
        dest, ret, err = extract(tmp, isoname, view)
        if ret != 0:
            problems.append('pycdlib-extract-files -path-type %s failed: %s' % (view, last_line(err)))
        trees[view] = tree(dest)
    # The boot catalog is made by the tool, so it is in both views but not in
    # the source tree.
    problems.extend('udf view compared with the Rock Ridge view: ' + p for p in diff_trees(trees['rockridge'], trees['udf']))
    want = tree(src)
    trees['udf'].pop('boot.cat', None)
    problems.extend(diff_trees(want, trees['udf']))
    return problems


if __name__ == '__main__':
    sys.exit(run(check))
