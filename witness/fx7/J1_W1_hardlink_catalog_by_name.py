# Observation A: add_hard_link() with the El Torito Boot Catalog named by its
# path (iso_old_path='/BOOT.CAT;1') instead of boot_catalog_old=True.
import io
import sys
import tempfile
import os

sys.path.insert(0, sys.argv[1])

import pycdlib
from pycdlib import pycdlibexception


def build(**linkargs):
    iso = pycdlib.PyCdlib()
    iso.new(joliet=3, udf='2.60')
    boot = b'boot' * 600
    iso.add_fp(io.BytesIO(boot), len(boot), '/BOOT.;1', joliet_path='/boot', udf_path='/boot')
    iso.add_eltorito('/BOOT.;1', '/BOOT.CAT;1', joliet_bootcatfile='/boot.cat', udf_bootcatfile='/boot.cat')
    iso.add_hard_link(**linkargs)
    return iso


def catalog_bytes(iso, **kw):
    out = io.BytesIO()
    iso.get_file_from_iso_fp(out, **kw)
    return out.getvalue()


def main():
    problems = []
    os.chdir(tempfile.mkdtemp())
    cases = [
        ('iso->iso', {'iso_old_path': '/BOOT.CAT;1', 'iso_new_path': '/CAT2.;1'}, {'iso_path': '/CAT2.;1'}),
        ('joliet->iso', {'joliet_old_path': '/boot.cat', 'iso_new_path': '/CAT2.;1'}, {'iso_path': '/CAT2.;1'}),
        ('udf->joliet', {'udf_old_path': '/boot.cat', 'joliet_new_path': '/cat2'}, {'joliet_path': '/cat2'}),
        ('iso->udf', {'iso_old_path': '/BOOT.CAT;1', 'udf_new_path': '/cat2'}, {'udf_path': '/cat2'}),
        ('documented', {'boot_catalog_old': True, 'iso_new_path': '/CAT2.;1'}, {'iso_path': '/CAT2.;1'}),
    ]
    for label, linkargs, readargs in cases:
        try:
            iso = build(**linkargs)
        except pycdlibexception.PyCdlibInvalidInput as e:
            # A refusal at the time of the edit would also be acceptable.
            print('%s: refused (%s)' % (label, e))
            continue
        try:
            ref = catalog_bytes(iso, iso_path='/BOOT.CAT;1')
            got = catalog_bytes(iso, **readargs)
            if got != ref:
                problems.append('%s: link reads different bytes than the catalog before write' % label)
        except Exception as e:  # pylint: disable=broad-except
            problems.append('%s: reading the accepted link failed: %s: %s' % (label, type(e).__name__, e))
        out = io.BytesIO()
        try:
            iso.write_fp(out)
        except Exception as e:  # pylint: disable=broad-except
            problems.append('%s: write_fp after accepted link failed: %s: %s' % (label, type(e).__name__, e))
            continue
        iso.close()

        iso2 = pycdlib.PyCdlib()
        iso2.open_fp(out)
        ref = catalog_bytes(iso2, iso_path='/BOOT.CAT;1')
        got = catalog_bytes(iso2, **readargs)
        if got != ref or len(ref) != 2048:
            problems.append('%s: after reopen the link does not hold the catalog bytes' % label)
        # the boot record at sector 17 must point at those very bytes
        data = out.getvalue()
        catsec = int.from_bytes(data[17 * 2048 + 0x47:17 * 2048 + 0x4b], 'little')
        if data[catsec * 2048:(catsec + 1) * 2048] != ref:
            problems.append('%s: boot record sector %d does not hold the catalog' % (label, catsec))
        # removing El Torito must remove the link too (it is a name of the catalog)
        iso2.rm_eltorito()
        out2 = io.BytesIO()
        try:
            iso2.write_fp(out2)
        except Exception as e:  # pylint: disable=broad-except
            problems.append('%s: write_fp after rm_eltorito failed: %s: %s' % (label, type(e).__name__, e))
        iso2.close()

    if problems:
        for p in problems:
            print(p)
        return 1
    print('OK')
    return 0


sys.exit(main())
