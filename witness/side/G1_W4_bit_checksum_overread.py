"""
The El Torito boot info table checksum is computed by reading whole 2048-byte
blocks from the source file object.  When add_fp() is given a length smaller
than the data available in the file object, the checksum also covers bytes
that are not part of the boot file, so the table written to the image is wrong
(and pycdlib itself no longer recognises the table when re-opening the image).
"""
import io
import struct
import sys

sys.path.insert(0, sys.argv[1])
import pycdlib  # noqa: E402


def main():
    stored = bytes(range(256)) * 4          # the 1024 bytes that form the boot file
    source = stored + b'\xff' * 1000        # the file object holds more than that

    iso = pycdlib.PyCdlib()
    iso.new()
    iso.add_fp(io.BytesIO(source), len(stored), '/BOOT.;1')
    iso.add_eltorito('/BOOT.;1', '/BOOT.CAT;1', boot_info_table=True)
    out = io.BytesIO()
    iso.write_fp(out)
    iso.close()
    img = out.getvalue()

    # Boot Record (sector 17) -> Boot Catalog -> Initial Entry -> boot file
    cat_extent, = struct.unpack_from('<L', img, 17 * 2048 + 71)
    rba, = struct.unpack_from('<L', img, cat_extent * 2048 + 32 + 8)
    bootfile = img[rba * 2048:(rba + 1) * 2048]
    pvd_loc, file_loc, length, csum = struct.unpack_from('<LLLL', bootfile, 8)

    problems = []
    if (pvd_loc, file_loc, length) != (16, rba, len(stored)):
        problems.append('unexpected boot info table header %r' % ((pvd_loc, file_loc, length),))
    if bootfile[64:len(stored)] != stored[64:] or bootfile[len(stored):] != b'\x00' * (2048 - len(stored)):
        problems.append('boot file data not stored as expected')

    expected = 0
    for off in range(64, 2048, 4):
        expected = (expected + struct.unpack_from('<L', bootfile, off)[0]) & 0xffffffff
    if csum != expected:
        problems.append('boot info table checksum is 0x%08x, but the stored boot file sums to 0x%08x' % (csum, expected))

    iso2 = pycdlib.PyCdlib()
    iso2.open_fp(io.BytesIO(img))
    out2 = io.BytesIO()
    iso2.add_directory('/DIR1')   # moves the boot file; a recognised table is updated
    iso2.write_fp(out2)
    iso2.close()
    img2 = out2.getvalue()
    cat_extent, = struct.unpack_from('<L', img2, 17 * 2048 + 71)
    rba2, = struct.unpack_from('<L', img2, cat_extent * 2048 + 32 + 8)
    file_loc2, = struct.unpack_from('<L', img2, rba2 * 2048 + 12)
    if file_loc2 != rba2:
        problems.append('after re-open and edit the table says the file is at %d, it is at %d' % (file_loc2, rba2))

    if problems:
        for p in problems:
            print(p)
        return 1
    print('OK')
    return 0


if __name__ == '__main__':
    sys.exit(main())
