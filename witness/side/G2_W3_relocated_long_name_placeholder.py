"""
A relocated (depth 8) Rock Ridge directory with a long name: the CL placeholder
that stays in the logical parent needs a continuation area, but none is
allocated for it.  Its CE entry is written pointing at extent 0, offset 0, the
rest of the name is lost, and editing the re-opened image fails with
"Assigned an extent beyond the ISO".
"""
import io
import struct
import sys

sys.dont_write_bytecode = True
sys.path.insert(0, sys.argv[1])
import pycdlib  # noqa: E402

SECTOR = 2048


def susp_entries(img, area):
    """Yield (signature, payload) of all SUSP entries, following CE entries."""
    todo = [area]
    while todo:
        data = todo.pop(0)
        off = 0
        while off + 4 <= len(data):
            sig = data[off:off + 2]
            length = data[off + 2]
            if length < 4 or not sig.isalpha():
                break
            body = data[off + 4:off + length]
            if sig == b'CE':
                blk, = struct.unpack_from('<L', body, 0)
                coff, = struct.unpack_from('<L', body, 8)
                clen, = struct.unpack_from('<L', body, 16)
                todo.append(img[blk * SECTOR + coff:blk * SECTOR + coff + clen])
            else:
                yield sig, body
            off += length


def read_dir(img, extent, size):
    """Return the entries of one directory as a list of dicts."""
    data = img[extent * SECTOR:extent * SECTOR + size]
    entries = []
    off = 0
    while off < len(data):
        reclen = data[off]
        if reclen == 0:
            off = (off // SECTOR + 1) * SECTOR
            continue
        len_fi = data[off + 32]
        su = off + 33 + len_fi + (1 if len_fi % 2 == 0 else 0)
        entry = {'ident': data[off + 33:off + 33 + len_fi],
                 'extent': struct.unpack_from('<L', data, off + 2)[0],
                 'size': struct.unpack_from('<L', data, off + 10)[0],
                 'isdir': bool(data[off + 25] & 2),
                 'nlink': None, 'cl': None, 're': False, 'name': b'', 'ce': []}
        for sig, body in susp_entries(img, data[su:off + reclen]):
            if sig == b'PX':
                entry['nlink'] = struct.unpack_from('<L', body, 8)[0]
            elif sig == b'CL':
                entry['cl'] = struct.unpack_from('<L', body, 0)[0]
            elif sig == b'RE':
                entry['re'] = True
            elif sig == b'NM':
                entry['name'] += body[1:]
        area = data[su:off + reclen]
        pos = 0
        while pos + 4 <= len(area) and area[pos + 2] >= 4:
            if area[pos:pos + 2] == b'CE':
                entry['ce'].append((struct.unpack_from('<L', area, pos + 4)[0],
                                    struct.unpack_from('<L', area, pos + 12)[0],
                                    struct.unpack_from('<L', area, pos + 20)[0]))
            pos += area[pos + 2]
        entries.append(entry)
        off += reclen
    return entries


def root_dir(img):
    root = img[16 * SECTOR + 156:16 * SECTOR + 190]
    return struct.unpack_from('<L', root, 2)[0], struct.unpack_from('<L', root, 10)[0]


def lookup(img, path):
    extent, size = root_dir(img)
    entry = None
    for part in path:
        for entry in read_dir(img, extent, size):
            if entry['ident'] == part:
                break
        else:
            return None
        extent, size = entry['extent'], entry['size']
    return entry


def check(version, img, rr_name, problems):
    where = 'rr %s' % version
    path = [('DIR%d' % i).encode() for i in range(1, 8)] + [b'DIR8']
    placeholder = lookup(img, path)
    real = lookup(img, [b'RR_MOVED', b'DIR8'])
    if placeholder is None or real is None:
        problems.append('%s: placeholder or relocated directory not found' % where)
        return
    areas = []
    for what, entry in (('CL placeholder', placeholder), ('relocated directory', real)):
        if entry['name'] != rr_name:
            problems.append('%s: %s has a name of %d bytes on disk, expected %d'
                            % (where, what, len(entry['name']), len(rr_name)))
        for blk, off, length in entry['ce']:
            if blk < 18 or (blk + 1) * SECTOR > len(img):
                problems.append('%s: CE entry of the %s points at extent %d offset %d'
                                % (where, what, blk, off))
            areas.append((blk * SECTOR + off, blk * SECTOR + off + length, what))
    if placeholder['cl'] != real['extent']:
        problems.append('%s: CL points at %r, directory is at %d'
                        % (where, placeholder['cl'], real['extent']))
    areas.sort()
    for one, two in zip(areas, areas[1:]):
        if two[0] < one[1]:
            problems.append('%s: continuation areas of %s and %s overlap' % (where, one[2], two[2]))


def main():
    problems = []
    for version in ('1.09', '1.12'):
        rr_name = 'n' * 150
        deep = ''
        iso = pycdlib.PyCdlib()
        iso.new(rock_ridge=version)
        for level in range(1, 8):
            deep += '/DIR%d' % level
            iso.add_directory(deep, rr_name='dir%d' % level)
        iso.add_directory(deep + '/DIR8', rr_name=rr_name)
        out = io.BytesIO()
        iso.write_fp(out)
        iso.close()
        check(version, out.getvalue(), rr_name.encode(), problems)

        # Editing the re-opened image must work too.
        iso = pycdlib.PyCdlib()
        try:
            iso.open_fp(io.BytesIO(out.getvalue()))
            iso.add_fp(io.BytesIO(b'x'), 1, '/FOO.;1', rr_name='foo')
            again = io.BytesIO()
            iso.write_fp(again)
            check(version + ' after re-open', again.getvalue(), rr_name.encode(), problems)
        except Exception as exc:  # pylint: disable=broad-except
            problems.append('rr %s: editing the re-opened image fails: %s: %s'
                            % (version, type(exc).__name__, exc))
        try:
            iso.close()
        except Exception:  # pylint: disable=broad-except
            pass

    if problems:
        for line in problems:
            print(line)
        return 1
    print('OK')
    return 0


if __name__ == '__main__':
    sys.exit(main())
