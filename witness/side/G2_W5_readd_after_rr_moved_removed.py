"""
Add a Rock Ridge directory at depth 8 (it is relocated to /RR_MOVED), remove it
again (which also removes the then empty /RR_MOVED), and add it once more: the
library still refers to the removed RR_MOVED record, the new directory hangs
below that orphan, and write() dies with a TypeError ('>' between NoneType and
int).
"""
import io
import struct
import sys

sys.dont_write_bytecode = True
sys.path.insert(0, sys.argv[1])
import pycdlib  # noqa: E402

SECTOR = 2048


def susp_entries(img, area):
    """Yield (signature, payload) of all SUSP entries, following CE entries."""
    todo = [area]
    while todo:
        data = todo.pop(0)
        off = 0
        while off + 4 <= len(data):
            sig = data[off:off + 2]
            length = data[off + 2]
            if length < 4 or not sig.isalpha():
                break
            body = data[off + 4:off + length]
            if sig == b'CE':
                blk, = struct.unpack_from('<L', body, 0)
                coff, = struct.unpack_from('<L', body, 8)
                clen, = struct.unpack_from('<L', body, 16)
                todo.append(img[blk * SECTOR + coff:blk * SECTOR + coff + clen])
            else:
                yield sig, body
            off += length


def read_dir(img, extent, size):
    """Return the entries of one directory as a list of dicts."""
    data = img[extent * SECTOR:extent * SECTOR + size]
    entries = []
    off = 0
    while off < len(data):
        reclen = data[off]
        if reclen == 0:
            off = (off // SECTOR + 1) * SECTOR
            continue
        len_fi = data[off + 32]
        su = off + 33 + len_fi + (1 if len_fi % 2 == 0 else 0)
        entry = {'ident': data[off + 33:off + 33 + len_fi],
                 'extent': struct.unpack_from('<L', data, off + 2)[0],
                 'size': struct.unpack_from('<L', data, off + 10)[0],
                 'isdir': bool(data[off + 25] & 2),
                 'nlink': None, 'cl': None, 're': False}
        for sig, body in susp_entries(img, data[su:off + reclen]):
            if sig == b'PX':
                entry['nlink'] = struct.unpack_from('<L', body, 8)[0]
            elif sig == b'CL':
                entry['cl'] = struct.unpack_from('<L', body, 0)[0]
            elif sig == b'RE':
                entry['re'] = True
        entries.append(entry)
        off += reclen
    return entries


def root_dir(img):
    root = img[16 * SECTOR + 156:16 * SECTOR + 190]
    return struct.unpack_from('<L', root, 2)[0], struct.unpack_from('<L', root, 10)[0]


def lookup(img, path):
    extent, size = root_dir(img)
    entry = None
    for part in path:
        for entry in read_dir(img, extent, size):
            if entry['ident'] == part:
                break
        else:
            return None
        extent, size = entry['extent'], entry['size']
    return entry


def main():
    deep = ''
    iso = pycdlib.PyCdlib()
    iso.new(rock_ridge='1.09')
    for level in range(1, 8):
        deep += '/DIR%d' % level
        iso.add_directory(deep, rr_name='dir%d' % level)
    iso.add_directory(deep + '/DIR8', rr_name='dir8')
    iso.rm_directory(deep + '/DIR8', rr_name='dir8')
    out = io.BytesIO()
    try:
        iso.add_directory(deep + '/DIR8', rr_name='dir8')
        iso.write_fp(out)
    except Exception as exc:  # pylint: disable=broad-except
        print('add, remove, add of a depth 8 directory fails: %s: %s'
              % (type(exc).__name__, exc))
        return 1
    iso.close()
    img = out.getvalue()

    problems = []
    moved = lookup(img, [b'RR_MOVED'])
    real = lookup(img, [b'RR_MOVED', b'DIR8'])
    placeholder = lookup(img, [('DIR%d' % i).encode() for i in range(1, 9)])
    if moved is None or not moved['isdir']:
        problems.append('the image has no /RR_MOVED directory')
    elif moved['nlink'] != 3:
        problems.append('/RR_MOVED has link count %r, expected 3' % moved['nlink'])
    if real is None or not real['re'] or real['nlink'] != 2:
        problems.append('/RR_MOVED/DIR8 is missing or wrong: %r' % (real,))
    if placeholder is None or real is None or placeholder['cl'] != real['extent']:
        problems.append('the CL placeholder does not point at /RR_MOVED/DIR8')

    iso = pycdlib.PyCdlib()
    iso.open_fp(io.BytesIO(img))
    try:
        iso.get_record(rr_path='/dir1/dir2/dir3/dir4/dir5/dir6/dir7/dir8')
    except Exception as exc:  # pylint: disable=broad-except
        problems.append('re-opened image: deep directory not found: %s' % exc)
    iso.close()

    if problems:
        for line in problems:
            print(line)
        return 1
    print('OK')
    return 0


if __name__ == '__main__':
    sys.exit(main())
