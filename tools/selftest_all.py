#!/venv/bin/python
"""Run the whole mutant catalogue once (every mutant under the first property it lists)."""
import sys, os, time
sys.path.insert(0, os.path.dirname(os.path.dirname(os.path.abspath(__file__))))
os.chdir(os.path.dirname(os.path.dirname(os.path.abspath(__file__))))
from sa import mutants, registry
from sa.engine import Ctx
from concurrent.futures import ProcessPoolExecutor
registry.load_rules()
src = mutants._sources()
base = Ctx()
jobs = []
notapp = 0
only = sys.argv[1:]
for m in mutants.CATALOGUE:
    if only and m['name'] not in only:
        continue
    if not mutants.applicable(m, src):
        print('NOT-APPLICABLE', m['name'])
        notapp += 1
        continue
    if m['kind'] == 'fault':
        rids = [r for r in m['rules']]
    else:
        rids = sorted(set(r for p in m['props'] for r in registry.prop_rules(p)))
    missing = [r for r in rids if r not in registry.RULES]
    if missing:
        print('UNKNOWN-RULE', m['name'], missing); continue
    jobs.append((m, rids))
cache = {}
def base_bad(rids):
    out = set()
    for r in rids:
        if r not in cache:
            cache[r] = set(o.fullkey() for o in registry.RULES[r](base) if not o.ok)
        out |= cache[r]
    return out
t = time.time()
args = [(m, rids, base_bad(rids)) for m, rids in jobs]
with ProcessPoolExecutor(max_workers=16) as ex:
    res = list(ex.map(mutants._run_one, args))
bad = 0
for (m, rids), r in zip(jobs, res):
    if r['error']:
        print('ERROR   ', m['name'], r['error']); bad += 1
    elif m['kind'] == 'fault':
        hits = [x for x in r['new'] if (not m['expect'] or m['expect'] in x[1] or m['expect'] in x[2])]
        if hits:
            print('detected', m['name'], '<-', hits[0][0], hits[0][1][:90])
        else:
            print('MISSED  ', m['name'], rids, r['new'][:2]); bad += 1
    else:
        if r['new']:
            print('NOISY   ', m['name'], r['new'][:3]); bad += 1
        else:
            print('silent  ', m['name'])
print('%d mutants, %d problems, %d not applicable on this tree, %.1fs' % (len(jobs), bad, notapp, time.time() - t))
if not bad and not notapp and not only:
    import json
    with open(os.path.join('tables', 'selftest_validated.json'), 'w') as f:
        json.dump({'_doc': 'digests of the /repo sources against which the whole mutant catalogue last passed (written by tools/selftest_all.py)',
                   'mutants': len(jobs), 'digests': mutants.tree_digests()}, f, indent=1)
    print('tables/selftest_validated.json updated')
sys.exit(1 if (bad or notapp) else 0)
