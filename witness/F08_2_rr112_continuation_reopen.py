"""F-08.2: a Rock Ridge 1.12 image in which some record keeps its PX entry in the continuation area (any
name of roughly 200+ characters) could not be opened by the library that wrote it: the version was inferred
from the entries in the directory record alone ("1.09") before the continuation area was read, and the walk
refused the image with "Inconsistent Rock Ridge versions".  The same ordering hid SL / CL entries stored
in a continuation area from the code that classifies the record.
usage: F08_2_rr112_continuation_reopen.py [repo]"""
import sys, io
sys.path.insert(0, sys.argv[1] if len(sys.argv) > 1 else '/repo')
import pycdlib

bad = []
for ver in ('1.09', '1.10', '1.12'):
    iso = pycdlib.PyCdlib()
    iso.new(rock_ridge=ver)
    long_name = 'l' * 200
    iso.add_fp(io.BytesIO(b'short'), 5, '/A.;1', rr_name='a')
    iso.add_fp(io.BytesIO(b'long'), 4, '/L.;1', rr_name=long_name)
    iso.add_symlink('/S.;1', 's' * 150, '/'.join(['t' * 100] * 3))
    iso.add_directory('/D', rr_name='d' * 220)
    buf = io.BytesIO()
    iso.write_fp(buf)
    iso.close()
    chk = pycdlib.PyCdlib()
    try:
        chk.open_fp(buf)
    except Exception as e:
        bad.append('%s: the written image does not open: %s: %s' % (ver, type(e).__name__, e))
        continue
    if chk.rock_ridge != ver and not (ver == '1.10' and chk.rock_ridge == '1.09'):
        bad.append('%s: reopened image reports Rock Ridge %r' % (ver, chk.rock_ridge))
    names = sorted(c.rock_ridge.name() for c in chk.list_children(iso_path='/') if not c.is_dot() and not c.is_dotdot())
    want = sorted([b'a', long_name.encode(), b's' * 150, b'd' * 220])
    if names != want:
        bad.append('%s: Rock Ridge names after reopen: %s' % (ver, [n[:12] for n in names]))
    rec = chk.get_record(iso_path='/S.;1')
    if not rec.is_symlink() or rec.rock_ridge.symlink_path() != ('/'.join(['t' * 100] * 3)).encode():
        bad.append('%s: symlink target lost' % ver)
    out = io.BytesIO()
    chk.write_fp(out)
    chk.close()
    if out.getvalue() != buf.getvalue():
        a, b = out.getvalue(), buf.getvalue()
        first = next((i for i in range(min(len(a), len(b))) if a[i] != b[i]), min(len(a), len(b)))
        bad.append('%s: open + write does not reproduce the image (first difference at byte %d, sizes %d/%d)' % (ver, first, len(b), len(a)))
if bad:
    print('\n'.join(bad)); print('FAIL'); sys.exit(1)
print('OK')
