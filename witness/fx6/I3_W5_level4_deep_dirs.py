"""
Witness E (second half): pycdlib-genisoimage -iso-level 4 without -R must not
skip directories that are more than 7 levels deep; level 4 (ISO9660:1999) has
no depth limit and the files at that depth are not skipped either.

Usage: python W5_level4_deep_dirs.py <path-to-checkout>
"""
import os
import subprocess
import sys
import tempfile

sys.path.insert(0, sys.argv[1])

import pycdlib


def run_tool(checkout, name, args, cwd):
    env = dict(os.environ)
    env['PYTHONPATH'] = checkout
    return subprocess.run([sys.executable, os.path.join(checkout, 'tools', name)] + args,
                          cwd=cwd, env=env, stdout=subprocess.PIPE,
                          stderr=subprocess.STDOUT, universal_newlines=True)


def snapshot(top):
    result = {}
    for dirpath, dirnames, filenames in os.walk(top):
        for name in dirnames + filenames:
            full = os.path.join(dirpath, name)
            rel = os.path.relpath(full, top)
            if os.path.isdir(full):
                result[rel] = ('dir', None)
            else:
                with open(full, 'rb') as infp:
                    result[rel] = ('file', infp.read())
    return result


def main():
    checkout = os.path.abspath(sys.argv[1])
    problems = []
    with tempfile.TemporaryDirectory() as tmp:
        src = os.path.join(tmp, 'src')
        deep = os.path.join(src, 'd1', 'd2', 'd3', 'd4', 'd5', 'd6', 'd7', 'd8', 'd9')
        os.makedirs(deep)
        with open(os.path.join(deep, 'deep.txt'), 'wb') as outfp:
            outfp.write(b'deep\n')
        with open(os.path.join(os.path.dirname(os.path.dirname(deep)), 'seven.txt'), 'wb') as outfp:
            outfp.write(b'seven\n')
        with open(os.path.join(src, 'top.txt'), 'wb') as outfp:
            outfp.write(b'top\n')
        want = snapshot(src)

        out = os.path.join(tmp, 'out.iso')
        res = run_tool(checkout, 'pycdlib-genisoimage',
                       ['-o', out, '-iso-level', '4', '-J', src], tmp)
        if res.returncode != 0:
            print('pycdlib-genisoimage failed:\n' + res.stdout)
            return 1
        for line in res.stdout.splitlines():
            if 'too deep' in line:
                problems.append('pycdlib-genisoimage -iso-level 4 said: ' + line)

        for view in ('iso', 'joliet'):
            dest = os.path.join(tmp, view + '.out')
            os.mkdir(dest)
            res = run_tool(checkout, 'pycdlib-extract-files',
                           ['-path-type', view, '-extract-to', dest, out], tmp)
            if res.returncode != 0:
                print('pycdlib-extract-files failed:\n' + res.stdout)
                return 1
            have = snapshot(dest)
            if view == 'iso':
                # Level 4 keeps the names; files only get the version.
                have = dict((rel[:-2] if rel.endswith(';1') else rel, value) for rel, value in have.items())
            for rel in sorted(set(want) - set(have)):
                problems.append('%s view: %s is missing' % (view, rel))
            for rel in sorted(set(have) - set(want)):
                problems.append('%s view: %s is not in the source' % (view, rel))
            for rel in sorted(set(have) & set(want)):
                if have[rel] != want[rel]:
                    problems.append('%s view: %s differs' % (view, rel))

        # The image must be one that the library opens again.
        iso = pycdlib.PyCdlib()
        iso.open(out)
        iso.close()

    if problems:
        print('\n'.join(problems))
        return 1
    print('OK')
    return 0


if __name__ == '__main__':
    sys.exit(main())
