"""F-02.3: after opening a Rock Ridge image, adding an entry whose Rock Ridge data needs a continuation
area made the next write fail with "Assigned an extent beyond the ISO": the continuation area of the root
'.' record (the ER entry, which always gets a sector of its own when extents are assigned) was tracked as
a shareable continuation block, the new entry was placed into its free space without any space being
accounted, and the extent assignment then needed one sector more than the volume declared.
usage: F02_3_reopen_rr_add_continuation.py [repo]"""
import sys, io
sys.path.insert(0, sys.argv[1] if len(sys.argv) > 1 else '/repo')
import pycdlib

bad = []
for ver in ('1.09', '1.12'):
    for preexisting_long in (False, True):
        tag = 'rr=%s preexisting_long_name=%s' % (ver, preexisting_long)
        def content(iso, stage):
            if stage == 0:
                iso.add_fp(io.BytesIO(b'a'), 1, '/A.;1', rr_name='a')
                if preexisting_long:
                    iso.add_fp(io.BytesIO(b'l'), 1, '/L.;1', rr_name='l' * 200)
            else:
                iso.add_fp(io.BytesIO(b'b'), 1, '/B.;1', rr_name='b' * 220)
                iso.add_symlink('/S.;1', 'sym', '/'.join(['t' * 120] * 2))
        iso = pycdlib.PyCdlib()
        iso.new(rock_ridge=ver)
        content(iso, 0)
        buf = io.BytesIO()
        iso.write_fp(buf)
        iso.close()
        iso = pycdlib.PyCdlib()
        iso.open_fp(buf)
        try:
            content(iso, 1)
            out = io.BytesIO()
            iso.write_fp(out)
            declared = iso.pvd.space_size * 2048
            iso.close()
        except Exception as e:
            bad.append('%s: %s: %s' % (tag, type(e).__name__, e))
            continue
        if len(out.getvalue()) != declared:
            bad.append('%s: image has %d bytes, descriptor declares %d' % (tag, len(out.getvalue()), declared))
        ref = pycdlib.PyCdlib()
        ref.new(rock_ridge=ver)
        content(ref, 0)
        content(ref, 1)
        refbuf = io.BytesIO()
        ref.write_fp(refbuf)
        ref.close()
        if len(refbuf.getvalue()) != len(out.getvalue()):
            bad.append('%s: edited image has %d sectors, the same content built from scratch %d' % (tag, len(out.getvalue()) // 2048, len(refbuf.getvalue()) // 2048))
        chk = pycdlib.PyCdlib()
        chk.open_fp(out)
        data = io.BytesIO()
        chk.get_file_from_iso_fp(data, rr_path='/' + 'b' * 220)
        if data.getvalue() != b'b':
            bad.append('%s: long-named file reads %r' % (tag, data.getvalue()))
        if chk.get_record(iso_path='/S.;1').rock_ridge.symlink_path() != ('/'.join(['t' * 120] * 2)).encode():
            bad.append('%s: symlink target wrong' % tag)
        chk.close()
if bad:
    print('\n'.join(bad)); print('FAIL'); sys.exit(1)
print('OK')
