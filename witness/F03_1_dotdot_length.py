"""F-03.1: a subdirectory created after its parent directory grew beyond one block was written with a ".."
record whose data length (one block) disagreed with the parent.  usage: F03_1_dotdot_length.py [repo]"""
import sys, io, struct
sys.path.insert(0, sys.argv[1] if len(sys.argv)>1 else '/repo')
import pycdlib
iso=pycdlib.PyCdlib(); iso.new(interchange_level=1)
iso.add_directory('/BIG')
for i in range(100):
    iso.add_fp(io.BytesIO(b'x'),1,'/BIG/F%05d.;1'%i)
iso.add_directory('/BIG/SUB')     # added after /BIG grew to 3 sectors
for i in range(100):
    iso.add_fp(io.BytesIO(b'x'),1,'/R%05d.;1'%i)   # root grows
iso.add_directory('/LATE')
buf=io.BytesIO(); iso.write_fp(buf); raw=buf.getvalue()
def rec(off):
    l=raw[off]; ext,=struct.unpack_from('<L',raw,off+2); dl,=struct.unpack_from('<L',raw,off+10); fl=raw[off+25]; n=raw[off+32]; nm=raw[off+33:off+33+n]
    return l,ext,dl,fl,nm
def listdir(ext,dl):
    out=[]; 
    for s in range(dl//2048):
        off=(ext+s)*2048; end=off+2048
        while off<end and raw[off]:
            r=rec(off); out.append(r); off+=r[0]
    return out
root=rec(16*2048+156)
bad=[]
def walk(ext,dl,pext,pdl,path):
    es=listdir(ext,dl)
    dot,dotdot=es[0],es[1]
    if (dot[1],dot[2])!=(ext,dl): bad.append('%s: . says (%d,%d) dir is (%d,%d)'%(path,dot[1],dot[2],ext,dl))
    if (dotdot[1],dotdot[2])!=(pext,pdl): bad.append('%s: .. says (%d,%d) parent is (%d,%d)'%(path,dotdot[1],dotdot[2],pext,pdl))
    for e in es[2:]:
        if e[3]&2: walk(e[1],e[2],ext,dl,path+e[4].decode()+'/')
walk(root[1],root[2],root[1],root[2],'/')
if bad:
    print("\n".join(bad)); print("FAIL"); sys.exit(1)
print("OK")
